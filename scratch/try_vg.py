import sys, time, collections, traceback
sys.path.insert(0, '/verif')
from sa.model import Model
from sa.vg import Builder, walk
sys.setrecursionlimit(10000)
mdl = Model('/repo')
only = sys.argv[1:] 
for ci in mdl.solver_classes():
    if ci.find_method('_run') is None: continue
    if '_run' not in ci.methods and not only: continue
    if only and ci.name not in only: continue
    b = Builder(mdl)
    t0 = time.time()
    try:
        obj, res = b.run_solver(ci)
    except Exception as e:
        traceback.print_exc()
        print('FAIL', ci.fullname, type(e).__name__, e)
        continue
    kinds = collections.Counter(n.kind for n in b.trace)
    unk = collections.Counter(n.val for n in b.trace if n.kind == 'unknown')
    print('%-70s %.2fs nodes=%d res=%s unknown=%d callunk=%d' % (ci.fullname, time.time()-t0, len(b.trace), res.kind if res else None, kinds['unknown'], kinds['callunk']))
    if only:
        for k, v in unk.most_common(40): print('    ', v, k)
        print('   notes', collections.Counter(b.notes))
        print('   unknown calls', b.unknown_calls)
        print('   result', res, res.args[:3] if res else None)
