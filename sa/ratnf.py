"""Rational normal form: a value-graph expression as a canonical rational
function (numerator/denominator polynomials with rational coefficients) over
atoms.  Used where the monomial normal form is too weak because the identity
needs distribution, e.g. P(rho, e(rho, P)) = P for the EOS closures or the
isotropic-elasticity identities between Blake's six moduli.  Non-rational
sub-expressions (piecewise values, library calls, symbolic powers) are atoms
identified by their monomial-normal-form key, so two syntactically separate
but structurally identical occurrences are the same atom.  No
differentiation, no solving, no limits: only field arithmetic and polynomial
gcd (sympy.cancel) -- a normal form, exactly like exponent arithmetic in D_dim.
"""
from fractions import Fraction

import sympy

from .nf import NFEval, NAN


class RatEval:
    def __init__(self, nfeval=None):
        self.ev = nfeval or NFEval([])
        self.memo = {}
        self.atoms = {}

    def sym(self, key):
        if key not in self.atoms:
            self.atoms[key] = sympy.Symbol('a%d' % len(self.atoms), positive=True)
        return self.atoms[key]

    def atom_of(self, n):
        x = self.ev.nf(n)
        return self.sym(x.key() if x is not NAN else 'NAN#%d' % n.nid)

    def r(self, n):
        if n.nid in self.memo:
            return self.memo[n.nid]
        v = self._r(n)
        self.memo[n.nid] = v
        return v

    def _r(self, n):
        k = n.kind
        if k == 'const' and isinstance(n.val, (int, float)) and not isinstance(n.val, bool):
            if isinstance(n.val, float):
                if n.val != n.val or n.val in (float('inf'), float('-inf')):
                    return self.atom_of(n)
                q = Fraction(repr(n.val))
                return sympy.Rational(q.numerator, q.denominator)
            return sympy.Integer(n.val)
        if k == 'binop':
            a, b = self.r(n.args[0]), self.r(n.args[1])
            op = n.val
            if op == '+':
                return a + b
            if op == '-':
                return a - b
            if op == '*':
                return a * b
            if op == '/':
                return a / b
            if op == '**':
                e = n.args[1]
                if e.kind == 'const' and isinstance(e.val, (int, float)) and not isinstance(e.val, bool):
                    q = Fraction(repr(e.val)) if isinstance(e.val, float) else Fraction(e.val)
                    if q.denominator in (1, 2) and abs(q) <= 8:
                        return a ** sympy.Rational(q.numerator, q.denominator)
                return self.atom_of(n)
            return self.atom_of(n)
        if k == 'unop' and n.val == '-':
            return -self.r(n.args[0])
        if k == 'unop' and n.val == '+':
            return self.r(n.args[0])
        if k == 'call' and n.val in ('builtins.float', 'numpy.float64') and n.args:
            return self.r(n.args[0])
        if k == 'call' and n.val in ('numpy.sqrt', 'math.sqrt') and n.args:
            return sympy.sqrt(self.r(n.args[0]))
        if k == 'call' and n.val in ('builtins.pow', 'math.pow') and len(n.args) == 2:
            e = n.args[1]
            if e.kind == 'const' and isinstance(e.val, (int, float)) and not isinstance(e.val, bool):
                q = Fraction(repr(e.val)) if isinstance(e.val, float) else Fraction(e.val)
                if q.denominator in (1, 2) and abs(q) <= 8:
                    return self.r(n.args[0]) ** sympy.Rational(q.numerator, q.denominator)
            return self.atom_of(n)
        return self.atom_of(n)


def is_zero(expr):
    e = sympy.cancel(sympy.together(sympy.expand(expr)))
    if e == 0:
        return True
    num, den = sympy.fraction(e)
    return sympy.expand(num) == 0
