"""Rational normal form: a value-graph expression as a canonical rational
function (numerator/denominator polynomials with rational coefficients) over
atoms.  Used where the monomial normal form is too weak because the identity
needs distribution, e.g. P(rho, e(rho, P)) = P for the EOS closures or the
isotropic-elasticity identities between Blake's six moduli.  Non-rational
sub-expressions (piecewise values, library calls, symbolic powers) are atoms
identified by their monomial-normal-form key, so two syntactically separate
but structurally identical occurrences are the same atom.  No
differentiation, no solving, no limits: only field arithmetic and polynomial
gcd (sympy.cancel) -- a normal form, exactly like exponent arithmetic in D_dim.
"""
from fractions import Fraction

import sympy

from .nf import NFEval, NAN, Mono, Sum, PW, Struct


class RatEval:
    def __init__(self, nfeval=None):
        self.ev = nfeval or NFEval([])
        self.memo = {}
        self.atoms = {}

    def sym(self, key):
        if key not in self.atoms:
            self.atoms[key] = sympy.Symbol('a%d' % len(self.atoms), positive=True)
        return self.atoms[key]

    def atom_of(self, n):
        x = self.ev.nf(n)
        return self.sym(x.key() if x is not NAN else 'NAN#%d' % n.nid)

    def r(self, n):
        if n.nid in self.memo:
            return self.memo[n.nid]
        v = self._r(n)
        self.memo[n.nid] = v
        return v

    def _r(self, n):
        k = n.kind
        if k == 'const' and isinstance(n.val, (int, float)) and not isinstance(n.val, bool):
            if isinstance(n.val, float):
                if n.val != n.val or n.val in (float('inf'), float('-inf')):
                    return self.atom_of(n)
                q = Fraction(repr(n.val))
                return sympy.Rational(q.numerator, q.denominator)
            return sympy.Integer(n.val)
        if k == 'binop':
            a, b = self.r(n.args[0]), self.r(n.args[1])
            op = n.val
            if op == '+':
                return a + b
            if op == '-':
                return a - b
            if op == '*':
                return a * b
            if op == '/':
                return a / b
            if op == '**':
                e = n.args[1]
                if e.kind == 'const' and isinstance(e.val, (int, float)) and not isinstance(e.val, bool):
                    q = Fraction(repr(e.val)) if isinstance(e.val, float) else Fraction(e.val)
                    if q.denominator in (1, 2) and abs(q) <= 8:
                        return a ** sympy.Rational(q.numerator, q.denominator)
                return self.atom_of(n)
            return self.atom_of(n)
        if k == 'unop' and n.val == '-':
            return -self.r(n.args[0])
        if k == 'unop' and n.val == '+':
            return self.r(n.args[0])
        if k == 'call' and n.val in ('builtins.float', 'numpy.float64') and n.args:
            return self.r(n.args[0])
        if k == 'call' and n.val in ('numpy.sqrt', 'math.sqrt') and n.args:
            return sympy.sqrt(self.r(n.args[0]))
        if k == 'call' and n.val in ('builtins.pow', 'math.pow') and len(n.args) == 2:
            e = n.args[1]
            if e.kind == 'const' and isinstance(e.val, (int, float)) and not isinstance(e.val, bool):
                q = Fraction(repr(e.val)) if isinstance(e.val, float) else Fraction(e.val)
                if q.denominator in (1, 2) and abs(q) <= 8:
                    return self.r(n.args[0]) ** sympy.Rational(q.numerator, q.denominator)
            return self.atom_of(n)
        return self.atom_of(n)


def _factor_list_rad(poly):
    """factor_list that tolerates rational powers of symbols (sqrt(x) ...): each symbol x that occurs with a
    fractional exponent is written as D**Q (Q the lcm of the denominators), the polynomial in D is factored,
    and D is substituted back."""
    fr = [a for a in poly.atoms(sympy.Pow) if a.base.is_Symbol and a.exp.is_Rational and not a.exp.is_Integer]
    if not fr:
        return sympy.factor_list(poly)
    import math
    Q = {}
    for a in fr:
        Q[a.base] = Q.get(a.base, 1) * a.exp.q // math.gcd(Q.get(a.base, 1), a.exp.q)
    D = {b: sympy.Dummy('D', positive=True) for b in Q}
    p2 = poly.replace(lambda x: x.is_Pow and x.base in Q and x.exp.is_Rational,
                      lambda x: D[x.base] ** (x.exp * Q[x.base]))
    p2 = p2.subs({b: D[b] ** Q[b] for b in Q})
    cont, fl = sympy.factor_list(sympy.expand(p2))
    back = {D[b]: b ** sympy.Rational(1, Q[b]) for b in Q}
    return cont, [(f.subs(back), m) for f, m in fl]


def _prime_factors(c, sign):
    """A positive rational constant under a parameter-dependent power, as prime powers: 4**e and 2**e must share
    their opaque symbol (4**e == (2**e)**2)."""
    try:
        c = sympy.nsimplify(c)
        if c.is_Rational and c > 0:
            out = []
            for part, sg in ((c.p, sign), (c.q, -sign)):
                for prime, k in sorted(sympy.factorint(part).items()):
                    out.append((sympy.Integer(prime), sg * k))
            return out
    except Exception:
        pass
    return [(c, sign)]


def refuted(expr):
    """Cheap, sound refutation: the expression (a polynomial / radical form in independent positive symbols) is
    NOT identically zero if it is non-zero at some point.  Two fixed pseudo-random rational points, 40 digits.
    Only ever used to answer 'not proven' quickly; a proof still needs the normal form."""
    import random
    try:
        syms = sorted(expr.free_symbols, key=str)
        rnd = random.Random(20260926)
        terms = list(expr.args) if expr.is_Add else [expr]
        for _ in range(2):
            vals = {x: sympy.Rational(rnd.randint(3, 89), rnd.randint(3, 89)) for x in syms}
            tv = [t.xreplace(vals) for t in terms]
            if all(v.is_Rational for v in tv):
                if sum(tv) != 0:                      # exact rational arithmetic
                    return True
                continue
            tv = [sympy.N(v, 50) for v in tv]         # radicals: 50 significant digits
            tot = sum(tv)
            scale = sum(abs(v) for v in tv)
            if scale == 0:
                continue
            if abs(tot) > sympy.Float('1e-30') * scale:
                return True
        return False
    except Exception:
        return False


def is_zero(expr):
    if refuted(expr):
        return False
    # fast path: numerator of the combined fraction expands to the zero polynomial
    try:
        num0 = sympy.fraction(sympy.together(expr))[0]
        if sympy.count_ops(num0) > 6000:
            return False        # not proven (bounded effort: a product of many large sums)
        if sympy.expand(num0) == 0:
            return True
    except Exception:
        pass
    # the fast path is complete for rational functions of independent atoms; the gcd-based form below only
    # helps with radicals that expand() leaves alone, and is exponential on large non-zero expressions
    try:
        if sympy.count_ops(expr) > 400:
            return False
    except Exception:
        return False
    e = sympy.cancel(sympy.together(sympy.expand(expr)))
    if e == 0:
        return True
    num, den = sympy.fraction(e)
    return sympy.expand(num) == 0


def exponent_lcm(ev, xs):
    """lcm of the denominators of every parameter-dependent exponent in the normal forms xs (through sum atoms and
    function arguments) -- the common denominator for NFSym.common_den."""
    seen, out = set(), [None]

    def walk(x):
        if x is None or isinstance(x, (PW, Struct)) or not hasattr(x, 'key'):
            return
        if isinstance(x, Sum):
            for t in x.terms:
                walk(t)
            return
        for k, e in x.f.items():
            try:
                if not e.denom.is_ground:
                    d = e.denom.primitive()[1]
                    if d.LC < 0:
                        d = -d
                    out[0] = d if out[0] is None else out[0].lcm(d)
            except Exception:
                pass
            if k in seen:
                continue
            seen.add(k)
            if k in ev.sums:
                walk(ev.sums[k])
            elif k in ev.funcs:
                for a in ev.funcs[k][1:]:
                    walk(a)
    for x in xs:
        walk(x)
    return out[0]


def staged_zero(ev, x, units_from=None, depths=(1, 2, 3, 4, None), setup=None):
    """x == 0 decided with inner sum atoms kept opaque first (cheap; sound: an identity between expressions with opaque
    sub-terms holds for every value of them), then with deeper expansion.  `setup(sy)` configures each NFSym."""
    from .radnf import RadNF, Unsupported
    for d in depths:
        sy = NFSym(ev)
        sy.max_depth = d
        if setup is not None:
            setup(sy)
        try:
            cx = sy.conv(x)
        except TypeError:
            return False
        if is_zero(cx):
            return True
        if d is None:
            try:
                return RadNF(sy.units).is_zero(cx)
            except Unsupported:
                return False
    return False


class NFSym:
    """Monomial normal forms -> sympy expressions with ONE naming scheme for atoms: every
    `atom ** exponent` factor with a constant rational exponent becomes (expr of the atom) ** q,
    where sum-atoms are expanded recursively into their terms; a factor with a parameter-dependent
    exponent becomes one opaque positive symbol keyed by 'atom^(exponent)'.  So two normal forms
    built from the same sub-values share their opaque symbols, and identities that need
    distribution (which the monomial form does not do) are decided by the rational normal form."""

    def __init__(self, ev):
        self.ev = ev
        self.syms = {}
        self.memo = {}
        self.units = set()      # symbols standing for sign(x): s**2 == 1
        self.ambiguous = []     # powers whose sign decomposition was not determined
        self.powdef = {}        # opaque power symbol -> (base factor expr, exponent shape as field element)
        self.orient = None      # optional callable: sympy polynomial factor -> -1 if it is negative on the domain
        self.common_den = None  # optional ring element: every exponent is decomposed over this one denominator
        self.max_depth = None   # optional: sum atoms nested deeper than this stay opaque real symbols (sound for proving)
        self._depth = 0
        self.opaque_pred = None  # optional: sum atoms (below the top level) whose key satisfies this stay opaque

    def sym(self, key):
        if key not in self.syms:
            if key.startswith('numpy.sign('):
                self.syms[key] = sympy.Symbol('b%d' % len(self.syms), real=True)
                self.units.add(self.syms[key])
            else:
                self.syms[key] = sympy.Symbol('b%d' % len(self.syms), positive=True)
        return self.syms[key]

    def _ground(self, e):
        try:
            if e.numer.is_ground and e.denom.is_ground:
                return sympy.Rational(int(e.numer.LC), int(e.denom.LC))
        except Exception:
            pass
        return None

    def atom(self, k):
        if k in self.memo:
            return self.memo[k]
        if k in self.ev.sums:
            if (self.max_depth is not None and self._depth >= self.max_depth) or \
                    (self.opaque_pred is not None and self._depth >= 1 and self.opaque_pred(k)):
                if 'opaque:' + k not in self.syms:
                    self.syms['opaque:' + k] = sympy.Symbol('b%d' % len(self.syms), real=True)
                v = self.syms['opaque:' + k]
                self.memo[k] = v
                return v
            v = sympy.Integer(0)
            self._depth += 1
            try:
                for t in self.ev.sums[k].terms:
                    v += self.mono(t)
            finally:
                self._depth -= 1
        elif k.startswith('num(') and k.endswith(')'):
            q = Fraction(k[4:-1])               # a rational constant kept as a base by NFEval.power
            v = sympy.Rational(q.numerator, q.denominator)
        else:
            v = self.sym(k)
        self.memo[k] = v
        return v

    def mono(self, m):
        v = sympy.Rational(m.coef.numerator, m.coef.denominator)
        for k, e in m.f.items():
            q = self._ground(e)
            if q is not None and k.startswith('numpy.sign(') and q.is_integer:
                v *= self.atom(k) ** (int(q) % 2)      # sign(x)**2 == 1 (x != 0)
            elif q is not None:
                v *= self.atom(k) ** q
            else:
                v *= self.sympow(k, e)
        return v

    def sympow(self, k, e):
        """atom ** e for a parameter-dependent exponent e = N/D (reduced fraction of polynomials in
        the parameters).  N = q*D + rem (polynomial division, fixed monomial order), so
        e = q + rem/D canonically and additively; every monomial c*m of q contributes
        base**c (m = 1: an ordinary rational power) or T(f, m)**c, every monomial c*m of rem
        contributes T(f, m/D)**c, where the base is first factored into irreducible factors
        f_i**m_i (sums are brought to one fraction) and T(f, shape) is ONE opaque positive symbol
        per (irreducible factor, exponent shape).  Exponents therefore add correctly across
        products: x**(g-1) / x**g = 1/x,  t**(a/D) * t**(b/D) = t**((a+b)/D), and
        (1 + 2/(g-1))**k == ((g+1)/(g-1))**k."""
        return self._pow_expr(self.atom(k), e, k)

    def _pow_expr(self, base, e, label, depth=0):
        """sympy expression `base` (positive) raised to the field element e; see sympow."""
        if depth > 6:
            return self.sym('%s^(%s)' % (label, e))
        field = e.parent()
        e_numer, e_denom = e.numer, e.denom
        if self.common_den is not None:
            # exponents with several multivariate denominators: N -> (quotient, remainder) of the division by ONE
            # polynomial in a fixed term order is linear, so decomposing every exponent over the same common
            # denominator is additive (partial fractions are not canonical in several variables)
            try:
                cq, cr = self.common_den.div(e_denom)
                if cr == 0:
                    e_numer, e_denom = e_numer * cq, self.common_den
            except Exception:
                pass
        # partial fractions first: 1/(g (g-1)) = 1/(g-1) - 1/g, so that exponents whose denominators share
        # factors are decomposed over the same shapes
        try:
            if self.common_den is None and not e.denom.is_ground:
                dex = e.denom.as_expr()
                fsyms = list(dex.free_symbols)
                if len(fsyms) == 1 and len(sympy.factor_list(dex)[1]) > 1:
                    terms = sympy.Add.make_args(sympy.apart(e.as_expr(), fsyms[0]))
                    if len(terms) > 1:
                        out = sympy.Integer(1)
                        for tm in terms:
                            out *= self._pow_expr(base, field.from_sympy(tm), label, depth + 1)
                        return out
        except Exception:
            pass
        try:
            quo, rem = e_numer.div(e_denom)
            ring = e_numer.ring
            # primitive denominator: 1/(4b+10) and 1/(2b+5) are the same exponent shape (coefficient 1/2, 1)
            dcont = e_denom.content()
            if e_denom.LC < 0:
                dcont = -dcont
            dprim = e_denom.quo_ground(dcont) if dcont != 1 else e_denom
            dtxt = str(dprim)
            dscale = sympy.Rational(int(dcont.numerator), int(dcont.denominator)) if hasattr(dcont, 'numerator') else sympy.Rational(int(dcont))
            parts = []          # (rational coefficient, shape key or None for a plain rational power, shape as field element)
            for poly, den in ((quo, '1'), (rem, dtxt)):
                if poly == 0:
                    continue
                for monom, coeff in poly.terms():
                    c = sympy.Rational(int(coeff.numerator), int(coeff.denominator))
                    mono_f = field(ring.term_new(monom, ring.domain.one))
                    if den == '1' and not any(monom):
                        parts.append((c, None, None))
                    elif den != '1' and e_denom.is_ground:
                        d0 = e_denom.LC
                        c = c / sympy.Rational(int(d0.numerator), int(d0.denominator))
                        parts.append((c, None, None) if not any(monom) else (c, '%s/1' % (monom,), mono_f))
                    elif den == '1':
                        parts.append((c, '%s/1' % (monom,), mono_f))
                    else:
                        parts.append((c / dscale, '%s/%s' % (monom, den), mono_f / field(dprim)))
        except Exception:
            return self.sym('%s^(%s)' % (label, e))
        factors = []            # (sympy expr of an irreducible factor or a number, multiplicity incl. sign)
        nested = sympy.Integer(1)
        num, den = sympy.fraction(sympy.together(base))
        for poly, sign in ((num, 1), (den, -1)):
            poly = sympy.expand(poly)
            if poly == 1:
                continue
            if poly.is_number:
                factors.extend(_prime_factors(poly, sign))
                continue
            try:
                cont, fl = _factor_list_rad(poly)
            except Exception:
                cont, fl = sympy.Integer(1), [(poly, 1)]       # not a polynomial in the symbols: one opaque factor
            fl = [(sympy.expand(f), m) for f, m in fl]
            if self.orient is not None:
                # orient every irreducible factor so that it is positive on the declared domain
                for i, (f, m) in enumerate(fl):
                    if not f.is_Symbol and self.orient(f) < 0:
                        fl[i] = (sympy.expand(-f), m)
                        cont = cont * (-1) ** m
                if cont.is_number and cont < 0:
                    self.ambiguous.append('negative base under a parameter-dependent power: %s' % label[:60])
                    return self.sym('%s^(%s)' % (label, e))
            if cont.is_number and cont < 0:
                # the base of a real power is positive: move the sign into one factor of odd multiplicity
                # (preferably one that contains a point / time variable, e.g. t - 1 -> 1 - t)
                odd = [i for i, (f, m) in enumerate(fl) if m % 2 == 1 and not f.is_Symbol]
                if len(odd) != 1:
                    self.ambiguous.append('%s^(%s)' % (label[:60], e))
                if not odd:
                    return self.sym('%s^(%s)' % (label, e))
                inputs = {v for kk, v in self.syms.items() if kk.startswith('input:')}
                pick = next((i for i in odd if fl[i][0].free_symbols & inputs), odd[0])
                fl[pick] = (sympy.expand(-fl[pick][0]), fl[pick][1])
                cont = -cont
            if cont != 1:
                factors.extend(_prime_factors(cont, sign))
            for f, m in fl:
                if f.is_Pow and f.base.is_Symbol and f.exp.is_Rational:
                    f, m = f.base, m * f.exp                     # sqrt(x)**e = x**(e/2)
                if f.is_Symbol and f in self.powdef:
                    # a power of a power: (f0**s0)**(m e) = f0**(s0 m e), decomposed afresh
                    f0, s0 = self.powdef[f]
                    shaped = e
                    for c, shape, sf in parts:
                        if shape is None:
                            shaped = shaped - field(c.p) / field(c.q)          # the plain rational part stays on `base ** c`
                    mm = sympy.Rational(sign) * m
                    nested *= self._pow_expr(f0, s0 * (field(mm.p) / field(mm.q)) * shaped, label, depth + 1)
                    continue
                factors.append((f, sign * m))
        out = nested
        for c, shape, sf in parts:
            if shape is None:
                out *= base ** c
            else:
                for f, m in factors:
                    t = self.sym('pow[%s|%s]' % (sympy.srepr(f), shape))
                    self.powdef[t] = (f, sf)
                    out *= t ** (c * m)
        return out

    def conv(self, x):
        from .nf import Mono, Sum
        if isinstance(x, Mono):
            return self.mono(x)
        if isinstance(x, Sum):
            v = sympy.Integer(0)
            for t in x.terms:
                v += self.mono(t)
            return v
        raise TypeError('piecewise / structured normal form')

    def equal(self, a, b):
        return is_zero(self.conv(a) - self.conv(b))
