"""Static analysis of lanl/ExactPack -- see /verif/DESIGN.md.

Nothing in this package imports or executes `exactpack`; every verdict is
computed from the source text under <repo>/exactpack.
"""
