"""C14 clauses for the 1D rod (and, through it, the three planar sandwiches): the series solves the problem it
documents, mode by mode.

The source of Rod1D is read as formulas of a symbolic integer mode number n: the expressions assigned to kn[n],
An[n], Bn[n] in modes_BC1..4 (generic branch n >= 1, and the n = 0 branch where the code has one), the static
(non-homogeneous) part and the summand of the series in _run.  With them, for each of the four special
boundary-condition cases (case conditions beta_1 = 0 etc. substituted):
  (a) every summand  (A_n cos k_n x + B_n sin k_n x) exp(-kappa k_n^2 t)  satisfies  T_t = kappa T_xx  (any k_n);
  (b) every summand satisfies the HOMOGENEOUS boundary conditions  alpha_i T + beta_i T_x = 0  at x = 0 and x = L for
      integer n (sin(n pi) = 0, cos((n + 1/2) pi) = 0 by sympy's integer assumptions);
  (c) the static part S(x) is linear and carries the data:  alpha_i S + beta_i S_x = gamma_i  at its end;
  (d) the coefficients are the Fourier coefficients of  (T_L + (T_R - T_L) x / L) - S(x)  in the orthogonal basis of the
      case: the series tends to the declared initial profile as t -> 0+ (in L2), and to S as t -> infinity since
      kappa k_n^2 > 0 for n >= 1.
For the general (Robin) case the wave numbers are roots of a transcendental equation found numerically; decided are
  (e) A_n = -(beta_1 k_n / alpha_1) B_n makes every summand satisfy the condition at x = 0 identically, and the function
      whose roots are taken IS the condition at x = L (tan mu eliminated);
  (f) the static part of the general case carries the data at both ends.
Computer algebra on formulas read from the syntax tree; nothing is executed.  Not decided: truncation error, the
normalisation integrals of the general case, Gibbs behaviour at the ends.
"""
import ast

import sympy as sp

from ..model import AnalysisError, src_of
from ..report import Finding

PROP = 'C14'
ROD = 'exactpack.solvers.heat.rod1d:Rod1D'
n = sp.Symbol('n', integer=True, positive=True)
x, t = sp.Symbol('x', real=True), sp.Symbol('t', positive=True)


class Formulas:
    """A tiny symbolic reader of straight-line numeric Python: names -> sympy, `self.a` -> Symbol('a'),
    `self.arr[n]` -> current symbolic value of that array element."""

    def __init__(self, nsym=n):
        self.env = {}
        self.arr = {}
        self.n = nsym
        self.lams = {}
        self.added = {}          # accumulator name -> summands added in loops

    def sym(self, name):
        pos = name in ('L', 'kappa', 'Nsum')
        return sp.Symbol(name, positive=True) if pos else sp.Symbol(name, real=True)

    def ev(self, e):
        if isinstance(e, ast.Constant):
            if isinstance(e.value, (int, float)):
                return sp.nsimplify(e.value, rational=True)
            raise AnalysisError('constant %r' % (e.value,))
        if isinstance(e, ast.Name):
            if e.id in self.env:
                return self.env[e.id]
            if e.id == 'n':
                return self.n
            raise AnalysisError('unbound name %s' % e.id)
        if isinstance(e, ast.Attribute):
            if isinstance(e.value, ast.Name) and e.value.id == 'self':
                return self.sym(e.attr)
            if isinstance(e.value, ast.Name) and e.value.id in ('np', 'numpy', 'math') and e.attr == 'pi':
                return sp.pi
            raise AnalysisError('attribute %s' % src_of(e))
        if isinstance(e, ast.Subscript):
            if isinstance(e.value, ast.Attribute) and isinstance(e.value.value, ast.Name) and e.value.value.id == 'self':
                return self.arr.get(e.value.attr, sp.Integer(0))
            if isinstance(e.value, ast.Name) and e.value.id in self.env and isinstance(e.slice, ast.Constant):
                v = self.env[e.value.id]
                if isinstance(v, (list, tuple)):
                    return v[e.slice.value]
            raise AnalysisError('subscript %s' % src_of(e))
        if isinstance(e, ast.BinOp):
            a, b = self.ev(e.left), self.ev(e.right)
            op = type(e.op)
            if op is ast.Add:
                return a + b
            if op is ast.Sub:
                return a - b
            if op is ast.Mult:
                return a * b
            if op is ast.Div:
                return a / b
            if op is ast.Pow:
                return a ** b
            raise AnalysisError('operator %s' % op.__name__)
        if isinstance(e, ast.UnaryOp) and isinstance(e.op, ast.USub):
            return -self.ev(e.operand)
        if isinstance(e, ast.UnaryOp) and isinstance(e.op, ast.UAdd):
            return self.ev(e.operand)
        if isinstance(e, ast.Call):
            f = src_of(e.func)
            if f in ('np.where', 'numpy.where') and len(e.args) == 3:
                return self.ev(e.args[1])           # the generic point (the exceptional point is decided by C14.singular-case)
            args = [self.ev(a) for a in e.args]
            if f == 'float' and len(args) == 1:
                return args[0]
            if f in ('np.where', 'numpy.where') and len(e.args) == 3:
                return args[1]                      # the generic point (the exceptional point is decided by C14.singular-case)
            table = {'np.sin': sp.sin, 'np.cos': sp.cos, 'np.tan': sp.tan, 'np.exp': sp.exp, 'np.sqrt': sp.sqrt,
                     'np.sinh': sp.sinh, 'np.cosh': sp.cosh, 'numpy.sinh': sp.sinh, 'numpy.cosh': sp.cosh,
                     'numpy.sin': sp.sin, 'numpy.cos': sp.cos, 'numpy.tan': sp.tan, 'numpy.exp': sp.exp, 'numpy.sqrt': sp.sqrt,
                     'math.sin': sp.sin, 'math.cos': sp.cos, 'math.exp': sp.exp, 'math.sqrt': sp.sqrt}
            if f in table and len(args) == 1:
                return table[f](args[0])
            raise AnalysisError('call %s' % f)
        raise AnalysisError('expression %s' % type(e).__name__)

    def run(self, stmts, branch=None):
        """branch(test_src) -> True / False / None selects if-branches (None: not decidable -> error)."""
        for st in stmts:
            if isinstance(st, ast.Expr) and isinstance(st.value, ast.Constant):
                continue
            if isinstance(st, ast.Assign) and len(st.targets) == 1:
                tg = st.targets[0]
                if isinstance(st.value, ast.Lambda):
                    if isinstance(tg, ast.Name):
                        self.lams[tg.id] = st.value
                    continue
                if isinstance(tg, ast.Name):
                    self.env[tg.id] = self.ev(st.value)
                elif isinstance(tg, ast.Subscript) and isinstance(tg.value, ast.Attribute) and src_of(tg.value.value) == 'self':
                    self.arr[tg.value.attr] = self.ev(st.value)
                else:
                    raise AnalysisError('assignment target %s' % src_of(tg))
            elif isinstance(st, ast.If):
                pick = branch(src_of(st.test).replace(' ', '')) if branch else None
                if pick is None:
                    raise AnalysisError('branch `%s` not selected' % src_of(st.test))
                self.run(st.body if pick else st.orelse, branch)
            elif isinstance(st, ast.For):
                if isinstance(st.target, ast.Name) and st.target.id != 'n':
                    self.env[st.target.id] = sp.Symbol(st.target.id, integer=True, positive=True)
                self.run(st.body, branch)
            elif isinstance(st, ast.AugAssign) and isinstance(st.target, ast.Name) and isinstance(st.op, ast.Add):
                self.added.setdefault(st.target.id, []).append(self.ev(st.value))
            elif isinstance(st, (ast.Pass, ast.Raise)):
                continue
            else:
                raise AnalysisError('statement %s' % type(st).__name__)


def iszero(e):
    e = sp.simplify(sp.expand(sp.simplify(e)))
    return e == 0


def rod(model, res):
    cls = model.get_class(ROD)
    runm = cls.find_method('_run')
    if runm is None:
        raise AnalysisError('Rod1D._run vanished')
    # the series summand
    loops = [st for st in runm.node.body if isinstance(st, ast.For)]
    if len(loops) != 1 or not isinstance(loops[0].body[0], ast.AugAssign):
        raise AnalysisError('Rod1D._run: the series loop changed shape')
    summand_ast = loops[0].body[0].value
    chain = [st for st in runm.node.body if isinstance(st, ast.If)]
    if len(chain) != 1:
        raise AnalysisError('Rod1D._run: the boundary-condition dispatch changed shape')
    cases = []
    node = chain[0]
    while True:
        cases.append((node.test, node.body))
        if len(node.orelse) == 1 and isinstance(node.orelse[0], ast.If):
            node = node.orelse[0]
            continue
        gen_body = node.orelse
        break
    if len(cases) != 4:
        raise AnalysisError('Rod1D._run: expected four special cases, found %d' % len(cases))
    a1, b1, g1, a2, b2, g2, L, kappa, TL, TR = (Formulas().sym(k) for k in
                                               ('alpha1', 'beta1', 'gamma1', 'alpha2', 'beta2', 'gamma2', 'L', 'kappa', 'TL', 'TR'))
    IC = TL + (TR - TL) * x / L

    def oblige(fi, label, ok, msg, at=None):
        res.obligations += 1
        res.evaluations += 1
        res.nontrivial += 1
        if ok:
            res.discharged += 1
            res.sample({'rule': 'C14.series', 'identity': label}, limit=80)
        else:
            res.add(Finding(PROP, 'C14.series', fi.module.relpath, fi.qualname, label, msg,
                            line=getattr(at, 'lineno', 0) or fi.node.lineno, construct=src_of(at)[:160] if at is not None else 'def %s' % fi.name))
    # (a) PDE, for any coefficients and wave number
    F = Formulas()
    A, B, K = sp.Symbol('A', real=True), sp.Symbol('B', real=True), sp.Symbol('k', positive=True)
    F.arr.update({'An': A, 'Bn': B, 'kn': K})
    F.env.update({'x': x, 't': t})
    term = F.ev(summand_ast)
    oblige(runm, 'every summand of the series satisfies T_t = kappa T_xx', iszero(sp.diff(term, t) - kappa * sp.diff(term, x, 2)),
           'Rod1D._run: a summand of the series (for arbitrary coefficients and wave number) does not satisfy the heat equation '
           'T_t = kappa T_xx', at=loops[0].body[0])
    names = ['BC1', 'BC2', 'BC3', 'BC4']
    for idx, (test, body) in enumerate(cases):
        name = names[idx]
        tsrc = src_of(test).replace(' ', '')
        zero = {}
        for prm, sym_ in (('alpha1', a1), ('beta1', b1), ('alpha2', a2), ('beta2', b2)):
            if 'self.%s==0' % prm in tsrc:
                zero[sym_] = 0
        if len(zero) != 2:
            raise AnalysisError('Rod1D._run: case %s is no longer selected by two vanishing coefficients' % name)
        mi = cls.find_method('modes_' + name)
        if mi is None:
            raise AnalysisError('Rod1D.modes_%s vanished' % name)
        # static part
        Fs = Formulas()
        Fs.env['x'] = x
        Fs.run([st for st in body if not (isinstance(st, ast.Assign) and src_of(st.targets[0]) == 'N')], branch=lambda s: False)
        S = Fs.env.get('tempnonhom')
        if S is None:
            raise AnalysisError('Rod1D._run: case %s no longer sets tempnonhom' % name)
        extra = {}
        if name == 'BC2':
            extra = {g2: g1 * b2 / b1}                  # enforced: F1 == F2
        bc0 = (a1 * S + b1 * sp.diff(S, x)).subs(x, 0) - g1
        bcL = (a2 * S + b2 * sp.diff(S, x)).subs(x, L) - g2
        oblige(runm, '%s: static part is linear and carries the boundary data (alpha_i S + beta_i S_x = gamma_i at both ends)' % name,
               iszero(sp.diff(S, x, 2)) and iszero(bc0.subs(zero).subs(extra)) and iszero(bcL.subs(zero).subs(extra)),
               'Rod1D._run (%s): the non-homogeneous static part does not satisfy alpha_i T + beta_i T_x = gamma_i at x = 0 and x = L '
               '(or is not linear): the solution does not meet its boundary data for t > 0 and does not tend to the steady solution' % name,
               at=[st for st in body if isinstance(st, ast.Assign) and src_of(st.targets[0]) == 'tempnonhom'][0])
        # modes: generic n >= 1 and, if the code has a branch for it, n = 0
        for which in ('n >= 1', 'n == 0'):
            Fm = Formulas()
            has0 = any(isinstance(s2, ast.If) and 'n' in src_of(s2.test) for s2 in ast.walk(mi.node))
            loop_starts_at_1 = name in ('BC1', 'BC2')          # k_0 = 0: the n = 0 mode is the constant / absent
            if which == 'n == 0':
                if not has0:
                    continue
                Fm.n = sp.Integer(0)
                pick = lambda s: {'n!=0': False, 'n==0': True}.get(s)
            else:
                pick = lambda s: {'n!=0': True, 'n==0': False}.get(s)
            Fm.run(mi.node.body, branch=pick)
            kn, An, Bn = Fm.arr.get('kn'), Fm.arr.get('An', sp.Integer(0)), Fm.arr.get('Bn', sp.Integer(0))
            if kn is None:
                raise AnalysisError('Rod1D.modes_%s no longer sets kn[n]' % name)
            Ft = Formulas()
            Ft.n = Fm.n
            Ft.arr.update({'An': An, 'Bn': Bn, 'kn': kn})
            Ft.env.update({'x': x, 't': t})
            term = Ft.ev(summand_ast)
            h0 = (a1 * term + b1 * sp.diff(term, x)).subs(x, 0).subs(zero)
            hL = (a2 * term + b2 * sp.diff(term, x)).subs(x, L).subs(zero)
            oblige(mi, '%s, %s: the mode satisfies the homogeneous boundary conditions at x = 0 and x = L' % (name, which),
                   iszero(h0) and iszero(hL),
                   'Rod1D.modes_%s (%s): with kn, An, Bn as assigned, a mode of the series does not satisfy alpha_i T + beta_i T_x = 0 at '
                   'both ends: the solution does not meet its boundary conditions for t > 0' % (name, which))
            # Fourier coefficient of IC - S in the basis of the case
            rem = (IC - S).subs(zero).subs(extra)
            basis_s, basis_c = sp.sin(kn * x), sp.cos(kn * x)
            if which == 'n == 0' and iszero(kn) and not any(isinstance(s2, ast.Assign) and 'self.An[' in src_of(s2.targets[0])
                                                             for s2 in ast.walk(mi.node)):
                continue                    # sine series: there is no n = 0 mode (sin 0 = 0), nothing to project on
            if which == 'n == 0' and iszero(kn):
                want_A = sp.integrate(rem, (x, 0, L)) / L
                got = An
                ok = iszero((got - want_A).subs(zero).subs(extra))
                lbl = 'A_0 is the mean of (initial profile - static part)'
            else:
                norm_s = sp.integrate(basis_s ** 2, (x, 0, L))
                norm_c = sp.integrate(basis_c ** 2, (x, 0, L))
                want_B = sp.integrate(rem * basis_s, (x, 0, L)) / norm_s if not iszero(Bn) or iszero(An) else sp.Integer(0)
                want_A = sp.integrate(rem * basis_c, (x, 0, L)) / norm_c if not iszero(An) else sp.Integer(0)
                ok = iszero((Bn - want_B).subs(zero).subs(extra)) and iszero((An - want_A).subs(zero).subs(extra))
                lbl = 'A_n, B_n are the Fourier coefficients of (initial profile - static part)'
            oblige(mi, '%s, %s: %s' % (name, which, lbl), ok,
                   'Rod1D.modes_%s (%s): the coefficients are not the Fourier coefficients of T_L + (T_R - T_L) x / L minus the static '
                   'part in the orthogonal basis of this boundary-condition case: the series does not tend to the declared initial '
                   'profile as t -> 0+' % (name, which))
    # general (Robin) case
    mg = cls.find_method('modes_BCgen')
    if mg is None:
        raise AnalysisError('Rod1D.modes_BCgen vanished')
    Fg = Formulas()
    Fg.env['x'] = x
    Fg.run([st for st in gen_body if not (isinstance(st, ast.Assign) and src_of(st.targets[0]) == 'N')], branch=lambda s: False)
    S = Fg.env.get('tempnonhom')
    if S is None:
        raise AnalysisError('Rod1D._run: the general case no longer sets tempnonhom')
    oblige(runm, 'general case: static part is linear and carries the boundary data at both ends',
           iszero(sp.diff(S, x, 2)) and iszero((a1 * S + b1 * sp.diff(S, x)).subs(x, 0) - g1) and
           iszero((a2 * S + b2 * sp.diff(S, x)).subs(x, L) - g2),
           'Rod1D._run (general boundary conditions): the static part T1 + (T2 - T1) x / L does not satisfy alpha_i T + beta_i T_x = gamma_i '
           'at x = 0 and x = L: the solution does not meet its boundary data and tends to the wrong steady state',
           at=[st for st in gen_body if isinstance(st, ast.Assign) and src_of(st.targets[0]) == 'tempnonhom'][0])
    # (e) the modes of the general case: A_n = -(beta_1 k_n / alpha_1) B_n, and the equation whose roots are taken
    Fm = Formulas()
    mu = sp.Symbol('mu', positive=True)
    Bsym = sp.Symbol('B', real=True)

    class _F(Formulas):
        def ev(self, e):
            if isinstance(e, ast.Subscript) and isinstance(e.value, ast.Call) and src_of(e.value.func).endswith('fsolve'):
                return mu
            return Formulas.ev(self, e)
    Fm = _F()
    first = [st for st in mg.node.body if isinstance(st, ast.If)]
    if not first:
        raise AnalysisError('Rod1D.modes_BCgen: the alpha_1 != 0 branch vanished')
    pre = [st for st in mg.node.body if not isinstance(st, ast.If)]
    Fm.run(pre, branch=lambda s_: None)
    stmts = first[0].body
    # keep the assignments up to the coefficients; Bn is left symbolic (its normalisation is not decided)
    keep = []
    for st in ast.walk(ast.Module(body=stmts, type_ignores=[])):
        pass
    def run_sel(stmts_):
        for st in stmts_:
            if isinstance(st, ast.For):
                run_sel(st.body)
            elif isinstance(st, ast.If):
                run_sel(st.body)
            elif isinstance(st, ast.Assign):
                tg = src_of(st.targets[0])
                if isinstance(st.value, ast.Lambda):
                    Fm.lams[tg] = st.value
                elif tg in ('mu', 'muinit'):
                    Fm.env[tg] = mu
                elif tg == 'self.kn[n]':
                    Fm.arr['kn'] = Fm.ev(st.value)
                elif tg == 'self.Bn[n]':
                    Fm.arr['Bn'] = Bsym
                elif tg == 'self.An[n]':
                    Fm.arr['An'] = Fm.ev(st.value)
    run_sel(stmts)
    if not {'kn', 'An', 'Bn'} <= set(Fm.arr) or 'func' not in Fm.lams:
        raise AnalysisError('Rod1D.modes_BCgen: kn / An / Bn / the root function are no longer assigned in the alpha_1 != 0 branch')
    Ft = Formulas()
    Ft.arr.update(Fm.arr)
    Ft.env.update({'x': x, 't': t})
    term = Ft.ev(summand_ast)
    h0 = (a1 * term + b1 * sp.diff(term, x)).subs(x, 0)
    oblige(mg, 'general case: with A_n = -(beta_1 k_n/alpha_1) B_n every mode satisfies the homogeneous condition at x = 0', iszero(h0),
           'Rod1D.modes_BCgen: with A_n as assigned from B_n a mode does not satisfy alpha_1 T + beta_1 T_x = 0 at x = 0')
    lam = Fm.lams['func']
    Fl = Formulas()
    Fl.env.update(Fm.env)
    Fl.env[lam.args.args[0].arg] = mu
    froot = Fl.ev(lam.body)
    hL = (a2 * term + b2 * sp.diff(term, x)).subs(x, L) / (Bsym * sp.exp(-kappa * Fm.arr['kn'] ** 2 * t) * sp.cos(mu))
    hL = sp.simplify(hL)
    # hL is an affine function of tan(mu); the root function must vanish exactly where it does
    T_ = sp.Symbol('T_')
    hl_t = sp.simplify(hL.rewrite(sp.tan)).subs(sp.tan(mu), T_)
    fr_t = froot.subs(sp.tan(mu), T_)
    sol_h = sp.solve(sp.numer(sp.together(hl_t)), T_)
    sol_f = sp.solve(sp.numer(sp.together(fr_t)), T_)
    ok = len(sol_h) == 1 and len(sol_f) == 1 and iszero(sol_h[0] - sol_f[0])
    oblige(mg, 'general case: the function whose roots give the wave numbers is the boundary condition at x = L', ok,
           'Rod1D.modes_BCgen: the transcendental equation solved for the wave numbers (tan mu = ...) is not the condition '
           'alpha_2 T + beta_2 T_x = 0 at x = L for the modes as built: the series does not meet the boundary condition at x = L')
    return res.obligations


def rectangle(model, res):
    """Rectangle: static part sum_n c_n sin(k_n x) sinh(k_n y)/sinh(k_n b) is harmonic, vanishes on three sides and its
    coefficients are the sine coefficients of the top temperature; every transient term satisfies T_t = kappa lap T and
    vanishes on all four sides."""
    cls = model.get_class('exactpack.solvers.heat.rectangle:Rectangle')
    runm = cls.find_method('_run')
    y = sp.Symbol('y', real=True)
    F = Formulas()
    F.env[runm.node.args.args[1].arg] = [x, y]
    F.env[runm.node.args.args[2].arg] = t
    a, b, Ttop, kappa = (F.sym(k) for k in ('a', 'b', 'Ttop', 'kappa'))
    a, b = sp.Symbol('a', positive=True), sp.Symbol('b', positive=True)

    class _F(Formulas):
        def sym(self, name):
            return sp.Symbol(name, positive=True) if name in ('a', 'b', 'kappa', 'Nsum') else sp.Symbol(name, real=True)
    F = _F()
    F.env[runm.node.args.args[1].arg] = [x, y]
    F.env[runm.node.args.args[2].arg] = t
    kappa, Ttop = F.sym('kappa'), F.sym('Ttop')
    body = [st for st in runm.node.body if not isinstance(st, ast.Return)]
    F.run(body, branch=lambda s_: True if 'NonHomogeneousOnly' in s_ else None)

    def oblige(label, ok, msg):
        res.obligations += 1
        res.evaluations += 1
        res.nontrivial += 1
        if ok:
            res.discharged += 1
            res.sample({'rule': 'C14.series', 'identity': 'Rectangle: ' + label}, limit=80)
        else:
            res.add(Finding(PROP, 'C14.series', runm.module.relpath, runm.qualname, 'Rectangle: ' + label, msg,
                            line=runm.node.lineno, construct='def _run'))
    st_terms = F.added.get('tempnonhom', [])
    tr_terms = F.added.get('temperature', [])
    if len(st_terms) != 1 or len(tr_terms) != 1:
        # not the shape this rule reads (e.g. an accumulator added twice: that is C14.accumulate's finding, not an analysis error)
        res.notes.append('Rectangle._run: %d static / %d transient summands; series clauses not applied' % (len(st_terms), len(tr_terms)))
        return
    S, Tm = st_terms[0], tr_terms[0]
    lap = lambda f: sp.diff(f, x, 2) + sp.diff(f, y, 2)
    oblige('static summand is harmonic and vanishes at x = 0, x = a, y = 0',
           iszero(lap(S)) and iszero(S.subs(x, 0)) and iszero(S.subs(x, a)) and iszero(S.subs(y, 0)),
           'Rectangle._run: a summand of the static part is not harmonic or does not vanish on the three cold sides')
    nn = [v for v in S.free_symbols if v.name == 'n']
    top = S.subs(y, b)
    if nn:
        proj = sp.integrate(Ttop * sp.sin(nn[0] * sp.pi * x / a), (x, 0, a)) * 2 / a
        oblige('static coefficients are the sine coefficients of the top temperature',
               iszero(top - proj * sp.sin(nn[0] * sp.pi * x / a)),
               'Rectangle._run: at y = b the static series is not the sine series of the constant top temperature Ttop: the boundary '
               'condition on the hot side is not met')
    oblige('transient summand satisfies T_t = kappa (T_xx + T_yy) and vanishes on all four sides',
           iszero(sp.diff(Tm, t) - kappa * lap(Tm)) and all(iszero(Tm.subs(*p)) for p in ((x, 0), (x, a), (y, 0), (y, b))),
           'Rectangle._run: a summand of the transient part does not satisfy the heat equation or does not vanish on the boundary')
    # the transient coefficients: projection of -(static part) (initial temperature 0) on sin(k_n x) sin(k_m y)
    ms = [v for v in Tm.free_symbols if v.name == 'm']
    ns = [v for v in Tm.free_symbols if v.name == 'n']
    if ms and ns and nn:
        kx = sp.Wild('kx')
        n_, m_ = ns[0], ms[0]
        phi = sp.sin((2 * n_ + 1) * sp.pi * x / a) * sp.sin(m_ * sp.pi * y / b)
        amp = sp.simplify(Tm.subs(t, 0) / phi)
        # static series restricted to the odd x-modes 2n+1 (even ones have zero coefficient)
        S_odd = S.subs(nn[0], 2 * n_ + 1)
        Ix = sp.simplify(sp.integrate(-S_odd * phi, (x, 0, a)))
        # y-integral of c sinh(K y) sin(Q y): by a supplied antiderivative, verified by differentiation (sympy's own
        # integrator does not terminate on it in bounded time)
        cW, KW, QW = sp.Wild('c', exclude=[y]), sp.Wild('K', exclude=[y]), sp.Wild('Q', exclude=[y])
        if iszero(Ix):
            proj = sp.Integer(0)
        else:
            mt = Ix.match(cW * sp.sinh(KW * y) * sp.sin(QW * y))
            if mt is None or any(w not in mt for w in (cW, KW, QW)):
                raise AnalysisError('Rectangle._run: the static summand is no longer sin(k x) sinh(k y) / sinh(k b)')
            c_, K_, Q_ = mt[cW], mt[KW], mt[QW]
            G = c_ * (K_ * sp.cosh(K_ * y) * sp.sin(Q_ * y) - Q_ * sp.sinh(K_ * y) * sp.cos(Q_ * y)) / (K_ ** 2 + Q_ ** 2)
            if not iszero(sp.diff(G, y) - Ix):
                raise AnalysisError('Rectangle._run: antiderivative check failed')
            proj = (G.subs(y, b) - G.subs(y, 0)) * 4 / (a * b)
        # only the x-mode 2n+1 of the static series projects on phi: the x-integral of the others vanishes
        oblige('transient coefficients are the double sine coefficients of minus the static part (zero initial temperature)',
               iszero(sp.simplify(amp - proj)),
               'Rectangle._run: the transient coefficients A_nm are not the projection of (0 - static part) on sin(k_n x) sin(k_m y): the '
               'series does not start from the zero initial temperature')


def hutchens1(model, res):
    """Hutchens1 (sphere): every summand satisfies T_t = alpha (T_rr + 2 T_r / r), vanishes at r = b, and the coefficients are
    the sine coefficients of -r (so that the series starts from T0)."""
    cls = model.get_class('exactpack.solvers.heat.hutchens1:Hutchens1')
    runm = cls.find_method('_run')
    r = sp.Symbol('r', positive=True)

    class _F(Formulas):
        def sym(self, name):
            return sp.Symbol(name, positive=True) if name in ('b', 'k', 'rho', 'cp', 'Nsum') else sp.Symbol(name, real=True)
    F = _F()
    F.env[runm.node.args.args[1].arg] = r
    F.env[runm.node.args.args[2].arg] = t
    body = []
    for st in runm.node.body:
        if isinstance(st, ast.Return):
            break
        if isinstance(st, ast.Assign) and isinstance(st.targets[0], ast.Name) and st.targets[0].id == 'temperature' \
                and isinstance(st.value, ast.Call) and src_of(st.value.func).endswith('zeros'):
            continue
        body.append(st)
    loops = [st for st in body if isinstance(st, ast.For)]
    if len(loops) != 1:
        raise AnalysisError('Hutchens1._run: the series loop changed shape')
    F.run(body[:body.index(loops[0]) + 1], branch=lambda s_: None)
    terms = F.added.get('temperature', [])
    if len(terms) != 1:
        raise AnalysisError('Hutchens1._run: expected one summand, found %d' % len(terms))
    term = terms[0]
    alpha = F.env.get('alpha')
    b = F.sym('b')
    if alpha is None:
        raise AnalysisError('Hutchens1._run: the diffusivity alpha vanished')

    def oblige(label, ok, msg):
        res.obligations += 1
        res.evaluations += 1
        res.nontrivial += 1
        if ok:
            res.discharged += 1
            res.sample({'rule': 'C14.series', 'identity': 'Hutchens1: ' + label}, limit=80)
        else:
            res.add(Finding(PROP, 'C14.series', runm.module.relpath, runm.qualname, 'Hutchens1: ' + label, msg,
                            line=loops[0].lineno, construct=src_of(loops[0])[:160]))
    alpha_doc = F.sym('k') / (F.sym('rho') * F.sym('cp'))
    oblige('summand satisfies T_t = alpha (T_rr + 2 T_r / r) with alpha = k / (rho cp), and vanishes at r = b',
           iszero(sp.diff(term, t) - alpha_doc * (sp.diff(term, r, 2) + 2 * sp.diff(term, r) / r)) and iszero(term.subs(r, b)),
           'Hutchens1._run: a summand of the series does not satisfy the spherical heat equation with alpha = k/(rho cp), or does '
           'not vanish at the surface r = b (the surface temperature is then not Tb for t > 0)')
    nn = [v for v in term.free_symbols if v.name == 'n']
    if nn:
        n_ = nn[0]
        # r * sum_n term(t = 0) must be the sine series of -r on (0, b):  sum = -1 inside the sphere, i.e. T = T0
        amp = sp.simplify(term.subs(t, 0) * r / sp.sin(n_ * sp.pi * r / b))
        proj = sp.integrate(-r * sp.sin(n_ * sp.pi * r / b), (r, 0, b)) * 2 / b
        oblige('coefficients are the sine coefficients of -r: the series is -1 at t = 0 (T = T0 inside the sphere)',
               iszero(amp - proj),
               'Hutchens1._run: r times the series at t = 0 is not the sine series of -r on (0, b): the solution does not start from the '
               'uniform initial temperature T0')


def rod_mirror(model, res, prop='C07', rule='C07.rod-mirror'):
    """Rod1D: case BC4 (flux at x = 0, temperature at x = L) is case BC3 (temperature at 0, flux at L) seen in the mirror
    x -> L - x: with the data exchanged  (alpha_1, gamma_1) <-> (alpha_2, gamma_2), (beta_2, gamma_2) <-> (-beta_1, gamma_1),
    T_L <-> T_R, the static part and every mode of one are the static part and the mode of the other at the mirrored
    point (cos((2n+1) pi (L - x)/(2L)) = (-1)^n sin((2n+1) pi x/(2L)) by integer assumptions)."""
    cls = model.get_class(ROD)
    runm = cls.find_method('_run')
    loops = [st for st in runm.node.body if isinstance(st, ast.For)]
    chain = [st for st in runm.node.body if isinstance(st, ast.If)]
    if len(loops) != 1 or len(chain) != 1:
        raise AnalysisError('Rod1D._run changed shape')
    summand_ast = loops[0].body[0].value
    cases = []
    node = chain[0]
    while True:
        cases.append((node.test, node.body))
        if len(node.orelse) == 1 and isinstance(node.orelse[0], ast.If):
            node = node.orelse[0]
            continue
        break
    if len(cases) != 4:
        raise AnalysisError('Rod1D._run: expected four special cases')
    f0 = Formulas()
    a1, b1, g1, a2, b2, g2, L, TL, TR = (f0.sym(k) for k in ('alpha1', 'beta1', 'gamma1', 'alpha2', 'beta2', 'gamma2', 'L', 'TL', 'TR'))

    def series(idx, name):
        Fs = Formulas()
        Fs.env['x'] = x
        Fs.run([st for st in cases[idx][1] if not (isinstance(st, ast.Assign) and src_of(st.targets[0]) == 'N')], branch=lambda s_: False)
        S = Fs.env['tempnonhom']
        mi = cls.find_method('modes_' + name)
        Fm = Formulas()
        Fm.run(mi.node.body, branch=lambda s_: {'n!=0': True, 'n==0': False}.get(s_))
        Ft = Formulas()
        Ft.arr.update({'An': Fm.arr.get('An', sp.Integer(0)), 'Bn': Fm.arr.get('Bn', sp.Integer(0)), 'kn': Fm.arr['kn']})
        Ft.env.update({'x': x, 't': t})
        # the codes' loops start at n = 0; Formulas' n is a positive integer: shift so that all n >= 0 are covered
        term = Ft.ev(summand_ast).subs(n, n - 1)
        return S, term
    S3, m3 = series(2, 'BC3')
    S4, m4 = series(3, 'BC4')
    d = sp.Symbol('d_', real=True)
    # mirror of BC4 data into BC3 data (simultaneous substitution)
    mirror = {a1: a2, g1: g2, b2: -b1, g2: g1, TL: TR, TR: TL}
    S3m = S3.subs(mirror, simultaneous=True)
    m3m = m3.subs(mirror, simultaneous=True)
    ok_s = iszero(S4.subs(x, L - x) - S3m)
    ok_m = iszero(sp.expand_trig(m4.subs(x, L - x)) - sp.expand_trig(m3m))
    for label, ok in (('the static part', ok_s), ('every mode', ok_m)):
        res.obligations += 1
        res.evaluations += 1
        res.nontrivial += 1
        if ok:
            res.discharged += 1
            res.sample({'rule': rule, 'identity': 'BC4 at L - x == BC3 with mirrored data at x: %s' % label}, limit=20)
        else:
            res.add(Finding(prop, rule, runm.module.relpath, runm.qualname, 'BC3 / BC4 mirror: %s' % label,
                            'Rod1D: %s of case BC4 evaluated at L - x is not %s of case BC3 with the boundary data and the '
                            'initial end temperatures exchanged: the two routes to the same physical problem disagree' % (label, label),
                            line=chain[0].lineno, construct='BC3 / BC4 branches'))


def hutchens2(model, res):
    """Hutchens2 (steady cylinder with heat generation): the polynomial part satisfies  T_zz + g0/k = 0  and the end conditions
    T(z = 0) = T0, T(z = L) = TL; every summand added to the series is harmonic,  T_rr + T_r / r + T_zz = 0  (modified Bessel
    function I0; sympy's differentiation rules), and vanishes at z = 0 and z = L."""
    cls = model.get_class('exactpack.solvers.heat.hutchens2:Hutchens2')
    runm = cls.find_method('_run')
    r, z = sp.Symbol('r', positive=True), sp.Symbol('z', real=True)

    class _F(Formulas):
        def sym(self, name):
            return sp.Symbol(name, positive=True) if name in ('b', 'k', 'L', 'Nsum') else sp.Symbol(name, real=True)

        def ev(self, e):
            if isinstance(e, ast.Call) and src_of(e.func) in ('i0', 'scipy.special.i0', 'special.i0') and len(e.args) == 1:
                return sp.besseli(0, self.ev(e.args[0]))
            return Formulas.ev(self, e)
    F = _F()
    F.env[runm.node.args.args[1].arg] = [r, z]
    body = [st for st in runm.node.body if not isinstance(st, ast.Return)]
    pre = [st for st in body if not isinstance(st, ast.For)]
    loops = [st for st in body if isinstance(st, ast.For)]
    if len(loops) != 1:
        raise AnalysisError('Hutchens2._run: the series loop changed shape')
    F.run([st for st in pre if not (isinstance(st, ast.Assign) and src_of(st.targets[0]) == 'sum')], branch=lambda s_: None)
    base = F.env.get('temperature')
    if base is None:
        raise AnalysisError('Hutchens2._run: the polynomial part vanished')
    F.env['sum'] = sp.Integer(0)
    # summands: every `sum += term` of the loop body
    F.added = {}
    for st in loops[0].body:
        if isinstance(st, ast.AugAssign) and isinstance(st.target, ast.Name) and st.target.id == 'temperature':
            continue
        F.run([st], branch=lambda s_: None)
    terms = F.added.get('sum', [])
    if len(terms) < 2:
        res.notes.append('Hutchens2._run: %d series summands; series clauses not applied' % len(terms))
        return
    g0, kk, L, T0, TL = (F.sym(a) for a in ('g0', 'k', 'L', 'T0', 'TL'))

    def oblige(label, ok, msg, at=None):
        res.obligations += 1
        res.evaluations += 1
        res.nontrivial += 1
        if ok:
            res.discharged += 1
            res.sample({'rule': 'C14.series', 'identity': 'Hutchens2: ' + label}, limit=80)
        else:
            res.add(Finding(PROP, 'C14.series', runm.module.relpath, runm.qualname, 'Hutchens2: ' + label, msg,
                            line=getattr(at, 'lineno', 0) or runm.node.lineno, construct=src_of(at)[:160] if at is not None else 'def _run'))
    oblige('polynomial part: T_zz + g0/k == 0, T(z=0) == T0, T(z=L) == TL',
           iszero(sp.diff(base, z, 2) + g0 / kk) and iszero(base.subs(z, 0) - T0) and iszero(base.subs(z, L) - TL),
           'Hutchens2._run: the polynomial part does not satisfy T_zz + g0/k = 0 with T = T0 at z = 0 and T = TL at z = L')
    stmts = [st for st in loops[0].body if isinstance(st, ast.AugAssign) and isinstance(st.target, ast.Name) and st.target.id == 'sum']
    for i, term in enumerate(terms):
        lap = sp.diff(term, r, 2) + sp.diff(term, r) / r + sp.diff(term, z, 2)
        ok = sp.simplify(sp.expand_func(lap)) == 0 and iszero(term.subs(z, 0)) and iszero(sp.simplify(term.subs(z, L)))
        oblige('series summand %d is harmonic and vanishes at z = 0 and z = L' % (i + 1), ok,
               'Hutchens2._run: the summand `%s` of the series is not a solution of T_rr + T_r/r + T_zz = 0 that vanishes at both ends '
               '(every correction to the polynomial part must be one: the heat generation is already carried by the polynomial part)'
               % (src_of(stmts[i].value)[:90] if i < len(stmts) else term), at=stmts[i] if i < len(stmts) else None)
