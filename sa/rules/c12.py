"""C12 -- radiative shocks are steady travelling waves (translation clause; DESIGN 3, C12)."""
import ast

from ..model import AnalysisError, ClassInfo, src_of
from ..report import Result, Finding
from ..vg import Builder, walk
from ..nf import NFEval, NAN, Mono, Sum, PW, Struct
from .c05 import phi_leaves, POS_RE
from .c03 import expr_nf

LEVEL = 'other'
PROP = 'C12'
WRAPPERS = ['ED_Solver', 'nED_Solver', 'Sn_Solver', 'ie_Solver']
MODULE = 'exactpack.solvers.radshocks.nED_radshocks'
SPEED = 'M0 * (gamma * (gamma - 1.) * Cv * Tref) ** 0.5'


def stale_class_attrs(model, res):
    """R12.1 (all solver classes): a class-body attribute computed from names that
    are constructor parameters, read through self by some method, and never
    assigned on the instance: it stays frozen at the class-definition defaults."""
    n = 0
    for ci in model.solver_classes():
        keys = set(model.parameters_keys(ci) or [])
        if not keys:
            continue
        for c in ci.mro:
            if not isinstance(c, ClassInfo) or c.name == 'ExactSolver':
                continue
            for name, vals in c.attrs.items():
                if name in keys or name == 'parameters':
                    continue
                v = vals[-1]
                used = {x.id for x in ast.walk(v) if isinstance(x, ast.Name)}
                deps = used & keys
                if not deps or isinstance(v, (ast.Dict,)):
                    continue
                n += 1
                res.obligations += 1
                res.evaluations += 1
                res.nontrivial += 1
                # read through self anywhere in the class hierarchy?
                readers, writers = [], []
                for c2 in ci.mro:
                    if not isinstance(c2, ClassInfo):
                        continue
                    for m in c2.methods.values():
                        selfn = m.node.args.args[0].arg if m.node.args.args else None
                        for a in ast.walk(m.node):
                            if isinstance(a, ast.Attribute) and a.attr == name and isinstance(a.value, ast.Name) \
                                    and a.value.id == selfn:
                                (writers if isinstance(a.ctx, ast.Store) else readers).append((m, a))
                if readers and not writers:
                    m, a = readers[0]
                    res.add(Finding(PROP, 'C12.stale-class-attr', c.module.relpath, '%s.%s' % (c.name, name),
                                    '%s.%s derived from %s' % (ci.name, name, ','.join(sorted(deps))),
                                    "%s: class attribute `%s = %s` is evaluated once, in the class body, from the DEFAULT "
                                    "values of the parameters %s; %s reads self.%s and no constructor reassigns it, so a "
                                    "non-default %s does not reach it" % (ci.name, name, src_of(v)[:80], sorted(deps),
                                                                         m.qualname, name, '/'.join(sorted(deps))),
                                    line=v.lineno, construct='%s = %s' % (name, src_of(v)[:100])))
                else:
                    res.discharged += 1
    return n


def travelling(model, res):
    """R12.2: every field is interp(x, A + t*c, F) with A, F independent of t and
    c = M0*sqrt(gamma*(gamma-1)*Cv*Tref) of the INSTANCE parameters."""
    mod = model.modules.get(MODULE)
    if mod is None:
        raise AnalysisError('module %s vanished' % MODULE)
    for cn in WRAPPERS:
        if cn not in mod.classes:
            raise AnalysisError('radiative-shock wrapper %s vanished' % cn)
        ci = mod.classes[cn]
        b = Builder(model)
        objn, ret = b.run_solver(ci)
        keys = model.parameters_keys(ci) or []
        ev = NFEval(keys)
        want = expr_nf(ev, SPEED, {})
        tn = [n for n in b.trace if n.kind == 'input' and n.val == 't'][0]
        xn = [n for n in b.trace if n.kind == 'input' and n.val == 'r'][0]
        runm = ci.find_method('_run')
        nfields = 0
        for sol in phi_leaves(ret):
            if not (sol.kind == 'call' and sol.val == 'exactpack.base.ExactSolution'):
                continue
            data, names = sol.args[0], (sol.args[1] if len(sol.args) > 1 else sol.kw.get('names'))
            for a, d in zip(names.args, data.args):
                if POS_RE.match(str(a.val)):
                    continue
                nfields += 1
                res.obligations += 1
                res.evaluations += 1
                res.nontrivial += 1
                ok = check_field(ev, ci, runm, a.val, d, tn, xn, want, res)
                if ok:
                    res.discharged += 1
        if nfields == 0:
            raise AnalysisError('no fields found for %s' % cn)
        res.analysed.append(ci.fullname + ' (%d fields)' % nfields)


def depends_on(node, leaf):
    return any(n is leaf for n in walk(node))


def check_field(ev, ci, runm, name, d, tn, xn, want, res):
    def bad(detail, msg, node=None):
        # one finding per class and cause when the cause is the shared shifted abscissa
        tag = "field '%s': " % name if node is None or node is d else ''
        res.add(Finding(PROP, 'C12.travelling', runm.module.relpath, runm.qualname,
                        "%s: %s%s" % (ci.name, tag, detail),
                        "%s: field '%s' is not the steady profile displaced by M0*c_s*t: %s" % (ci.name, name, msg),
                        line=getattr((node or d).origin[1], 'lineno', 0), construct=(node or d).src[:120]))
        return False
    if not (d.kind == 'call' and d.val == 'numpy.interp' and len(d.args) >= 3):
        return bad('not an interpolation of the stored profile', 'it is not interp(x, profile_x + shift, profile_values)')
    q, X, F = d.args[:3]
    if q is not xn:
        return bad('query points are not the requested points', 'interp() is not evaluated at the requested points')
    if depends_on(F, tn):
        return bad('profile values depend on t', 'the interpolated values themselves depend on time', F)
    nx = ev.nf(X)
    if nx is NAN or isinstance(nx, (PW, Struct)):
        return bad('abscissae not of the form A + c*t', 'the shifted abscissae do not normalise to A + c*t', X)
    terms = ev.flat_terms(nx)
    tkey = 'input:t'
    with_t = [t for t in terms if any(tkey in k for k in t.f)]
    if len(with_t) != 1 or with_t[0].f.get(tkey) != ev.one or \
            any(tkey in k and k != tkey for k in with_t[0].f):
        return bad('abscissae not linear in t', 'the shifted abscissae are not of the form A + c*t with A, c independent of t', X)
    c = Mono(with_t[0].coef, {k: e for k, e in with_t[0].f.items() if k != tkey})
    if not ev.equal(c, want):
        return bad('wave speed is not M0*sqrt(gamma*(gamma-1)*Cv*Tref) of the instance',
                   'the profile moves with speed %s, not with M0*sqrt(gamma*(gamma-1)*Cv*Tref) computed from the '
                   "instance's gamma, Cv and Tref (%s)" % (c.key()[:160], want.key()[:120]), X)
    return True


OPACITY = {'siga': {'sigA', 'expDensity_abs', 'expTemp_abs'},
           'sigs': {'sigS', 'expDensity_scat', 'expTemp_scat'}}
MIN_OPACITY_SITES = 40      # confirmed on the pinned tree: 44 definitions in radshocks/fnctn_*.py


def sibling_opacities(model, res):
    """The absorption / scattering cross sections are re-derived in ~22 helper functions each
    (siga = sigA * rho**expDensity_abs * T**expTemp_abs, sigs likewise with the *_scat parameters).
    The flux balances hold identically only because every copy is the same expression: each
    definition may use only the parameters of its own process, must use all three of them, and all
    copies must have the same shape (one coefficient times a power of density times a power of
    temperature)."""
    sites = 0
    shapes = {}
    for mname, m in model.modules.items():
        if not mname.startswith('exactpack.solvers.radshocks'):
            continue
        for fi in list(m.functions.values()) + [f for c in m.classes.values() for f in c.methods.values()]:
            for st in ast.walk(fi.node):
                if isinstance(st, ast.Assign) and len(st.targets) == 1 and isinstance(st.targets[0], ast.Name) \
                        and st.targets[0].id in OPACITY:
                    tgt = st.targets[0].id
                    attrs = [a.attr for a in ast.walk(st.value) if isinstance(a, ast.Attribute)
                             and isinstance(a.value, ast.Name) and a.value.id in ('self', 'inst', 'incoming')]
                    if not attrs:
                        continue
                    sites += 1
                    res.obligations += 1
                    res.evaluations += 1
                    res.nontrivial += 1
                    want = OPACITY[tgt]
                    # shape: coefficient * X**exp * Y**exp with local names abstracted positionally
                    names = []
                    def shape(e):
                        if isinstance(e, ast.BinOp):
                            return '(%s %s %s)' % (shape(e.left), type(e.op).__name__, shape(e.right))
                        if isinstance(e, ast.Attribute):
                            return 'P:' + e.attr
                        if isinstance(e, ast.Name):
                            if e.id not in names:
                                names.append(e.id)
                            return 'v%d' % names.index(e.id)
                        if isinstance(e, ast.Constant):
                            return repr(e.value)
                        return type(e).__name__
                    sh = shape(st.value)
                    shapes.setdefault(tgt, {}).setdefault(sh, []).append((fi, st))
                    if set(attrs) != want:
                        wrong = sorted(set(attrs) - want)
                        missing = sorted(want - set(attrs))
                        res.add(Finding(PROP, 'C12.sibling-opacity', fi.module.relpath, fi.qualname,
                                        '%s uses %s' % (tgt, sorted(set(attrs))),
                                        "%s: the %s cross section `%s = %s` uses %s%s; every other copy uses exactly %s. "
                                        "The helper functions must agree on the cross sections for the total energy and "
                                        "momentum fluxes to be constant along the profile"
                                        % (fi.qualname, 'absorption' if tgt == 'siga' else 'scattering', tgt, ast.unparse(st.value)[:80],
                                           'the foreign parameter(s) %s' % wrong if wrong else 'not all of its parameters',
                                           ' and lacks %s' % missing if missing else '', sorted(want)),
                                        line=st.lineno, construct=ast.unparse(st)[:100]))
                    else:
                        res.discharged += 1
    if sites < MIN_OPACITY_SITES:
        raise AnalysisError('only %d cross-section definitions found in radshocks (confirmed >= %d)' % (sites, MIN_OPACITY_SITES))
    # shape agreement (majority is unanimous today)
    for tgt, d in shapes.items():
        if len(d) > 1:
            major = max(d, key=lambda k: len(d[k]))
            for sh, lst in d.items():
                if sh == major:
                    continue
                for fi, st in lst:
                    res.add(Finding(PROP, 'C12.sibling-opacity', fi.module.relpath, fi.qualname,
                                    '%s has a deviant form' % tgt,
                                    "%s: `%s` differs in form from the %d other definitions of %s (%s)"
                                    % (fi.qualname, ast.unparse(st)[:80], len(d[major]), tgt, major[:80]),
                                    line=st.lineno, construct=ast.unparse(st)[:100]))
    res.extra['opacity_definition_sites'] = sites


def stale_flow(model, res):
    """R12.1, flow-sensitive form: no returned field may be computed from the VALUE of a derived class-body
    attribute (one evaluated once from the parameters' class defaults).  A method that assigns
    self.<attr> from the constructed problem before every read is fine; a read that happens before
    that assignment (or on a path without it) picks up the frozen default."""
    from ..vg import walk as gwalk
    from .c06 import solution_fields
    n = 0
    for ci in model.solver_classes():
        keys = set(model.parameters_keys(ci) or [])
        if not keys or ci.find_method('_run') is None:
            continue
        if not ci.module.name.startswith('exactpack.solvers.radshocks'):
            continue        # scope of the property; elsewhere a derived class attribute is e.g. a Newton starting guess
        derived = {}
        for c in ci.mro:
            if not isinstance(c, ClassInfo) or c.name == 'ExactSolver':
                continue
            for name, vals in c.attrs.items():
                if name in keys or name == 'parameters':
                    continue
                v = vals[-1]
                used = {x.id for x in ast.walk(v) if isinstance(x, ast.Name)}
                if used & keys and not isinstance(v, ast.Dict):
                    for sub in ast.walk(v):
                        derived[id(sub)] = (c, name, v, sorted(used & keys))
        if not derived:
            continue
        n += 1
        b = Builder(model)
        objn, ret = b.run_solver(ci)
        runm = ci.find_method('_run')
        seen = set()
        for fname, d, sol in solution_fields(ret):
            res.obligations += 1
            res.evaluations += 1
            res.nontrivial += 1
            hit = None
            for x in gwalk(d):
                if x.origin and x.origin[1] is not None and id(x.origin[1]) in derived:
                    hit = derived[id(x.origin[1])]
                    break
            if hit is None:
                res.discharged += 1
                continue
            c, name, v, deps = hit
            if (ci.fullname, name) in seen:
                continue
            seen.add((ci.fullname, name))
            at = None
            for key, val, rop, a in b.shared_reads:
                if key[0] == 'classattr' and key[2] == name:
                    at = a
            res.add(Finding(PROP, 'C12.stale-class-attr', c.module.relpath, '%s.%s' % (c.name, name),
                            '%s.%s derived from %s reaches a returned field' % (ci.name, name, ','.join(deps)),
                            "%s: the returned field '%s' is computed from the class attribute `%s = %s`, which is "
                            "evaluated once, in the class body, from the DEFAULT values of %s: some read of self.%s "
                            "happens before (or without) the assignment that installs the value of the constructed "
                            "problem, so non-default %s do not reach the field" % (ci.name, fname, name, src_of(v)[:80], deps,
                                                                                  name, '/'.join(deps)),
                            line=getattr(at, 'lineno', 0) or v.lineno, construct='%s = %s' % (name, src_of(v)[:100])))
    res.extra['classes_with_derived_class_attributes'] = n


RADSHOCK_CTORS = {
    # constructor -> (argument dimensions, literal constants with the units their comments state,
    #                 derived attributes with the dimension their doc comment states)
    'exactpack.solvers.radshocks.radshock:RadShock.__init__': (
        {'M0': {}, 'rho0': {'M': 1, 'L': -3}, 'Tref': {'E': 1}, 'Cv': {'L': 2, 'T': -2, 'E': -1}, 'gamma': {}},
        {'self.c': {'L': 1, 'T': -1}, 'self.ar': {'M': 1, 'L': -1, 'T': -2, 'E': -4}},
        {'sound': {'L': 1, 'T': -1}, 'C0': {}, 'P0': {}}),
    'exactpack.solvers.radshocks.radshock:IEShock.__init__': (
        {'M0': {}, 'rho0': {'M': 1, 'L': -3}, 'Tref': {'E': 1}, 'Cv': {'L': 2, 'T': -2, 'E': -1}, 'gamma': {}, 'Z': {}},
        {},
        {'sound': {'L': 1, 'T': -1}, 'Mc': {}}),
}


def scaling_groups(model, res):
    """R12.4: the reference speed and the dimensionless groups every radiative-shock solver is
    parameterised by (sound = sqrt(gamma(gamma-1) Cv Tref), C0 = c/sound "ratio of the speed of
    light to the sound speed", P0 = a_r Tref^4/(rho0 sound^2) "radiation pressure over an ideal
    kinetic energy") have the dimension their doc comments state, with c and a_r carrying the
    units written next to the literals (cm/s, erg/cm^3/eV^4).  The profiles are computed for
    (M0, C0, P0) and re-dimensionalised with rho0, sound, Tref: a group that is not dimensionless
    makes the returned physical profile conserve fluxes of a different problem."""
    from ..dimcheck import analyse_function, findings_from
    from ..dim import Lin
    units = ('M', 'L', 'T', 'E')
    for fname, (argd, consts, outs) in RADSHOCK_CTORS.items():
        fi = model.get_func(fname)
        cls = fi.cls
        names = [a.arg for a in fi.node.args.args]
        spec = {nm: argd.get(nm) for nm in names if nm != 'self'}
        missing = set(argd) - set(names)
        if missing:
            raise AnalysisError('%s no longer takes %s' % (fname, sorted(missing)))
        b, S, ev, ret = analyse_function(model, fname, spec, units=units, seeds={fname: consts} if consts else None,
                                         self_cls=cls, self_params=[])
        if consts and getattr(ev, 'seeded', 0) < len(consts):
            raise AnalysisError('physical constants %s not found in %s' % (sorted(consts), fname))
        objs = [o for o in b.objs.values() if o.cls is cls]
        if not objs:
            raise AnalysisError('no instance state for %s' % fname)
        heap = b.heap[objs[0].oid]
        for attr, want in outs.items():
            if attr not in heap:
                raise AnalysisError('%s no longer sets self.%s' % (fname, attr))
            d = ev.dim(heap[attr])
            if not isinstance(d, Lin):
                raise AnalysisError('dimension of self.%s in %s did not resolve' % (attr, fname))
            S.unify(d, S.from_spec(want), heap[attr], "'%s.%s' vs its documented dimension" % (cls.name, attr), priority=0)
        before = len(res.findings)
        findings_from(S, ev, PROP, 'C12.scaling-group', res)
        res.obligations += S.constraints
        res.evaluations += S.constraints
        res.nontrivial += S.nontrivial + S.checked
        res.discharged += S.constraints - len(S.inconsistencies)
        res.analysed.append(fname)
        res.sample({'rule': 'C12.scaling-group', 'constructor': fname,
                    'groups': {a: S.show(ev.dim(heap[a])) for a in outs}})


def run(model, tier):
    res = Result(PROP)
    res.explanation = (
        'R12.1 (all 120 solver classes): no class-body attribute that is computed from constructor parameters is '
        'read through self unless a method assigns it on the instance (otherwise it is frozen at the default '
        'parameter values). R12.2 (four radiative-shock wrappers): on the value graph of _run every non-position '
        'field is interp(x, A + c*t, F) with the requested points as query, F and A independent of t, and the '
        "normal form of c equal to M0*sqrt(gamma*(gamma-1)*Cv*Tref) over the INSTANCE's parameter atoms: the "
        'returned solution is the stored steady profile displaced by Mach number x upstream sound speed x t and '
        'nothing else changes with time. R12.5: along the whole profile of the equilibrium-diffusion solver (every stored quantity a '
        'closed form of the temperature) and of the non-equilibrium-diffusion solver (closed forms of radiation pressure and Mach '
        'number), mass, total momentum and total energy flux are constant as identities in the integration variables, all '
        'parameters and opacity exponents (sa/rules/c12_ed.py). The downstream equilibrium, the integrations and the FLD / Sn '
        'solvers are numerics inside utils.py and are not decided. R12.3: the 44 '
        'copies of the absorption / scattering cross-section formula in the profile helper functions all use exactly the '
        'parameters of their own process and have one common form (sibling agreement); and R12.4: the reference sound speed and the dimensionless groups C0, P0 (Mc) '
        'computed by the RadShock / IEShock constructors have the dimensions their doc comments state (dimension inference with c, a_r '
        'carrying the units written next to the literals).')
    res.rule_text = 'instance = one derived class attribute / one returned field'
    res.trusted_base = ['CPython ast', 'NF engine', 'numpy.interp semantics']
    n = stale_class_attrs(model, res)
    res.extra['derived_class_attributes'] = n
    travelling(model, res)
    sibling_opacities(model, res)
    scaling_groups(model, res)
    stale_flow(model, res)
    # R12.5: flux constancy along the whole profile, as identities in the integration variables
    from . import c12_ed
    from ..par import run_parallel
    run_parallel([(lambda part: c12_ed.ed_fluxes(model, part), ()), (lambda part: c12_ed.ned_fluxes(model, part, ('nED',)), ()),
                  (lambda part: c12_ed.ned_fluxes(model, part, ('LM_nED',)), ()),
                  (lambda part: c12_ed.ned_fluxes(model, part, ('FLD',), modname='exactpack.solvers.radshocks.fnctn_FLD', var='E',
                                                  eq=('Er0', 'Er1'), tag='fnctn_FLD'), ())], res)
    # R12.6: the inner problem object is set up with the user's parameters
    from . import c12_delegation
    c12_delegation.wrappers(model, res)
    return res
