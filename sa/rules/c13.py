"""C13 -- burn times are causal first-arrival times: structural clauses (DESIGN 3, C13)."""
import ast

from ..model import AnalysisError, src_of
from ..report import Result, Finding
from ..vg import Builder, walk
from ..nf import NFEval, NAN
from ..dim import Lin
from ..dimcheck import analyse_class, findings_from, load_spec
from .c05 import phi_leaves

LEVEL = 'other'
PROP = 'C13'
CLASSES = ['exactpack.solvers.kenamond.kenamond1:Kenamond1', 'exactpack.solvers.kenamond.kenamond2:Kenamond2',
           'exactpack.solvers.kenamond.kenamond3:Kenamond3', 'exactpack.solvers.dsd.cylexpansion:CylindricalExpansion']


def dims(model, res):
    out = {'burntime': {'T': 1}, 'position_x': {'L': 1}, 'position_y': {'L': 1}, 'position_z': {'L': 1}}
    for cname in CLASSES:
        cls = model.get_class(cname)
        # documented dimensions of the parameters (detonation time / velocity / radius / position), shared with C08
        scope = load_spec('c08_scope.json')['classes'].get(cname, {})
        b, S, ev = analyse_class(model, cls, {'r': {'L': 1}, 't': {'T': 1}}, out, param_dims_spec=scope.get('param_dims'))
        findings_from(S, ev, PROP, 'C13.dim', res)
        anchored = [nm for nm, d, _ in ev.outputs if nm == 'burntime' and isinstance(d, Lin)]
        if not anchored:
            raise AnalysisError('burntime of %s did not resolve to a dimension' % cname)
        res.obligations += S.constraints
        res.discharged += S.constraints - len(S.inconsistencies)
        res.evaluations += S.constraints
        res.nontrivial += S.nontrivial + S.checked
        res.analysed.append(cname)
        res.extra.setdefault('parameters', {})[cname] = {k: S.show(v) for k, v in ev.param_vars.items()}


def rooted_at(n, root, depth=0):
    if n is root:
        return True
    if depth > 8:
        return False
    if n.kind in ('store', 'mu', 'sub', 'phi', 'elem'):
        cand = n.args[1:] if n.kind == 'phi' else n.args[:1]
        return any(a is not None and rooted_at(a, root, depth + 1) for a in cand)
    if n.kind == 'call' and n.val in ('numpy.array', 'numpy.asarray') and n.args:
        return rooted_at(n.args[0], root, depth + 1)
    return False


def pairing(model, res):
    """Kenamond2: every straight-ray arrival time is  t_d[i] + |x - dets[i]| / D (+ transit offsets):
    the flat sum that contains a distance to detonator j must contain the detonation time t_d[j]
    (and no other detonation time)."""
    cls = model.get_class(CLASSES[1])
    b = Builder(model)
    objn, ret = b.run_solver(cls)
    h = b.heap[objn.val.oid]
    dets = h.get('dets')
    td = h.get('t_d')
    if dets is None or td is None:
        raise AnalysisError('Kenamond2: attributes dets / t_d vanished')
    runm = cls.find_method('_run')
    td_leaves = phi_leaves(td)
    det_leaves = phi_leaves(dets)

    def det_index(n):
        """indices j of dets[j] the value is computed from"""
        js = set()
        for m in walk(n):
            if m.kind == 'sub' and m.args[1].kind == 'const' and isinstance(m.args[1].val, int) \
                    and (m.args[0] is dets or rooted_at(m.args[0], dets) or any(m.args[0] is l for l in det_leaves)):
                js.add(m.args[1].val)
        return js

    def td_index(n):
        if n.kind == 'sub' and n.args[1].kind == 'const' and isinstance(n.args[1].val, int) \
                and any(n.args[0] is l for l in td_leaves):
            return n.args[1].val
        return None

    def addends(x, out):
        if x.kind == 'binop' and x.val == '+':
            addends(x.args[0], out)
            addends(x.args[1], out)
        else:
            out.append(x)
        return out
    # maximal '+' chains of _run: a '+' node that is not itself an operand of another '+'
    inner = set()
    plus = [n for n in b.trace if n.kind == 'binop' and n.val == '+' and n.origin and n.origin[0] is runm]
    for n in plus:
        for a in n.args:
            if a.kind == 'binop' and a.val == '+':
                inner.add(a.nid)
    terms = 0
    for n in plus:
        if n.nid in inner:
            continue
        parts = addends(n, [])
        js = set()
        for p in parts:
            if td_index(p) is None:
                js |= det_index(p)
        if not js:
            continue
        tis = {td_index(p) for p in parts if td_index(p) is not None}
        terms += 1
        res.obligations += 1
        res.evaluations += 1
        res.nontrivial += 1
        if tis == js and len(js) == 1:
            res.discharged += 1
            res.sample({'rule': 'C13.det-pairing', 'term': n.src[:80], 'detonator': sorted(js), 'time_index': sorted(tis)})
        else:
            what = ('is not started from any detonation time' if not tis else
                    'is started from the detonation time(s) t_d%s' % sorted(tis))
            res.add(Finding(PROP, 'C13.det-pairing', runm.module.relpath, runm.qualname,
                            'Kenamond2: arrival from detonator %s %s' % (sorted(js), what.split(' t_d')[0] + (' t_d%s' % sorted(tis) if tis else '')),
                            "Kenamond2: the arrival time built from the distance to detonator %s %s: the wave of a detonator "
                            "must start at that detonator's own detonation time t_d%s, otherwise the burn time is not a "
                            "causal first-arrival time" % (sorted(js), what, sorted(js)),
                            line=getattr(n.origin[1], 'lineno', 0), construct=n.src))
    if terms < 6:
        raise AnalysisError('Kenamond2: only %d straight-ray arrival terms recognised (confirmed: 6)' % terms)


def interface_continuity(model, res):
    """DSD cylindrical expansion: the inner- and outer-material expressions agree at r = r_2 (continuity
    across the material interface) and the inner one is t_d at r = r_1; no reliance on local names."""
    cls = model.get_class(CLASSES[3])
    runm = cls.find_method('_run')
    chain = None
    for st in ast.walk(runm.node):
        if isinstance(st, ast.If) and st.orelse and isinstance(st.orelse[0], ast.If) and st.orelse[0].orelse:
            chain = st
    if chain is None:
        raise AnalysisError('three-branch radius chain vanished from CylindricalExpansion._run')
    inner_t = [s.targets[0] for s in chain.orelse[0].body if isinstance(s, ast.Assign)]
    outer_t = [s.targets[0] for s in chain.orelse[0].orelse if isinstance(s, ast.Assign)]
    if not inner_t or not outer_t:
        raise AnalysisError('inner / outer burn-time assignments vanished')
    b = Builder(model)
    objn, ret = b.run_solver(cls)
    keys = model.parameters_keys(cls) or []
    stores = {id(n.origin[1]): n for n in b.trace if n.kind == 'store' and n.origin}
    inner = stores.get(id(inner_t[-1]))
    outer = stores.get(id(outer_t[-1]))
    rpt = None
    for func, tnode, vnode in b.assign_log:
        if func is runm and tnode.id == 'rpt':
            rpt = vnode
    if inner is None or outer is None or rpt is None:
        raise AnalysisError('anchors (inner / outer store, rpt) not found in the value graph')
    h = b.heap.get(objn.val.oid, {})
    checks = [('inner material at r = r_2 == outer material at r = r_2', inner.args[2], 'r_2', outer.args[2], 'r_2'),
              ('inner material at r = r_1 == t_d (the detonation time on the detonator circle)', inner.args[2], 'r_1', None, None)]
    for label, n1, at1, n2, at2 in checks:
        ev = NFEval(keys)
        ev.memo[rpt.nid] = ev.atom('param:%s' % at1)
        got = ev.nf(n1)
        if n2 is not None:
            ev2 = NFEval(keys)
            ev2.sums = ev.sums
            ev2.memo[rpt.nid] = ev2.atom('param:%s' % at2)
            want = ev2.nf(n2)
        else:
            want = ev.atom('param:t_d')
        res.obligations += 1
        res.evaluations += 1
        res.nontrivial += 1
        if got is not NAN and want is not NAN and ev.equal(got, want):
            res.discharged += 1
            res.sample({'rule': 'C13.interface-continuity', 'check': label, 'normal_form': want.key()[:140]})
        else:
            res.add(Finding(PROP, 'C13.interface-continuity', runm.module.relpath, runm.qualname, label,
                            "CylindricalExpansion: the burn time is not continuous by construction (%s): %s versus %s"
                            % (label, got.key()[:200] if got is not NAN else 'NaN', want.key()[:200] if want is not NAN else 'NaN'),
                            line=getattr(n1.origin[1], 'lineno', 0), construct=n1.src[:100]))


def run(model, tier):
    res = Result(PROP)
    res.explanation = (
        'Three structural necessary conditions. (i) Dimension inference restricted to the four burn-time solvers: every '
        'burn time is a time with detonation speeds L/T (a wrong power of D or R is a type error). (ii) Kenamond2: each '
        'straight-ray term pairs detonator position dets[i] with its own detonation time t_d[i] (5 terms), otherwise the '
        'burn time at a detonator is not its detonation time. (iii) DSD cylindrical expansion: the inner- and outer-material '
        'expressions have equal normal forms at r = r_2 (log(1) = 0), and the inner one reduces to t_d at r = r_1: continuity '
        'across the material interface and at the detonator circle by construction. (iv) Eikonal equation '
        '(sa/rules/c13_eikonal.py): every arrival-time expression that flows into a burn-time field through stores, min/max and '
        'if-selection (Kenamond1/2/3: 9 expressions incl. the tangent-arc-tangent shadow path; DSD: 2) depends on the point only '
        'through dot products of vectors affine in the point; with those as variables, the Gram matrix of their gradients from '
        'vector algebra and normal-form differentiation through sqrt / arccos / log, |grad t|^2 == 1/D^2 for one of the solver\'s '
        'speeds (DSD: D_CJ_i - alpha_i/r) identically, in any dimension. Kenamond2: the max between the D1 and D2 expressions '
        'switches exactly on the sphere |P - c| = R (difference == (1/D2 - 1/D1)(|P - c| - R)): local-material gradient and '
        'continuity across the sphere. Kenamond3: where the code\'s angle theta vanishes the shadow path equals the line of '
        'sight (cosine addition with cos(arccos u) = u). Not decided: that the minimum over detonators is the first arrival for '
        'every admissible layout (causality); the admissibility guards are decided under C20.')
    res.rule_text = 'instances: dimension constraints, detonator/time pairs, interface identities'
    res.trusted_base = ['CPython ast', 'sympy FracField', 'NF engine']
    dims(model, res)
    pairing(model, res)
    interface_continuity(model, res)
    from . import c13_eikonal
    c13_eikonal.eikonal(model, res, tier)
    from . import c13_acos
    c13_acos.check(model, res)      # cosines of angles between vectors are clamped before arccos
    return res
