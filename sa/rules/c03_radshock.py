"""C03 clause for the four radiative-shock wrappers: the dimensional profile arrays are EOS-consistent by
construction and by scaling.

Each wrapper (ED / nED / Sn / ie) turns the non-dimensional profile of its driver into dimensional arrays in
`setup_solver`:  X = (scale) * prob.<profile>.X.  Read as formulas (prob.rho0, prob.sound, prob.Tref, ... and the
profile fields as symbols; `self.Y` replaced by the formula assigned to it), with the non-dimensional ideal-gas
relations of the profile  P' = rho' T' / gamma,  e' = T' / (gamma (gamma - 1)),  M' = u' / sqrt(T')  (decided at the
profile level by the C12 ED / nED rules) and  sound^2 = gamma (gamma - 1) Cv Tref  (the reference sound speed; its
dimension is the C12 scaling rule), the stored arrays must satisfy
    Pressure == (gamma - 1) Density SIE,     SIE == Cv Tm,     Sound_Speed^2 == gamma Pressure / Density
identically.  So both the by-construction form  SIE = Pressure / Density / (gamma - 1)  and a correctly scaled
sound^2 * profile.SIE  are accepted, and a wrong scale factor on any of the four arrays is not.
"""
import ast

import sympy as sp

from ..model import AnalysisError, src_of
from ..report import Finding

PROP = 'C03'
MOD = 'exactpack.solvers.radshocks.nED_radshocks'
WRAPPERS = ['ED_Solver', 'nED_Solver', 'Sn_Solver', 'ie_Solver']


def wrappers(model, res):
    mod = model.modules.get(MOD)
    if mod is None:
        raise AnalysisError('%s vanished' % MOD)
    g, Cv, Tref, rho0 = (sp.Symbol(k, positive=True) for k in ('gamma', 'Cv', 'Tref', 'rho0'))
    c = sp.sqrt(g * (g - 1) * Cv * Tref)
    done = 0
    for cname in WRAPPERS:
        ci = mod.classes.get(cname)
        if ci is None:
            raise AnalysisError('%s.%s vanished' % (MOD, cname))
        fi = ci.find_method('setup_solver') or ci.find_method('__init__')
        assigns = {}
        order = []
        host = None
        for f in ci.methods.values():
            for st in ast.walk(f.node):
                if isinstance(st, ast.Assign) and len(st.targets) == 1 and isinstance(st.targets[0], ast.Attribute) \
                        and src_of(st.targets[0].value) == 'self' and st.targets[0].attr in ('Density', 'Pressure', 'SIE', 'Tm', 'Speed',
                                                                                             'Mach', 'Sound_Speed'):
                    assigns[st.targets[0].attr] = st
                    host = f
        need = ['Density', 'Pressure', 'SIE', 'Tm', 'Speed', 'Mach', 'Sound_Speed']
        if any(k not in assigns for k in need):
            raise AnalysisError('%s no longer assigns %s' % (cname, [k for k in need if k not in assigns]))
        Dp, Tp, Up = (sp.Symbol(k, positive=True) for k in ("rho'", "T'", "u'"))
        prof = {'Density': Dp, 'Tm': Tp, 'Speed': Up, 'Pressure': Dp * Tp / g, 'SIE': Tp / (g * (g - 1)), 'Mach': Up / sp.sqrt(Tp)}
        val = {}

        def ev(e):
            if isinstance(e, ast.Constant) and isinstance(e.value, (int, float)):
                return sp.nsimplify(e.value, rational=True)
            if isinstance(e, ast.Attribute):
                s_ = src_of(e)
                if s_ == 'self.gamma' or s_ == 'prob.gamma':
                    return g
                if s_.startswith('self.') and e.attr in val:
                    return val[e.attr]
                if s_ == 'prob.rho0' or s_ == 'self.rho0':
                    return rho0
                if s_ == 'prob.sound' or s_ == 'self.sound':
                    return c
                if s_ == 'prob.Tref' or s_ == 'self.Tref':
                    return Tref
                if s_ == 'prob.Cv' or s_ == 'self.Cv':
                    return Cv
                if isinstance(e.value, ast.Attribute) and src_of(e.value.value) == 'prob' and e.value.attr.endswith('_profile'):
                    if e.attr in prof:
                        return prof[e.attr]
                raise AnalysisError('%s: `%s` is not a recognised quantity' % (cname, s_))
            if isinstance(e, ast.BinOp):
                a, b = ev(e.left), ev(e.right)
                return {ast.Add: lambda: a + b, ast.Sub: lambda: a - b, ast.Mult: lambda: a * b, ast.Div: lambda: a / b,
                        ast.Pow: lambda: a ** b}[type(e.op)]()
            if isinstance(e, ast.UnaryOp) and isinstance(e.op, ast.USub):
                return -ev(e.operand)
            if isinstance(e, ast.Call) and src_of(e.func) in ('np.sqrt', 'numpy.sqrt', 'math.sqrt') and len(e.args) == 1:
                return sp.sqrt(ev(e.args[0]))
            raise AnalysisError('%s: expression `%s` not readable' % (cname, src_of(e)[:60]))
        for st in sorted(assigns.values(), key=lambda s_: s_.lineno):
            val[st.targets[0].attr] = ev(st.value)
        idents = [
            ('Pressure == (gamma - 1) * Density * SIE', val['Pressure'] - (g - 1) * val['Density'] * val['SIE'], 'SIE'),
            ('SIE == Cv * Tm', val['SIE'] - Cv * val['Tm'], 'SIE'),
            ('Sound_Speed**2 == gamma * Pressure / Density', val['Sound_Speed'] ** 2 - g * val['Pressure'] / val['Density'], 'Sound_Speed'),
        ]
        for label, expr, anchor in idents:
            res.obligations += 1
            res.evaluations += 1
            res.nontrivial += 1
            if sp.simplify(expr) == 0:
                res.discharged += 1
                res.sample({'solver': '%s:%s' % (MOD, cname), 'identity': label, 'pieces': 1}, limit=40)
            else:
                st = assigns[anchor]
                res.add(Finding(PROP, 'C03.eos-link', mod.relpath, host.qualname if host else cname, '%s: %s' % (cname, label),
                                "%s: with the non-dimensional ideal-gas relations of the profile and sound^2 = gamma (gamma - 1) Cv Tref the "
                                "dimensional arrays do not satisfy `%s` (residual %s): a scale factor of the dimensionalisation is wrong"
                                % (cname, label, str(sp.simplify(expr))[:120]), line=st.lineno, construct=src_of(st)))
        done += 1
    if done < 4:
        raise AnalysisError('only %d radiative-shock wrappers analysed' % done)
