"""C12 clause "for the user's parameters": the four public radiative-shock solvers hand their parameters to an inner
problem object (`radshock.grey*_RadShock`, `Shock_2Tie`) whose driver computes the steady profile.  The fluxes C12
speaks of are those of the problem the user posed, so every attribute the inner object holds after construction under
the name of one of the wrapper's parameters must BE that parameter (value graph of wrapper constructor + inner
constructor chain: keyword / positional passing, aliases and the inner constructors' own assignments are followed),
and keyword arguments of the driver call that are named like a parameter must be that parameter.
"""
import ast

from ..model import AnalysisError, src_of
from ..report import Finding
from ..vg import Builder, Frame

PROP = 'C12'
RULE = 'C12.delegation'
MOD = 'exactpack.solvers.radshocks.nED_radshocks'
WRAPPERS = ('ED_Solver', 'nED_Solver', 'Sn_Solver', 'ie_Solver')


def wrappers(model, res, prop=PROP, rule=RULE):
    total = 0
    for wname in WRAPPERS:
        cls = model.get_class('%s:%s' % (MOD, wname))
        setm = cls.find_method('setup_solver')
        if setm is None:
            raise AnalysisError('%s.setup_solver vanished' % wname)
        keys = list(model.parameters_keys(cls) or [])
        b = Builder(model)
        b.frame = Frame(None, cls.module, {}, None)
        objn = b.new_obj(cls, True)             # parameters are symbols; the constructor is not run (it calls setup_solver)
        selfn = setm.node.args.args[0].arg
        b.frame = Frame(setm, cls.module, {selfn: objn}, self_obj=objn, cls=cls)
        inner = None
        for st in setm.node.body:
            objs = {k: v for k, v in b.frame.locals.items() if v is not None and v.kind == 'obj' and v is not objn}
            if isinstance(st, ast.Expr) and isinstance(st.value, ast.Call) and isinstance(st.value.func, ast.Attribute) \
                    and isinstance(st.value.func.value, ast.Name) and st.value.func.value.id in objs:
                inner = objs[st.value.func.value.id]
                icls = inner.val.cls
                h = b.heap[inner.val.oid]
                n_here = 0
                for k in keys:
                    if k not in h:
                        continue
                    n_here += 1
                    res.obligations += 1
                    res.evaluations += 1
                    res.nontrivial += 1
                    v = h[k]
                    if v is not None and v.kind == 'param' and v.val == k:
                        res.discharged += 1
                        res.sample({'rule': rule, 'wrapper': wname, 'identity': '%s.%s is the parameter %s' % (icls.name, k, k)}, limit=60)
                    else:
                        o = v.origin[1] if v is not None and v.origin else None
                        res.add(Finding(prop, rule, setm.module.relpath, setm.qualname, "%s: inner attribute '%s'" % (wname, k),
                                        "%s.setup_solver: the %s problem object is set up with %s = %s instead of the solver's own "
                                        "parameter %s: the profile returned (and the fluxes along it) belong to a different problem than "
                                        "the one the user specified"
                                        % (wname, icls.name, k, ('the parameter ' + str(v.val)) if v is not None and v.kind == 'param'
                                           else ('`%s`' % src_of(o)[:60] if o is not None else 'another value'), k),
                                        line=getattr(o, 'lineno', st.lineno), construct=src_of(o)[:100] if o is not None else src_of(st)[:100]))
                # keyword arguments of the driver call
                for kw in st.value.keywords:
                    if kw.arg in keys:
                        res.obligations += 1
                        res.evaluations += 1
                        res.nontrivial += 1
                        v = b.eval(kw.value)
                        if v is not None and v.kind == 'param' and v.val == kw.arg:
                            res.discharged += 1
                        else:
                            res.add(Finding(prop, rule, setm.module.relpath, setm.qualname, "%s: driver argument '%s'" % (wname, kw.arg),
                                            "%s.setup_solver: the driver is called with %s = `%s`, not the solver's own parameter %s"
                                            % (wname, kw.arg, src_of(kw.value)[:60], kw.arg), line=kw.value.lineno, construct=src_of(st)[:100]))
                if n_here < 8:
                    raise AnalysisError('%s: only %d parameters found on the %s object (confirmed: >= 10)' % (wname, n_here, icls.name))
                total += n_here
                break
            b.exec_stmt(st)
        if inner is None:
            raise AnalysisError('%s.setup_solver: inner problem object / driver call not found' % wname)
    if total < 40:
        raise AnalysisError('radiative-shock wrappers: only %d parameter hand-overs analysed (confirmed: 50)' % total)
