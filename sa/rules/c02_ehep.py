"""C02 clause for the escape-of-HE-products solver: every edge shared by two region polygons of the x-t diagram is
either a line across which the two regions' formulas are continuous, or a discontinuity that satisfies the jump
conditions with the speed of the edge.

The polygons are the ones the constructor builds (`self.corners`, closed forms of the parameters).  Which polygon
edges lie on a common line segment is read at the class defaults (exact rational evaluation of the corner
formulas; the topology of the diagram is the same for all admitted parameters); the statement about the fields on
that line, x = x_a + V (t - t_a), is then decided as an identity in t and the parameters.  Special neighbours:
the unreacted explosive ahead of the detonation front (0H -> I: reactive front, mass and momentum and the CJ
condition are decided by the family-7 site), the piston face (region 00: kinematic condition u = V only), vacuum
(0V: rho (u - V) = 0 and p = 0 on the fluid side).
"""
import ast
from fractions import Fraction

import sympy as sp

from ..model import AnalysisError, src_of
from ..report import Finding
from ..vg import Builder
from ..nf import NFEval, NAN, Mono, Sum, PW, Struct
from ..ratnf import NFSym, is_zero
from ..radnf import RadNF, Unsupported

PROP = 'C02'
CLS = 'exactpack.solvers.ehep.ehep:EscapeOfHEProducts'


# the curves of the x-t diagram (read from the constructor's comments and confirmed on the corner formulas)
ADJACENT = {
    ('0H', '0V'): 'the HE-vacuum interface x = xtilde before the detonation arrives',
    ('0H', 'I'): 'curve A, the detonation front x = D t',
    ('0V', 'II'): 'curve A continued: the escape front into vacuum',
    ('I', 'II'): 'the characteristic reflected from the free surface at (xtilde, ttilde)',
    ('I', 'III'): 'curve C, the tail of the Taylor wave x = (2 up + D/2) t',
    ('II', 'IV'): 'curve C continued behind the reflected characteristic',
    ('III', 'IV'): 'curve D, the reflected characteristic inside the constant state',
    ('IV', 'V'): 'curve E, the characteristic reflected from the piston',
    ('00', 'III'): 'curve B, the piston path x = up t',
    ('00', 'V'): 'curve B continued',
}


def _polygons(h):
    c = h.get('corners')
    if c is None or c.kind != 'dict':
        raise AnalysisError('EHEP: self.corners is no longer a dict of corner lists')
    out = {}
    for name, node in zip(c.val, c.args):
        pts = []
        n = node
        while n is not None and n.kind == 'store' and n.val == 'append':
            pts.append(n.args[2])
            n = n.args[0]
        pts.reverse()
        if len(pts) < 3 or any(p.kind != 'tuple' or len(p.args) != 2 for p in pts):
            raise AnalysisError('EHEP: corners[%r] is not a list of (x, t) pairs' % name)
        out[name] = pts
    return out


def edges(model, res):
    from .c02 import _branch_values
    cls = model.get_class(CLS)
    runm = cls.find_method('_run')
    b = Builder(model)
    objn, _ = b.run_solver(cls)
    h = b.heap[objn.val.oid]
    keys = list(model.parameters_keys(cls) or [])
    rin = [n for n in b.trace if n.kind == 'input' and n.val == 'r']
    if len(rin) != 1:
        raise AnalysisError('EHEP: point input not unique')
    polys = _polygons(h)
    # numeric corner coordinates at the class defaults
    sample = {}
    for kname in keys:
        owner, val = cls.find_attr(kname)
        try:
            sample[sp.Symbol(kname)] = sp.nsimplify(ast.literal_eval(ast.unparse(val)), rational=True)
        except Exception:
            pass
    ev0 = NFEval(keys)
    for n in b.trace:
        if n.kind == 'param' and n.val == 'gamma':
            ev0.memo[n.nid] = ev0.num(3)

    def numval(node):
        try:
            return sp.nsimplify(ev0.R.ratval(node).as_expr().subs(sample))
        except Exception:
            raise AnalysisError('EHEP: a corner coordinate is not a rational function of the parameters')
    num = {r: [(numval(p.args[0]), numval(p.args[1])) for p in pts] for r, pts in polys.items()}
    fields = {}
    for r in polys:
        vals = _branch_values(runm, b, 'reg', r)
        if not all(k in vals for k in ('u', 'p', 'rho')):
            raise AnalysisError('EHEP: region %s does not assign u, p, rho' % r)
        fields[r] = vals
    # adjacency at the defaults: polygon edges of two regions that overlap on a segment of positive length
    pairs = {}
    names = sorted(polys)
    for i, R in enumerate(names):
        nR = len(num[R])
        for a in range(nR):
            A, B = num[R][a], num[R][(a + 1) % nR]
            if A[1] == B[1]:
                continue                                  # an edge t = const is not a curve in space
            for S in names[i + 1:]:
                nS = len(num[S])
                for c in range(nS):
                    C, Dd = num[S][c], num[S][(c + 1) % nS]
                    cross = lambda P, Q, Z: (Q[0] - P[0]) * (Z[1] - P[1]) - (Q[1] - P[1]) * (Z[0] - P[0])
                    if cross(A, B, C) != 0 or cross(A, B, Dd) != 0:
                        continue
                    # parameters of C, D along A -> B (by t, which differs between A and B)
                    sC, sD = (C[1] - A[1]) / (B[1] - A[1]), (Dd[1] - A[1]) / (B[1] - A[1])
                    lo, hi = max(0, min(sC, sD)), min(1, max(sC, sD))
                    if hi - lo > 0:
                        pairs.setdefault((R, S), []).append((polys[R][a], polys[R][(a + 1) % nR]))
    for pair, why in ADJACENT.items():
        res.obligations += 1
        res.evaluations += 1
        res.nontrivial += 1
        if pair in pairs:
            res.discharged += 1
        else:
            res.add(Finding(PROP, 'C02.jump', cls.module.relpath, cls.name + '.__init__', 'EHEP diagram: %s|%s' % pair,
                            "EscapeOfHEProducts: at the class defaults the polygons of regions %s and %s no longer share an edge (%s): "
                            "the x-t diagram has a gap or an overlap there, so points next to that curve get the formulas of the "
                            "wrong region -- a jump inside the flow that is not a shock" % (pair[0], pair[1], why),
                            line=cls.find_method('__init__').node.lineno, construct="corners[%r]" % pair[0]))
    done = 0
    for (R, S), segs in sorted(pairs.items()):
        pa, pb = segs[0]
        ev = NFEval(keys)
        for n in b.trace:
            if n.kind == 'param' and n.val == 'gamma':
                ev.memo[n.nid] = ev.num(3)
        xa, ta, xb, tb = (ev.nf(p) for p in (pa.args[0], pa.args[1], pb.args[0], pb.args[1]))
        V = ev.mul(ev.add(xb, xa, -1), ev.power(ev.add(tb, ta, -1), ev.S.F(-1)))
        t = ev.atom('input:t')
        ev.memo[rin[0].nid] = ev.add(xa, ev.mul(V, ev.add(t, ta, -1)))
        for n in b.trace:
            if n.kind == 'call' and n.val == 'builtins.max' and len(n.args) == 2:
                vals = [ev.nf(a) for a in n.args]
                for i2 in (0, 1):
                    if isinstance(vals[i2], Mono) and vals[i2].coef == 0:
                        ev.memo[n.nid] = vals[1 - i2]
        sy = NFSym(ev)

        def zero(x):
            if x is NAN or isinstance(x, (PW, Struct)):
                return False
            try:
                cx = sy.conv(x)
                if is_zero(cx):
                    return True
                try:
                    return RadNF(sy.units).is_zero(cx)
                except Unsupported:
                    return False
            except TypeError:
                return False
        F = {}
        for r in (R, S):
            u, p, rho = (ev.nf(fields[r][k]) for k in ('u', 'p', 'rho'))
            if any(x is NAN or isinstance(x, (PW, Struct)) for x in (u, p, rho)):
                raise AnalysisError('EHEP: region %s is not a closed form on the edge %s|%s' % (r, R, S))
            F[r] = (u, p, rho)
        name = 'EHEP: edge between regions %s and %s' % (R, S)
        at = fields[R]['u'].origin[1] if getattr(fields[R]['u'], 'origin', None) else None

        def oblige(label, ok, msg):
            res.obligations += 1
            res.evaluations += 1
            res.nontrivial += 1
            if ok:
                res.discharged += 1
                res.sample({'site': name, 'identity': label}, limit=80)
            else:
                res.add(Finding(PROP, 'C02.jump', runm.module.relpath, runm.qualname, '%s: %s' % (name, label), msg,
                                line=getattr(at, 'lineno', 0) or runm.node.lineno, construct=src_of(at) if at is not None else 'def _run'))
        vac = [r for r in (R, S) if isinstance(F[r][2], Mono) and F[r][2].coef == 0]
        if {R, S} == {'0H', 'I'}:
            continue                  # the reactive front: site family 7 (mass, momentum, CJ condition)
        done += 1
        if len(vac) == 2:
            continue
        if vac:
            fl = S if vac[0] == R else R
            u, p, rho = F[fl]
            rel = ev.add(u, V, -1)
            if vac[0] == '00':
                oblige('kinematic condition at the piston face: u == V', zero(rel),
                       '%s: the fluid next to the piston does not move with the piston face (speed of the edge)' % name)
            else:
                oblige('no mass flux into vacuum: rho (u - V) == 0', zero(ev.mul(rho, rel)),
                       '%s: mass flows across the edge into the vacuum region' % name)
                oblige('p == 0 at the vacuum edge', zero(p), '%s: the pressure does not vanish at the vacuum edge' % name)
            continue
        (u1, p1, r1), (u2, p2, r2) = F[R], F[S]
        if zero(ev.add(u1, u2, -1)) and zero(ev.add(p1, p2, -1)) and zero(ev.add(r1, r2, -1)):
            oblige('continuous (u, p, rho)', True, '')
            continue
        w1, w2 = ev.add(u1, V, -1), ev.add(u2, V, -1)
        half = ev.num(Fraction(1, 2))
        e1 = ev.mul(ev.mul(p1, ev.power(r1, ev.S.F(-1))), half)       # gamma = 3: e = p / (2 rho)
        e2 = ev.mul(ev.mul(p2, ev.power(r2, ev.S.F(-1))), half)
        mass = ev.add(ev.mul(r1, w1), ev.mul(r2, w2), -1)
        mom = ev.add(ev.add(p1, ev.mul(r1, ev.mul(w1, w1))), ev.add(p2, ev.mul(r2, ev.mul(w2, w2))), -1)
        en = ev.add(ev.mul(w1, ev.add(ev.mul(r1, ev.add(e1, ev.mul(half, ev.mul(w1, w1)))), p1)),
                    ev.mul(w2, ev.add(ev.mul(r2, ev.add(e2, ev.mul(half, ev.mul(w2, w2)))), p2)), -1)
        msg = ('%s: the formulas of the two regions differ on their common edge x = x_a + V (t - t_a) and the jump does not '
               'satisfy the %%s condition with the speed V of the edge: a spurious discontinuity inside the flow' % name)
        oblige('mass', zero(mass), msg % 'mass')
        oblige('momentum', zero(mom), msg % 'momentum')
        oblige('energy', zero(en), msg % 'energy')
    res.extra['ehep_adjacent_pairs'] = ['%s|%s' % k for k in sorted(pairs)]
    if done < 8:
        raise AnalysisError('EHEP: only %d region edges analysed (confirmed: 11)' % done)
