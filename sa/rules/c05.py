"""C05 -- uniform call/return contract (DESIGN 3, C05)."""
import ast
import re

from ..model import AnalysisError, ClassInfo, src_of
from ..report import Result, Finding
from ..vg import Builder, walk

LEVEL = 'other'
PROP = 'C05'

POS_RE = re.compile(r'^position(_[a-z]+)?$')
COORD_RE = re.compile(r'^(position(_[a-z]+)?|angle_[a-z]+)$')
# recognised synonyms of quantities that have a standard name in the table of
# exactpack.base.ExactSolution (density, pressure, specific_internal_energy,
# velocity, position, position_x/y/z)
SYNONYMS = {
    'rho': 'density', 'dens': 'density', 'den': 'density',
    'pres': 'pressure', 'press': 'pressure', 'p': 'pressure',
    'sie': 'specific_internal_energy', 'energy': 'specific_internal_energy',
    'ener': 'specific_internal_energy', 'internal_energy': 'specific_internal_energy',
    'e': 'specific_internal_energy',
    'vel': 'velocity', 'u': 'velocity',
    'radius': 'position', 'r': 'position', 'x': 'position', 'pos': 'position',
    'x_position': 'position_x', 'y_position': 'position_y', 'z_position': 'position_z',
}
MIN_CLASSES = 110      # confirmed on the pinned tree: 120 solver classes
MIN_RUNS = 45          # 50 classes define _run


def _f(rule, fi_or_ci, detail, msg, node=None, construct=''):
    mod = fi_or_ci.module
    q = fi_or_ci.qualname if hasattr(fi_or_ci, 'qualname') else fi_or_ci.name
    return Finding(PROP, rule, mod.relpath, q, detail, msg, line=getattr(node, 'lineno', 0),
                   construct=construct or (src_of(node) if node is not None else ''))


# ---------------------------------------------------------------------------
# R5.1 constructor contract

def raises_value_error(stmts):
    for st in stmts:
        for n in ast.walk(st):
            if isinstance(n, ast.Raise) and n.exc is not None:
                f = n.exc.func if isinstance(n.exc, ast.Call) else n.exc
                if isinstance(f, ast.Name) and f.id == 'ValueError':
                    return n
    return None


def names_in(node):
    return {n.id for n in ast.walk(node) if isinstance(n, ast.Name)}


def attrs_in(node):
    return {(n.value.id, n.attr) for n in ast.walk(node)
            if isinstance(n, ast.Attribute) and isinstance(n.value, ast.Name)}


def check_base_init(model, res):
    base = model.get_class('exactpack.base:ExactSolver')
    init = base.methods.get('__init__')
    if init is None:
        raise AnalysisError('ExactSolver.__init__ vanished')
    fn = init.node
    kw = fn.args.kwarg.arg if fn.args.kwarg else None
    if kw is None:
        res.add(_f('C05.ctor-contract', init, 'no **kwargs', 'ExactSolver.__init__ takes no keyword parameters', fn))
        return
    selfn = fn.args.args[0].arg
    # (1) unknown-name check: an `if` whose test reads both the received keywords
    # and self.parameters, and whose body raises ValueError, not nested in a loop
    unknown_ok = False
    missing_ok = False
    for st in ast.walk(fn):
        if isinstance(st, ast.If):
            t = st.test
            if kw in names_in(t) and (selfn, 'parameters') in attrs_in(t) and raises_value_error(st.body):
                unknown_ok = True
        if isinstance(st, ast.For) and (selfn, 'parameters') in attrs_in(st.iter) \
                and isinstance(st.target, ast.Name):
            lv = st.target.id
            for s2 in ast.walk(st):
                if isinstance(s2, ast.If) and raises_value_error(s2.body):
                    for c in ast.walk(s2.test):
                        if isinstance(c, ast.Call) and isinstance(c.func, ast.Name) and c.func.id == 'hasattr' \
                                and len(c.args) == 2 and isinstance(c.args[0], ast.Name) and c.args[0].id == selfn \
                                and isinstance(c.args[1], ast.Name) and c.args[1].id == lv:
                            # must be negated: `not hasattr(self, p)`
                            neg = any(isinstance(u, ast.UnaryOp) and isinstance(u.op, ast.Not)
                                      and c in list(ast.walk(u)) for u in ast.walk(s2.test))
                            if neg:
                                missing_ok = True
    # the received keywords must be stored on the instance before the completeness check
    stores = any(isinstance(c, ast.Call) and isinstance(c.func, ast.Attribute) and c.func.attr == 'update'
                 and src_of(c.func.value) == '%s.__dict__' % selfn and c.args and src_of(c.args[0]) == kw
                 for c in ast.walk(fn)) or \
        any(isinstance(c, ast.Call) and isinstance(c.func, ast.Name) and c.func.id == 'setattr'
            for c in ast.walk(fn))
    res.obligations += 3
    for ok, detail, msg in ((unknown_ok, 'unknown-parameter check',
                             'no `raise ValueError` guarded by a comparison of the received keyword names with self.parameters'),
                            (missing_ok, 'missing-parameter check',
                             'no `raise ValueError` guarded by `not hasattr(self, p)` in a loop over self.parameters'),
                            (stores, 'keywords stored', 'received keyword values are not stored on the instance')):
        if ok:
            res.discharged += 1
        else:
            res.add(_f('C05.ctor-contract', init, detail, msg, fn, construct='ExactSolver.__init__'))
    # __call__: decided on the value graph (aliases, temporaries and equivalent spellings are the same graph): for a
    # representative closed-form solver, solver(r, t) must be _run(asarray(r), t) -- _run receives an array
    # conversion of exactly the points passed and the time, and what __call__ returns is what _run returned
    # (same names, every field the same normal form), so no record is added, dropped, reordered or altered there.
    call = base.methods.get('__call__')
    res.obligations += 1
    ok, why = False, 'method missing'
    if call is not None:
        ok, why = _call_dispatch(model, base, call)
    if ok:
        res.discharged += 1
    else:
        res.add(_f('C05.ctor-contract', call or base, '__call__ dispatch',
                   'ExactSolver.__call__(r, t) is not equivalent to `self._run(numpy.asarray(r), t)`: %s' % why,
                   call.node if call else base.node, construct='ExactSolver.__call__'))


REPRESENTATIVE = 'exactpack.solvers.noh.noh1:Noh'
ARRAY_CONV = ('numpy.asarray', 'numpy.asanyarray', 'numpy.array', 'numpy.atleast_1d')


def _call_dispatch(model, base, call):
    from ..vg import Frame, Closure
    from ..nf import NFEval
    cls = model.get_class(REPRESENTATIVE)
    runm = cls.find_method('_run')
    if runm is None:
        raise AnalysisError('%s has no _run' % REPRESENTATIVE)
    outs = []
    for via_call in (False, True):
        b = Builder(model)
        objn, _ = b.run_solver(cls, run=False)
        r, t = b.make_input('r'), b.make_input('t')
        b.frame = Frame(None, cls.module, {}, None)
        if via_call:
            out = b.call_closure(Closure(call, call.node, None, self_node=objn, cls=cls, module=call.module), [r, t], {}, call.node)
            runs = [(at, args) for (at, callee, args, caller) in b.call_log if callee is runm]
            if len(runs) != 1:
                return False, '_run is called %d times' % len(runs)
            a0, a1 = runs[0][1][-2:]
            if not (a0.kind == 'call' and a0.val in ARRAY_CONV and a0.args and a0.args[0] is r):
                return False, 'the points handed to _run are not an array conversion of exactly the points passed (list, ' \
                              'tuple and array inputs would not be equivalent, or the points are altered)'
            if a1 is not t:
                return False, 'the time handed to _run is not the time passed'
        else:
            ra = b.mk('call', 'numpy.asarray', [r])
            out = b.call_closure(Closure(runm, runm.node, None, self_node=objn, cls=runm.cls, module=runm.module), [ra, t], {}, runm.node)
        if out is None or out.kind != 'call' or not out.args or out.args[0].kind != 'list':
            return False, 'what is returned is not the solution object _run builds'
        ev = NFEval(list(model.parameters_keys(cls) or []))
        keys = []
        for a in out.args[0].args:
            v = ev.nf(a)
            keys.append(v.key() if hasattr(v, 'key') else repr(v))
        names = out.kw.get('names')
        outs.append((out.val, keys, [x.val for x in names.args] if names is not None else None))
    if outs[0] != outs[1]:
        return False, 'the solution returned differs from the one _run returns (records or fields are re-indexed or altered after _run)'
    return True, None


def is_super_init_call(model, ci, fi, call):
    """call is `super(...).__init__(...)`, `super().__init__(...)` or `Base.__init__(self, ...)`."""
    f = call.func
    if not (isinstance(f, ast.Attribute) and f.attr == '__init__'):
        return False
    v = f.value
    if isinstance(v, ast.Call) and isinstance(v.func, ast.Name) and v.func.id == 'super':
        return True
    r = model.resolve_dotted(ci.module, v)
    return r is not None and r[0] == 'class' and r[1] in ci.mro[1:]


def must_call(model, ci, fi, stmts):
    """Every path through stmts that ends normally passes a super-__init__ call.
    Returns (bool, call node)."""
    for st in stmts:
        if isinstance(st, ast.Expr) and isinstance(st.value, ast.Call) and is_super_init_call(model, ci, fi, st.value):
            return True, st.value
        if isinstance(st, ast.If):
            a, ca = must_call(model, ci, fi, st.body)
            b, cb = must_call(model, ci, fi, st.orelse)
            a = a or always_raises(st.body)
            b = b or always_raises(st.orelse)
            if a and b:
                return True, ca or cb
        if isinstance(st, (ast.With,)):
            a, ca = must_call(model, ci, fi, st.body)
            if a:
                return True, ca
        if isinstance(st, ast.Try):
            a, ca = must_call(model, ci, fi, st.body)
            if a and not st.handlers:
                return True, ca
        if isinstance(st, ast.Return):
            return False, None
    return False, None


def always_raises(stmts):
    return bool(stmts) and isinstance(stmts[-1], ast.Raise)


def _is_superset_of(value, kw):
    """dict(kw, ...), dict(**kw), {**kw, ...}, kw.copy() / dict(kw): every key of kw survives."""
    if isinstance(value, ast.Call):
        f = value.func
        if isinstance(f, ast.Name) and f.id == 'dict':
            if value.args and isinstance(value.args[0], ast.Name) and value.args[0].id == kw:
                return True
            if any(k.arg is None and isinstance(k.value, ast.Name) and k.value.id == kw for k in value.keywords):
                return True
        if isinstance(f, ast.Attribute) and f.attr == 'copy' and isinstance(f.value, ast.Name) and f.value.id == kw:
            return True
    if isinstance(value, ast.Dict):
        return any(k is None and isinstance(v, ast.Name) and v.id == kw for k, v in zip(value.keys, value.values))
    return False


def _establishes_empty(test, kw):
    """`len(kw) == 0`, `not kw`, `kw == {}`: in the true branch kw holds no name."""
    if isinstance(test, ast.UnaryOp) and isinstance(test.op, ast.Not) and isinstance(test.operand, ast.Name) \
            and test.operand.id == kw:
        return True
    if isinstance(test, ast.Compare) and len(test.ops) == 1 and isinstance(test.ops[0], ast.Eq):
        a, b = test.left, test.comparators[0]
        for x, y in ((a, b), (b, a)):
            if isinstance(x, ast.Call) and isinstance(x.func, ast.Name) and x.func.id == 'len' and len(x.args) == 1 \
                    and isinstance(x.args[0], ast.Name) and x.args[0].id == kw \
                    and isinstance(y, ast.Constant) and y.value == 0:
                return True
            if isinstance(x, ast.Name) and x.id == kw and isinstance(y, ast.Dict) and not y.keys:
                return True
    return False


def kwargs_dropped(fn, kw, call):
    """First construct, textually before the base-constructor call, that can remove a received name from **kw."""
    limit = (call.lineno, call.col_offset)

    def walk(stmts, empty):
        for st in stmts:
            if (st.lineno, st.col_offset) >= limit:
                return None
            if isinstance(st, ast.If):
                r = walk(st.body, empty or _establishes_empty(st.test, kw)) or walk(st.orelse, empty)
                if r:
                    return r
                continue
            if isinstance(st, (ast.For, ast.While, ast.With, ast.Try)):
                for blk in (getattr(st, 'body', []), getattr(st, 'orelse', []), getattr(st, 'finalbody', [])):
                    r = walk(blk, empty)
                    if r:
                        return r
                for h in getattr(st, 'handlers', []):
                    r = walk(h.body, empty)
                    if r:
                        return r
                continue
            if isinstance(st, ast.Assign):
                for t in st.targets:
                    if isinstance(t, ast.Name) and t.id == kw and not empty and not _is_superset_of(st.value, kw):
                        return st, 'rebinds `%s` to `%s`' % (kw, src_of(st.value)[:60].replace('\n', ' '))
            if isinstance(st, ast.Delete):
                for t in st.targets:
                    if isinstance(t, ast.Name) and t.id == kw:
                        return st, 'deletes `%s`' % kw
                    if isinstance(t, ast.Subscript) and isinstance(t.value, ast.Name) and t.value.id == kw \
                            and not isinstance(t.slice, ast.Constant):
                        return st, 'deletes a computed key of `%s`' % kw
            for n in ast.walk(st):
                if isinstance(n, ast.Call) and isinstance(n.func, ast.Attribute) and isinstance(n.func.value, ast.Name) \
                        and n.func.value.id == kw and not empty:
                    if n.func.attr in ('clear', 'popitem'):
                        return st, 'calls `%s.%s()`' % (kw, n.func.attr)
                    if n.func.attr == 'pop' and n.args and not isinstance(n.args[0], ast.Constant):
                        return st, 'pops a computed key of `%s`' % kw
        return None
    return walk(fn.body, False)


def check_subclass_ctor(model, ci, res):
    if '__call__' in ci.methods:
        res.add(_f('C05.ctor-contract', ci.methods['__call__'], 'overrides __call__',
                   '%s overrides ExactSolver.__call__ (the list->array conversion and dispatch)' % ci.name,
                   ci.methods['__call__'].node, construct='def __call__'))
    init = ci.methods.get('__init__')
    if init is None:
        return
    res.obligations += 1
    ok, call = must_call(model, ci, init, init.node.body)
    if not ok:
        res.add(_f('C05.super-init', init, 'super().__init__ not on every path',
                   '%s.__init__ has a normally-ending path that never reaches ExactSolver.__init__ '
                   '(parameter-name and completeness checks skipped)' % ci.name, init.node,
                   construct='def __init__'))
        return
    # keyword forwarding: **kwargs of this __init__ must be forwarded (if it has one)
    kw = init.node.args.kwarg.arg if init.node.args.kwarg else None
    fwd = any(k.arg is None and isinstance(k.value, ast.Name) and k.value.id == kw for k in call.keywords)
    if kw is not None and not fwd:
        res.add(_f('C05.super-init', init, 'kwargs not forwarded',
                   '%s.__init__ does not forward **%s to the base constructor' % (ci.name, kw), call))
        return
    if kw is not None:
        # the forwarded dict must still hold every name the caller gave: no rebinding of **kw (other than to a superset, or
        # where a guard has established that it is empty) and no wholesale removal before the base constructor is reached
        bad = kwargs_dropped(init.node, kw, call)
        if bad is not None:
            node, what = bad
            res.add(_f('C05.super-init', init, 'received keywords dropped before forwarding',
                       "%s.__init__ %s before **%s reaches ExactSolver.__init__: a name the caller gave can be dropped there, so an "
                       "unknown (or misspelt) parameter name is accepted silently instead of raising ValueError"
                       % (ci.name, what, kw), node))
            return
    if kw is None:
        # no **kwargs at all: an unknown (or a documented) parameter name given as a keyword is a TypeError raised by the
        # call itself, before ExactSolver.__init__ can answer with the ValueError the property promises
        res.add(_f('C05.super-init', init, 'constructor takes no keyword parameters',
                   "%s.__init__ takes no **kwargs: constructing it with an unknown parameter name raises TypeError instead of the "
                   "ValueError of ExactSolver.__init__ (and the parameters the class documents cannot be given)" % ci.name,
                   init.node, construct='def __init__'))
        return
    res.discharged += 1


# ---------------------------------------------------------------------------
# R5.2 - R5.4 on the value graph of _run

def phi_leaves(n, acc=None):
    acc = [] if acc is None else acc
    if n.kind == 'phi':
        phi_leaves(n.args[1], acc)
        phi_leaves(n.args[2], acc)
    else:
        acc.append(n)
    return acc


def is_view_of(node, root, depth=0):
    """node may share memory with `root` (the caller's points array)."""
    if node is root:
        return True
    if depth > 12:
        return False
    k = node.kind
    if k == 'sub':
        idx = node.args[1]
        basic = idx.kind in ('slice', 'const', 'index') or \
            (idx.kind == 'tuple' and all(a.kind in ('slice', 'const', 'index') for a in idx.args))
        return basic and is_view_of(node.args[0], root, depth + 1)
    if k == 'attr' and node.val in ('T', 'flat', 'real'):
        return is_view_of(node.args[0], root, depth + 1)
    if k == 'mcall' and node.val in ('reshape', 'ravel', 'view', 'transpose', 'squeeze', 'swapaxes'):
        return is_view_of(node.args[0], root, depth + 1)
    if k == 'call' and node.val in ('numpy.asarray', 'numpy.asanyarray', 'numpy.ravel', 'numpy.transpose',
                                    'numpy.atleast_1d', 'numpy.atleast_2d', 'numpy.reshape', 'numpy.squeeze') \
            and node.args:
        return is_view_of(node.args[0], root, depth + 1)
    if k == 'elem':
        return is_view_of(node.args[0], root, depth + 1)
    if k == 'phi':
        return is_view_of(node.args[1], root, depth + 1) or is_view_of(node.args[2], root, depth + 1)
    if k == 'mu':
        return is_view_of(node.args[0], root, depth + 1)
    if k == 'store':
        return is_view_of(node.args[0], root, depth + 1)
    return False


def check_run(model, ci, res, stats):
    runm = ci.find_method('_run')
    b = Builder(model)
    objn, ret = b.run_solver(ci)
    root = [n for n in b.trace if n.kind == 'input' and n.val == 'r'][0]
    sols = phi_leaves(ret)
    stats['returns'] += len(sols)
    for leaf in sols:
        res.obligations += 1
        if not (leaf.kind == 'call' and leaf.val == 'exactpack.base.ExactSolution'):
            if leaf.kind == 'const' and leaf.val is None:
                res.add(_f('C05.return-shape', runm, 'returns None', '%s._run has a path that returns None' % ci.name,
                           runm.node, construct='def _run'))
            else:
                stats['unresolved'].append('%s: return value %s' % (ci.fullname, leaf.kind))
            continue
        data = leaf.args[0] if leaf.args else leaf.kw.get('data')
        names = leaf.args[1] if len(leaf.args) > 1 else leaf.kw.get('names')
        at = leaf.origin[1]
        fn = leaf.origin[0] or runm
        if data is None or names is None or names.kind not in ('list', 'tuple') \
                or not all(a.kind == 'const' and isinstance(a.val, str) for a in names.args) \
                or data.kind not in ('list', 'tuple'):
            stats['unresolved'].append('%s: ExactSolution arguments not constant-foldable' % ci.fullname)
            continue
        nm = [a.val for a in names.args]
        ok = True
        if len(nm) != len(data.args):
            res.add(_f('C05.return-shape', fn, 'names/data length %d/%d' % (len(nm), len(data.args)),
                       'ExactSolution built from %d arrays and %d names' % (len(data.args), len(nm)), at))
            ok = False
        dup = sorted({x for x in nm if nm.count(x) > 1})
        if dup:
            res.add(_f('C05.return-shape', fn, 'duplicate names %s' % dup, 'duplicate field names %s' % dup, at))
            ok = False
        # first field(s): positions, being the points that were passed, unchanged
        if nm and SYNONYMS.get(nm[0], '').startswith('position'):
            pass        # reported once, by the standard-names rule below
        elif not nm or not POS_RE.match(nm[0]):
            res.add(_f('C05.first-field', fn, "first field '%s'" % (nm[0] if nm else ''),
                       "the first field of the solution is '%s', not a position (fields: %s)"
                       % (nm[0] if nm else '', ', '.join(nm)), at))
            ok = False
        else:
            k = 0
            while k < len(nm) and POS_RE.match(nm[k]):
                k += 1
            k = min(k, len(data.args))
            ncoord = k
            while ncoord < len(nm) and COORD_RE.match(nm[ncoord]):
                ncoord += 1
            for i in range(k):
                d = data.args[i]
                verdict = position_form(d, root, i, ncoord)
                if verdict == 'ok':
                    continue
                if verdict == 'row':
                    res.add(_f('C05.point-layout', fn, "field '%s' is row %d of the points" % (nm[i], i),
                               "position field '%s' is points[%d] (a row: the solver reads a (%d, N) layout), "
                               "but the documented layout is N points of shape (N, %d); N documented points "
                               "do not give N records" % (nm[i], i, ncoord, ncoord), at))
                    ok = False
                elif verdict == 'unresolved':
                    stats['unresolved'].append("%s: position field '%s' not traceable to the input" % (ci.fullname, nm[i]))
                else:
                    res.add(_f('C05.first-field', fn, "position field '%s' is not the input" % nm[i],
                               "position field '%s' is %s, not the points that were passed" % (nm[i], verdict), at))
                    ok = False
        # standard names
        for x in nm:
            if x in SYNONYMS:
                res.add(_f('C05.std-names', fn, "name '%s'" % x,
                           "field name '%s' is a synonym of the standard name '%s'" % (x, SYNONYMS[x]), at))
                ok = False
        if ok:
            res.discharged += 1
        stats['names'].update(nm)
        res.sample({'class': ci.fullname, 'names': nm,
                    'first_data': data.args[0].short(2) if data.args else None}, limit=12)
    # input mutation
    res.obligations += 1
    bad = False
    for kind, recv, at, func in b.mutations:
        if is_view_of(recv, root):
            fi = func or runm
            res.add(_f('C05.input-mutation', fi, '%s on the points array' % kind,
                       "the caller's points array is modified in place (%s)" % kind, at))
            bad = True
    stats['mutation_sites'] += len(b.mutations)
    if not bad:
        res.discharged += 1


def position_form(d, root, i, k):
    if d is root:
        return 'ok' if k == 1 else 'the whole points array'
    if d.kind == 'sub' and d.args[0] is root:
        idx = d.args[1]
        if idx.kind == 'tuple' and len(idx.args) == 2 and idx.args[0].kind == 'slice' \
                and all(x.kind == 'const' and x.val is None for x in idx.args[0].args) \
                and idx.args[1].kind == 'const' and idx.args[1].val == i:
            return 'ok'
        if idx.kind == 'tuple' and len(idx.args) == 2 and idx.args[1].kind == 'const' \
                and isinstance(idx.args[1].val, int) and idx.args[0].kind == 'slice':
            return 'column %d of the points' % idx.args[1].val
        if idx.kind == 'const' and isinstance(idx.val, int):
            return 'row' if idx.val == i else 'row %d of the points' % idx.val
        return 'unresolved'
    # anything computed from something else
    for n in walk(d):
        if n is root:
            return 'unresolved' if d.kind in ('sub', 'call', 'mcall', 'phi', 'attr') and _opaque_copy(d) else \
                'a value computed from the points (%s)' % d.short(2)
    return 'unresolved' if d.kind in ('unknown', 'sub', 'attr') else 'not derived from the points (%s)' % d.short(2)


def _opaque_copy(d):
    """d went through constructs the builder cannot follow (zip(*r), attribute of an
    internal problem object): no verdict rather than a guess."""
    for n in walk(d):
        if n.kind in ('unknown', 'callunk', 'starred') or (n.kind == 'call' and n.val in ('builtins.zip',)):
            return True
    return False


# ---------------------------------------------------------------------------
# R5.5 CSV

ALLOWED_IN_DUMP = {'open', 'writer', 'writerow', 'writerows', 'list', 'tuple', 'iter', 'tolist', 'zip',
                   'len', 'range', 'enumerate'}


def check_dump(model, res):
    sol = model.get_class('exactpack.base:ExactSolution')
    dump = sol.methods.get('dump')
    res.obligations += 1
    if dump is None:
        raise AnalysisError('ExactSolution.dump vanished')
    selfn = dump.node.args.args[0].arg
    header = rows = None
    bad = []
    for c in ast.walk(dump.node):
        if isinstance(c, ast.Call):
            nm = c.func.attr if isinstance(c.func, ast.Attribute) else (c.func.id if isinstance(c.func, ast.Name) else '?')
            if nm == 'writerow' and c.args:
                header = c.args[0]
            elif nm == 'writerows' and c.args:
                rows = c.args[0]
            if nm not in ALLOWED_IN_DUMP:
                bad.append(c)
        if isinstance(c, (ast.JoinedStr,)) or (isinstance(c, ast.BinOp) and isinstance(c.op, ast.Mod)):
            bad.append(c)
    ok = True
    if header is None or '%s.dtype.names' % selfn not in src_of(header):
        res.add(_f('C05.csv', dump, 'header row', 'dump() does not write self.dtype.names as the header row', dump.node,
                   construct='def dump'))
        ok = False
    if rows is None or src_of(rows) not in (selfn, '%s.tolist()' % selfn, 'list(%s)' % selfn, 'iter(%s)' % selfn):
        # a per-record loop `for rec in self: writer.writerow(rec)` is equally fine
        loop_ok = any(isinstance(f, ast.For) and src_of(f.iter) == selfn for f in ast.walk(dump.node))
        if not loop_ok:
            res.add(_f('C05.csv', dump, 'record rows', 'dump() does not write the records of self unchanged', dump.node,
                       construct='def dump'))
            ok = False
    for c in bad:
        res.add(_f('C05.csv', dump, 'transformation %s' % src_of(c)[:40],
                   'dump() transforms values before writing (%s): CSV round trip is no longer exact' % src_of(c)[:60], c))
        ok = False
    if ok:
        res.discharged += 1
    # ExactSolution.__new__: arrays and names handed to fromarrays unchanged
    new = sol.methods.get('__new__')
    res.obligations += 1
    if new is None:
        raise AnalysisError('ExactSolution.__new__ vanished')
    a = [x.arg for x in new.node.args.args]
    good = False
    for c in ast.walk(new.node):
        if isinstance(c, ast.Call) and src_of(c.func).endswith('fromarrays'):
            if c.args and isinstance(c.args[0], ast.Name) and c.args[0].id == a[1]:
                for k in c.keywords:
                    if k.arg == 'names' and isinstance(k.value, ast.Name) and k.value.id == a[2]:
                        good = True
    if good:
        res.discharged += 1
    else:
        res.add(_f('C05.return-shape', new, 'fromarrays(data, names=names)',
                   'ExactSolution.__new__ no longer passes data and names unchanged to numpy.rec.fromarrays',
                   new.node, construct='def __new__'))


# ---------------------------------------------------------------------------

LIKE = ('numpy.empty_like', 'numpy.zeros_like', 'numpy.ones_like', 'numpy.full_like')


def check_like_dtype(model, ci, res):
    """'list, tuple and array inputs are equivalent': `solver([0, 1, 2], t)` reaches _run as an INTEGER array.  An output
    array allocated with numpy.*_like(points) inherits that dtype and every value stored in it is truncated (EP piston:
    density 2 instead of 2.839).  Every *_like allocation in _run whose prototype is the points array (or an alias) must
    name a floating dtype."""
    runm = ci.methods.get('_run')
    if runm is None:
        return 0
    args = [a.arg for a in runm.node.args.args]
    if len(args) < 2:
        return 0
    aliases = {args[1]}
    for st in ast.walk(runm.node):
        if isinstance(st, ast.Assign) and isinstance(st.value, ast.Name) and st.value.id in aliases:
            for t in st.targets:
                if isinstance(t, ast.Name):
                    aliases.add(t.id)
    n = 0
    for c in ast.walk(runm.node):
        if not isinstance(c, ast.Call):
            continue
        r = model.resolve_dotted(ci.module, c.func)
        if r is None or r[0] != 'ext' or r[1] not in LIKE or not c.args:
            continue
        if not (isinstance(c.args[0], ast.Name) and c.args[0].id in aliases):
            continue
        n += 1
        res.obligations += 1
        dt = [k for k in c.keywords if k.arg == 'dtype']
        ok = bool(dt) and src_of(dt[0].value).replace('np.', '').replace('numpy.', '') in ('float', 'float64', 'double', "'float64'", "'d'", "'f8'")
        if ok:
            res.discharged += 1
        else:
            res.add(_f('C05.output-dtype', runm, '%s: %s' % (ci.name, src_of(c)[:50]),
                       "%s._run allocates an output array with `%s`: it inherits the dtype of the points, so positions given as "
                       "integers (a list like [0, 1, 2] is a valid request) truncate every value stored in it"
                       % (ci.name, src_of(c)[:60]), c, construct=src_of(c)[:80]))
    return n


def run(model, tier):
    res = Result(PROP)
    res.explanation = (
        'Structural checks of the API contract over every ExactSolver subclass: (1) ExactSolver.__init__ '
        'raises ValueError for unknown and for missing parameters and every subclass constructor reaches it on '
        'every normally-ending path forwarding its keywords; __call__ is not overridden and dispatches to '
        '_run(numpy.asarray(r), t); (2) on the inlined value graph of every _run, each returned value is an '
        'ExactSolution whose names and arrays (lists, and dict insertion order) fold to equal-length sequences of '
        'distinct names, whose first field(s) are named position* and ARE the points argument (1-D) or its columns '
        'in order (N-D); no recognised synonym of a standard name is used; (3) no in-place update (subscript '
        'store, augmented assignment, in-place method, out=) reaches the points array or a view of it, in _run or '
        'in any function it is handed to; (4) dump() writes dtype.names and the records with no transformation.')
    res.rule_text = ('one instance per solver class / constructor / returned ExactSolution / _run mutation scan; '
                     'non-trivial = class defines its own constructor or _run')
    res.trusted_base = ['CPython ast', 'numpy.rec.fromarrays keeps order', 'csv module writes str(value); '
                        'repr round trip of numpy.float64']
    check_base_init(model, res)
    check_dump(model, res)
    classes = model.solver_classes()
    if len(classes) < MIN_CLASSES:
        raise AnalysisError('only %d ExactSolver subclasses found (confirmed: >= %d)' % (len(classes), MIN_CLASSES))
    stats = {'returns': 0, 'unresolved': [], 'names': set(), 'mutation_sites': 0}
    nruns = 0
    for ci in classes:
        res.evaluations += 1
        check_subclass_ctor(model, ci, res)
        if '_run' in ci.methods:
            nruns += 1
            res.nontrivial += 1
            check_run(model, ci, res, stats)
            stats['like_sites'] = stats.get('like_sites', 0) + check_like_dtype(model, ci, res)
            res.analysed.append(ci.fullname)
        elif '__init__' in ci.methods:
            res.nontrivial += 1
    if nruns < MIN_RUNS:
        raise AnalysisError('only %d classes define _run (confirmed: >= %d)' % (nruns, MIN_RUNS))
    if stats.get('like_sites', 0) < 3:
        raise AnalysisError('only %d *_like allocations from the points array found (confirmed: 11)' % stats.get('like_sites', 0))
    res.extra['classes'] = len(classes)
    res.extra['run_bodies'] = nruns
    res.extra['returned_solutions'] = stats['returns']
    res.extra['unresolved'] = stats['unresolved']
    res.extra['mutation_sites_scanned'] = stats['mutation_sites']
    res.extra['field_names_seen'] = sorted(stats['names'])
    return res
