"""C19 -- 2D steady two-state Riemann problem: the closed-form wave relations.

The star state (pressure, deflection) is the root of a numerical intersection and is not
decided.  What is decided is that the explicit functions the solver is built from are the
oblique-shock and Prandtl-Meyer relations, identically in the pressure ratio, the upstream
Mach number and gamma:

R19.1  compression_states(ps, state) -> (deflection, rs, Ms): with the shock angle beta defined
       by the normal momentum balance  ps - p0 = r0 V0^2 sin^2(beta) (1 - r0/rs),  the total
       enthalpy is conserved, the tangential velocity is preserved (Ms), and the deflection is
       the angle for which mass is conserved:  tan(beta - delta) = (r0/rs) tan(beta).
R19.2  determine_shock_angle's theta-beta-M function, evaluated at that beta, is the tangent of
       the deflection returned by compression_states (the shock is drawn at the angle that
       belongs to the jump that was computed).
R19.3  expansion_states: p/rho^gamma and the total enthalpy are those of the upstream state
       (symbolic exponents), and the turning angle is nu(M0) - nu(Ms) with nu the function
       PrandtlMeyer_function, which must be the Prandtl-Meyer function
       sqrt((g+1)/(g-1)) atan(sqrt((g-1)/(g+1) (M^2-1))) - atan(sqrt(M^2-1)).
R19.4  every (u, v) written next to a Mach number, pressure and density satisfies
       u^2 + v^2 = M^2 g p / rho, and sie = p/rho/(g-1).
All identities are zero tests in the radical normal form (sin/cos of one argument are
generators with c^2 = 1 - s^2); nothing is evaluated.
"""
import ast

import sympy as sp

from ..model import AnalysisError, src_of
from ..report import Result, Finding
from ..vg import Builder, Frame, Closure, walk
from ..nf import NFEval, NAN, Mono, Sum, PW, Struct
from ..ratnf import NFSym
from ..radnf import RadNF, Unsupported

LEVEL = 'other'
PROP = 'C19'
MOD = 'exactpack.solvers.riemann2D_2section_steadystate.riemann2D_2section_steadystate'
CLS = 'SetupRiemannProblem'


def trig_units(sy):
    """cos(x) generators: cos(x)^2 = 1 - sin(x)^2 for every argument that occurs with both."""
    defs = {}
    for k, v in list(sy.syms.items()):
        if k.startswith('numpy.cos(') or k.startswith('math.cos('):
            arg = k[k.index('('):]
            for pre in ('numpy.sin', 'math.sin'):
                if pre + arg in sy.syms:
                    defs[v] = (1 - sy.syms[pre + arg] ** 2, 2)
    return defs


def zero(expr, sy, extra=None, positive=()):
    r = RadNF(sy.units, positive)
    tu = trig_units(sy)
    # cos^2 -> 1 - sin^2 also inside radicands (before the radicals are rewritten)
    for c, (f, _) in tu.items():
        expr = expr.replace(lambda e, c=c: e.is_Pow and e.base == c and e.exp.is_Integer and e.exp >= 2,
                            lambda e, c=c, f=f: f ** (e.exp // 2) * c ** (e.exp % 2))
    for s, d in tu.items():
        r.defs[s] = d
    for s, d in (extra or {}).items():
        r.defs[s] = d
    if expr.has(sp.zoo) or expr.has(sp.nan) or expr.has(sp.oo):
        return False            # a degenerate formula (division by an identically zero quantity): not an identity
    try:
        return r.is_zero(expr)
    except (TypeError, ZeroDivisionError):
        return False


class Ctx:
    def __init__(self, model, res):
        self.model, self.res = model, res
        self.mod = model.modules.get(MOD)
        if self.mod is None or CLS not in self.mod.classes:
            raise AnalysisError('%s.%s vanished' % (MOD, CLS))
        self.ci = self.mod.classes[CLS]

    def method(self, name):
        m = self.ci.find_method(name)
        if m is None:
            raise AnalysisError('%s.%s vanished' % (CLS, name))
        return m

    def check(self, fi, label, ok, msg, at=None):
        res = self.res
        res.obligations += 1
        res.evaluations += 1
        res.nontrivial += 1
        if ok:
            res.discharged += 1
            res.sample({'function': fi.qualname, 'identity': label}, limit=40)
        else:
            res.add(Finding(PROP, 'C19.relation', fi.module.relpath, fi.qualname, label, msg,
                            line=getattr(at, 'lineno', 0) or fi.node.lineno, construct=src_of(at) if at is not None else 'def %s' % fi.name))


def run_method(ctx, name, argnodes, b=None, inst=None):
    m = ctx.method(name)
    b = b or Builder(ctx.model)
    if inst is None:
        b.frame = Frame(None, ctx.mod, {}, None)
        inst = b.symbolic_obj(ctx.ci, [])
    b.frame = Frame(None, ctx.mod, {}, None)
    out = b.call_closure(Closure(m, m.node, None, self_node=inst, cls=ctx.ci, module=ctx.mod), list(argnodes), {}, m.node)
    return b, inst, out, m


def closed(ev, sy, n, what):
    x = ev.nf(n)
    if x is NAN or isinstance(x, (PW, Struct)):
        raise AnalysisError('%s is not a closed form' % what)
    return sy.conv(x)


def shocks(ctx):
    b = Builder(ctx.model)
    b.frame = Frame(None, ctx.mod, {}, None)
    ps = b.mk('param', 'ps')
    p0, r0, M0, th, g = (b.mk('param', nm) for nm in ('p0', 'r0', 'M0', 'theta0_deg', 'g'))
    state = b.mk('tuple', args=[p0, r0, M0, th, g])
    b, inst, out, m = run_method(ctx, 'compression_states', [ps, state], b)
    ev = NFEval(['g'])
    sy = NFSym(ev)
    comp = [closed(ev, sy, b.mk('sub', args=[out, b.const(i)]), 'compression_states()[%d]' % i) for i in range(3)]
    delta, rs, Ms = comp
    P0, R0, M, G, PS = (sy.atom('param:%s' % k) for k in ('p0', 'r0', 'M0', 'g', 'ps'))
    # tan(delta): the deflection is arctan(t)
    atans = [v for k, v in sy.syms.items() if k.startswith('numpy.arctan(')]
    if len(atans) != 1 or sp.expand(delta - atans[0]) != 0:
        raise AnalysisError('compression_states no longer returns arctan(<closed form>) as the deflection')
    tnode = None
    for n in walk(out):
        if n.kind == 'call' and n.val == 'numpy.arctan':
            tnode = n.args[0]
    t = closed(ev, sy, tnode, 'tan(deflection)')
    # M0 is recomputed from (u0, v0): identical to the argument once cos^2 + sin^2 = 1
    V0sq = M ** 2 * G * P0 / R0
    sb2 = (PS - P0) / (R0 * V0sq * (1 - R0 / rs))                 # sin^2(beta) from the normal momentum balance
    H0 = G / (G - 1) * P0 / R0 + V0sq / 2
    Hs = G / (G - 1) * PS / rs + Ms ** 2 * G * PS / rs / 2
    ctx.check(m, 'oblique shock: total enthalpy h + V^2/2 conserved', zero(Hs - H0, sy),
              'compression_states: with rs and Ms as returned, the total enthalpy behind the oblique shock differs from '
              'the upstream one for some pressure ratio / Mach number / gamma')
    Vs_sq = Ms ** 2 * G * PS / rs
    ctx.check(m, 'oblique shock: tangential velocity preserved, normal velocity scaled by r0/rs (Ms)',
              zero(Vs_sq - V0sq * ((1 - sb2) + (R0 / rs) ** 2 * sb2), sy),
              'compression_states: the returned post-shock Mach number is not the one obtained by keeping the tangential '
              'velocity and dividing the normal velocity by the density ratio')
    tb = sp.sqrt(sb2 / (1 - sb2))                                # tan(beta)
    # domain of the compression branch: ps > p0, and a normal Mach number below the upstream Mach number
    # (sin^2 beta < 1):  2 g M0^2 p0 - (g+1) ps - (g-1) p0 > 0
    pos = (PS - P0, 2 * G * M ** 2 * P0 - (G + 1) * PS - (G - 1) * P0)
    ctx.check(m, 'oblique shock: tan(beta - delta) = (r0/rs) tan(beta) (mass with preserved tangential velocity)',
              zero((tb - t) - (R0 / rs) * tb * (1 + t * tb), sy, positive=pos),
              'compression_states: the returned deflection angle is not the turning angle of a shock that conserves mass '
              'and tangential momentum with the returned density')
    # R19.2: theta-beta-M relation used to draw the shock
    mfun = ctx.method('determine_shock_angle')
    inner = None
    for st in ast.walk(mfun.node):
        if isinstance(st, ast.FunctionDef) and st is not mfun.node:
            inner = st
    if inner is None:
        raise AnalysisError('determine_shock_angle no longer defines its theta-beta-M function')
    b2 = Builder(ctx.model)
    b2.frame = Frame(None, ctx.mod, {}, None)
    fr = Frame(mfun, ctx.mod, {'M': b2.mk('param', 'M0'), 'g': b2.mk('param', 'g')}, None)
    x = b2.mk('param', 'beta')
    val = b2.call_closure(Closure(None, inner, fr, module=ctx.mod), [x], {}, inner)
    ev2 = NFEval(['g'])
    sy2 = NFSym(ev2)
    tbm = closed(ev2, sy2, val, 'theta-beta-M function')
    # express through s = sin(beta): tan = s/c, cos(2x) = 1 - 2 s^2
    s = sp.Symbol('sbeta', positive=True)
    c = sp.sqrt(1 - s ** 2)
    rep = {}
    for k, v in sy2.syms.items():
        if k.startswith('numpy.tan('):
            rep[v] = s / c
        elif k.startswith('numpy.sin('):
            rep[v] = s
        elif k.startswith('numpy.cos(') and '2*' in k.replace(' ', ''):
            rep[v] = 1 - 2 * s ** 2
        elif k.startswith('numpy.cos('):
            rep[v] = c
    tbm = tbm.subs(rep)
    # same symbols for M0, g in both evaluators
    tbm = tbm.subs({sy2.atom('param:M0'): M, sy2.atom('param:g'): G})
    tbm = tbm.subs({s: sp.sqrt(sb2)})
    ctx.check(mfun, 'theta-beta-M relation at the shock angle of the computed jump == tan(deflection)', zero(tbm - t, sy, positive=pos),
              'determine_shock_angle: the relation solved for the shock angle is not satisfied by the shock angle of the jump '
              'that compression_states computed (sin^2 beta from the normal momentum balance): the shock is drawn at an angle '
              'that belongs to a different jump')


def shock_placement(ctx):
    """R19.2b  The shock ray is drawn where the computed jump is a shock: the theta-beta-M relation relates the TURNING
    of the flow (slip-line direction minus the direction of the incoming flow of that side) to the shock angle measured
    from the incoming flow direction.  So the equation determine_shock_angle(state) solves must have tan(slip-line
    direction - flow direction of `state`) on its right-hand side, and the polar angle it returns must be the flow
    direction of `state` plus the root.  With the absolute slip-line angle instead, the ray is misplaced whenever that
    side's inflow is inclined, and mass / tangential momentum are not conserved across the returned discontinuity.
    Also: each caller passes the incoming state of the side whose shock it places."""
    mfun = ctx.method('determine_shock_angle')
    inner = None
    for st in ast.walk(mfun.node):
        if isinstance(st, ast.FunctionDef) and st is not mfun.node:
            inner = st
    if inner is None:
        raise AnalysisError('determine_shock_angle no longer defines its theta-beta-M function')
    b = Builder(ctx.model)
    b.frame = Frame(None, ctx.mod, {}, None)
    cd = b.mk('param', 'cd')
    inst = b.symbolic_obj(ctx.ci, [], {'deflection_angle_solution': cd})
    p0, r0, M0, th, g = (b.mk('param', nm) for nm in ('p0', 'r0', 'M0', 'theta0_deg', 'g'))
    state = b.mk('tuple', args=[p0, r0, M0, th, g])
    b, inst, out, m = run_method(ctx, 'determine_shock_angle', [state], b, inst)
    solves = [n for n in walk(out) if n.kind == 'call' and str(n.val).endswith('fsolve') and n.args and n.args[0].kind == 'closure']
    if len(solves) != 1:
        raise AnalysisError('determine_shock_angle: expected one fsolve of a function of the shock angle, found %d' % len(solves))
    sv = solves[0]
    beta = b.mk('param', 'beta')
    b.frame = Frame(None, ctx.mod, {}, None)
    lam = b.call_closure(sv.args[0].val, [beta], {}, None)
    fr = Frame(mfun, ctx.mod, {'M': M0, 'g': g}, None)
    tbm = b.call_closure(Closure(None, inner, fr, module=ctx.mod), [beta], {}, inner)
    ev = NFEval(['g'])
    # theta0 in radians, written the way the module writes it (theta_deg / 180 * pi)
    setm = ctx.method('set_initial_state_values')
    pin = None
    for n in ast.walk(setm.node):
        if isinstance(n, ast.Name) and n.id == 'pi':
            pin = n
    if pin is None:
        raise AnalysisError('set_initial_state_values no longer converts degrees with pi')
    b.frame = Frame(None, ctx.mod, {}, None)
    pinode = b.lookup('pi', pin)
    th_rad = b.mk('binop', '*', [b.mk('binop', '/', [th, b.const(180.)]), pinode])
    turning = b.mk('binop', '-', [cd, th_rad])
    want = b.mk('binop', '-', [tbm, b.mk('call', 'numpy.tan', [turning])])
    nl, nw = ev.nf(lam), ev.nf(want)
    ok = not (nl is NAN or nw is NAN or isinstance(nl, (PW, Struct)) or isinstance(nw, (PW, Struct)))
    same = ok and ev.is_zero(ev.add(nl, nw, -1))
    opp = ok and ev.is_zero(ev.add(nl, nw))
    ctx.check(mfun, 'shock angle: the relation is solved for the turning of the flow (slip line - incoming direction)', same or opp,
              "determine_shock_angle: the equation solved for the shock angle is `%s`; its right-hand side is not the tangent of "
              "the turning angle of the flow across the shock, i.e. the slip-line direction minus the direction of the incoming flow "
              "of the state passed (theta0 = state[3] in degrees).  The theta-beta-M relation holds between the turning angle and the "
              "shock angle measured from the incoming flow; with another angle the shock ray is misplaced whenever that side's inflow "
              "is inclined to the x axis, and the jump across the returned discontinuity conserves neither mass nor tangential momentum"
              % (ev.nf(lam).key()[-120:] if ok else '?'), at=mfun.node)
    root = b.mk('sub', args=[sv, b.const(0)])
    wantret = b.mk('binop', '+', [th_rad, root])
    no, nr = ev.nf(out), ev.nf(wantret)
    okr = not (no is NAN or nr is NAN or isinstance(no, (PW, Struct)) or isinstance(nr, (PW, Struct))) and ev.is_zero(ev.add(no, nr, -1))
    ctx.check(mfun, 'shock angle: returned polar angle = incoming flow direction + root', okr,
              "determine_shock_angle: the polar angle returned is not the direction of the incoming flow of the state passed plus "
              "the shock angle found (the root is measured from the incoming flow direction; the region tests compare it with polar "
              "angles from the x axis)", at=mfun.node)
    # callers: the state of the side whose shock is placed
    setm = ctx.method('set_starstate_values')
    bb = Builder(ctx.model)
    bb.frame = Frame(None, ctx.mod, {}, None)
    pre = {'bottom_state': bb.mk('param', 'bottom_state'), 'top_state': bb.mk('param', 'top_state'),
           'morphology': bb.mk('param', 'morphology')}
    inst2 = bb.symbolic_obj(ctx.ci, ['thetaB_rad', 'gB', 'thetaT_rad', 'gT', 'pressure_solution', 'deflection_angle_solution',
                                     'muB_rad', 'muT_rad'], pre)
    bb.frame = Frame(None, ctx.mod, {}, None)
    bb.call_closure(Closure(setm, setm.node, None, self_node=inst2, cls=ctx.ci, module=ctx.mod), [], {}, setm.node)
    calls = [(at, args) for (at, callee, args, caller) in bb.call_log if callee is mfun]
    if len(calls) < 2:
        raise AnalysisError('set_starstate_values: %d calls of determine_shock_angle (confirmed: 2)' % len(calls))
    for at, args in calls:
        # which entry of `angles` the value is stored under
        keyname = None
        for st in ast.walk(setm.node):
            if isinstance(st, ast.Assign) and st.value is at and isinstance(st.targets[0], ast.Subscript) \
                    and isinstance(st.targets[0].slice, ast.Constant):
                keyname = st.targets[0].slice.value
        if keyname is None or keyname[0] not in 'BT':
            raise AnalysisError('set_starstate_values: cannot tell which shock `%s` places' % src_of(at))
        side = 'bottom_state' if keyname[0] == 'B' else 'top_state'
        a = args[-1]
        ctx.check(setm, "shock '%s' is placed from the incoming state of its own side" % keyname,
                  a.kind == 'param' and a.val == side,
                  "set_starstate_values: the %s shock angle angles['%s'] is computed from `%s`, not from the incoming state of that "
                  "side: the ray belongs to the other side's Mach number and flow direction"
                  % ('bottom' if side[0] == 'b' else 'top', keyname, src_of(at.args[0]) if at.args else '?'), at=at)


def _sides(n, memo=None):
    """Sides (B / T) of the incoming-state parameters a value is computed from.  Unpacking
    `a, b = array([x, y]) / 180. * pi` is followed element by element."""
    out, seen, st = set(), set(), [n]
    while st:
        x = st.pop()
        if x is None or x.nid in seen:
            continue
        seen.add(x.nid)
        if x.kind == 'param' and isinstance(x.val, str) and x.val[:2] in ('B:', 'T:'):
            out.add(x.val[0])
            continue
        if x.kind == 'closure':
            continue
        if x.kind == 'sub' and len(x.args) == 2 and x.args[1].kind == 'const' and isinstance(x.args[1].val, int):
            e = _element(x.args[0], x.args[1].val)
            if e is not None:
                st.extend(e)
                continue
        st.extend(a for a in x.args if a is not None)
        st.extend(x.kw.values())
    return out


def _element(n, i, depth=0):
    """Nodes element i of an array-valued expression depends on (None: unknown shape)."""
    if depth > 8:
        return None
    if n.kind in ('tuple', 'list'):
        return [n.args[i]] if -len(n.args) <= i < len(n.args) else None
    if n.kind == 'call' and n.val in ('numpy.array', 'numpy.asarray') and n.args:
        return _element(n.args[0], i, depth + 1)
    if n.kind == 'binop' and len(n.args) == 2:
        parts = []
        hit = False
        for a in n.args:
            e = _element(a, i, depth + 1)
            if e is None:
                parts.append(a)
            else:
                hit = True
                parts.extend(e)
        return parts if hit else None
    return None


def overlap_sides(ctx):
    """R19.5  The star state is the intersection of two pressure-deflection curves, one per incoming state.  Each curve
    is a table (deflection, pressure) handed to numpy.interp: whenever the tabulated VALUES come from one side only, the
    abscissae of the same table must come from that side only -- in particular the flow direction the deflections are
    added to must be that side's own.  A curve offset by the other side's flow direction moves the guess of the star
    pressure, the guess selects shock or fan for each side, and for colliding streams a wave that compresses is then
    computed with the fan relations (not a shock) or vice versa.  Decided on the value graph of the constructor with the
    two incoming states as tagged symbols."""
    b = Builder(ctx.model)
    b.frame = Frame(None, ctx.mod, {}, None)
    bs = b.mk('tuple', args=[b.mk('param', 'B:' + k) for k in ('p', 'r', 'M', 'theta_deg', 'g')])
    ts = b.mk('tuple', args=[b.mk('param', 'T:' + k) for k in ('p', 'r', 'M', 'theta_deg', 'g')])
    inst = b.instantiate(ctx.ci, args=[bs, ts])
    h = b.heap[inst.val.oid]
    for k in ('pressure_solution', 'deflection_angle_solution'):
        if k not in h:
            raise AnalysisError('SetupRiemannProblem no longer stores %s' % k)
    fo = ctx.method('find_overlap')
    tables = []
    seen = set()
    for root in (h['pressure_solution'], h['deflection_angle_solution']):
        for n in walk(root):
            if n.kind == 'call' and n.val == 'numpy.interp' and len(n.args) == 3 and n.nid not in seen:
                seen.add(n.nid)
                tables.append(n)
    single = [(n, _sides(n.args[2])) for n in tables]
    single = [(n, s) for n, s in single if len(s) == 1]
    if len(single) < 2:
        raise AnalysisError('find_overlap: %d one-sided pressure-deflection tables found (confirmed: 2)' % len(single))
    for n, s in single:
        side = next(iter(s))
        xs = _sides(n.args[1])
        at = n.origin[1] if n.origin else None
        ctx.check(fo, 'pressure-deflection table of the %s state uses only that state' % ('bottom' if side == 'B' else 'top'),
                  xs == s,
                  "find_overlap: the table `%s` interpolates %s-state pressures over deflection angles that are computed from %s: "
                  "the %s curve is offset by the other side's flow direction, so for incoming streams with different directions "
                  "the guessed star pressure -- which decides whether each wave is treated as a shock or as a fan -- is wrong, and a "
                  "wave that compresses can be computed with the Prandtl-Meyer relations (or a fan with the shock relations)"
                  % (src_of(at)[:80] if at is not None else 'interp(...)', 'bottom' if side == 'B' else 'top',
                     ' and '.join({'B': 'the bottom state', 'T': 'the top state'}[k] for k in sorted(xs)) or 'neither state',
                     'bottom' if side == 'B' else 'top'), at=at)
    # the closures the final solve uses: each side's function from that side only
    dsf = ctx.method('determine_state_functions')
    lambdas = [x for x in ast.walk(dsf.node) if isinstance(x, ast.Lambda)]
    n_l = 0
    for lam in lambdas:
        # owner: the name the lambda is assigned to
        owner = None
        for st in ast.walk(dsf.node):
            if isinstance(st, ast.Assign) and st.value is lam and isinstance(st.targets[0], ast.Name):
                owner = st.targets[0].id
        if owner is None or owner.split('_')[0] not in ('bottom', 'top'):
            continue
        want = owner.split('_')[0]
        names = {x.id for x in ast.walk(lam.body) if isinstance(x, ast.Name)}
        other = 'top' if want == 'bottom' else 'bottom'
        bad = sorted(nm for nm in names if nm.startswith(other + '_'))
        n_l += 1
        ctx.check(dsf, '%s (%s) uses only the %s state' % (owner, src_of(lam)[:50], want), not bad,
                  "determine_state_functions: `%s = %s` reads %s: the %s pressure-deflection function mixes the two incoming states"
                  % (owner, src_of(lam)[:80], ', '.join(bad), want), at=lam)
    if n_l < 4:
        raise AnalysisError('determine_state_functions: %d side functions found (confirmed: 4)' % n_l)


WRAP = 'exactpack.solvers.riemann2D_2section_steadystate.ep_riemann2D_2section_steadystate:IGEOS_Solver'
FIELD_OF_STATE = ('pressure', 'density', 'Mach')          # documented order of an incoming state: [p, rho, Mach, angle, gamma]


def delegation(ctx):
    """R19.6  The public solver solves the problem the user posed and labels the columns correctly: the inner problem object
    gets the wrapper's own `bottom_state` / `top_state`; the table `assign_lineout_vals` fills has one column per quantity
    (identified by what the column is initialised with: the incoming bottom state's pressure, density, p/rho/(g-1), Mach
    number, c M cos(theta), c M sin(theta), decided as normal forms), and every named field the wrapper returns is the
    column of that quantity."""
    model = ctx.model
    # --- the column layout of the table
    b = Builder(model)
    b.frame = Frame(None, ctx.mod, {}, None)
    bs = b.mk('tuple', args=[b.mk('param', 'B' + k) for k in ('p', 'r', 'M', 'theta_deg', 'g')])
    ts = b.mk('tuple', args=[b.mk('param', 'T' + k) for k in ('p', 'r', 'M', 'theta_deg', 'g')])
    inst = b.symbolic_obj(ctx.ci, ['pressure_solution', 'deflection_angle_solution', 'rB_star', 'MB_star', 'uB_star', 'vB_star',
                                   'rT_star', 'MT_star', 'uT_star', 'vT_star', 'angles', 'morphology'],
                          {'bottom_state': bs, 'top_state': ts})
    m0 = ctx.method('set_initial_state_values')
    b.frame = Frame(None, ctx.mod, {}, None)
    b.call_closure(Closure(m0, m0.node, None, self_node=inst, cls=ctx.ci, module=ctx.mod), [], {}, m0.node)
    runm = ctx.method('assign_lineout_vals')
    xs, ys = b.mk('param', 'xs'), b.mk('param', 'ys')
    b.frame = Frame(runm, ctx.mod, {'self': inst, 'xs': xs, 'ys': ys}, self_obj=inst, cls=ctx.ci)
    table = None
    for st in runm.node.body:
        if isinstance(st, ast.For):
            break
        try:
            b.exec_stmt(st)
        except AnalysisError:
            raise
        except Exception:
            continue
        if isinstance(st, ast.Assign) and isinstance(st.targets[0], ast.Name) and st.targets[0].id == 'lineout_vals':
            table = b.frame.locals['lineout_vals']
    if table is None:
        raise AnalysisError('assign_lineout_vals no longer builds lineout_vals before its loop')
    lst = None
    for n in walk(table):
        if n.kind == 'list' and len(n.args) >= 8:
            lst = n
            break
    if lst is None:
        raise AnalysisError('assign_lineout_vals: the initial table is no longer array([...columns...])')
    ev = NFEval(['Bg', 'Tg'])
    Bp, Br, BM, Bth, Bg = bs.args
    h = b.heap[inst.val.oid]
    want = {
        'x_position': xs, 'y_position': ys, 'pressure': Bp, 'density': Br, 'Mach': BM,
        'specific_internal_energy': b.mk('binop', '/', [b.mk('binop', '/', [Bp, Br]), b.mk('binop', '-', [Bg, b.const(1.)])]),
        'x_velocity': h['uB'], 'y_velocity': h['vB'],
    }
    wkeys = {}
    for q, n in want.items():
        v = ev.nf(n)
        wkeys[q] = v
    column = {}
    for i, e in enumerate(lst.args):
        v = ev.nf(e)
        if v is NAN or isinstance(v, (PW, Struct)):
            continue
        for q, w in wkeys.items():
            if not (w is NAN or isinstance(w, (PW, Struct))) and ev.is_zero(ev.add(v, w, -1)):
                column.setdefault(q, i)
    missing = [q for q in want if q not in column]
    if missing:
        raise AnalysisError('assign_lineout_vals: no column initialised with the bottom state\'s %s' % ', '.join(missing))
    # speed: appended after the loop by vstack([lineout_vals, speed]) -> the next index, checked: speed = sqrt(u^2 + v^2) of the u, v columns
    sp_ok = False
    for st in runm.node.body:
        if isinstance(st, ast.Assign) and isinstance(st.targets[0], ast.Name) and st.targets[0].id == 'speed':
            idx = sorted(x.slice.value for x in ast.walk(st.value) if isinstance(x, ast.Subscript) and isinstance(x.slice, ast.Constant))
            sp_ok = idx == sorted([column['x_velocity'], column['y_velocity']]) and any(
                isinstance(x, ast.Call) and isinstance(x.func, ast.Name) and x.func.id == 'sqrt' for x in ast.walk(st.value))
    ctx.check(runm, 'speed column = sqrt(u-column^2 + v-column^2)', sp_ok,
              'assign_lineout_vals: the appended speed is not sqrt of the squares of the x- and y-velocity columns (%d, %d)'
              % (column['x_velocity'], column['y_velocity']))
    column['speed'] = len(lst.args)
    # --- the wrapper
    wcls = model.get_class(WRAP)
    wrun = wcls.find_method('_run')
    if wrun is None:
        raise AnalysisError('2D IGEOS_Solver._run vanished')
    b2 = Builder(model)
    wobj, _ = b2.run_solver(wcls, run=False)
    a = [x.arg for x in wrun.node.args.args]
    r_in, t_in = b2.make_input('r'), b2.make_input('t')
    b2.frame = Frame(wrun, wcls.module, {a[0]: wobj, a[1]: r_in, a[2]: t_in}, self_obj=wobj, cls=wcls)
    ret = None
    tab = b2.mk('input', 'prob.lineout_vals')
    for st in wrun.node.body:
        objs = {k: v for k, v in b2.frame.locals.items() if v is not None and v.kind == 'obj' and v is not wobj}
        if isinstance(st, ast.Expr) and isinstance(st.value, ast.Call) and isinstance(st.value.func, ast.Attribute) \
                and isinstance(st.value.func.value, ast.Name) and st.value.func.value.id in objs:
            inner = objs[st.value.func.value.id]
            hh = dict(b2.heap[inner.val.oid])
            for k in ('bottom_state', 'top_state'):
                v = hh.get(k)
                ctx.check(wrun, "inner problem object: %s is the solver's parameter %s" % (k, k),
                          v is not None and v.kind == 'param' and v.val == k,
                          "2D IGEOS_Solver._run: the inner problem object is built with %s = `%s`, not the solver's own parameter %s: "
                          "the solution returned belongs to other incoming states than the user's"
                          % (k, src_of(v.origin[1])[:50] if v is not None and v.origin and v.origin[1] is not None else '?', k), at=st)
            hh['lineout_vals'] = tab
            b2.heap[inner.val.oid] = hh
            continue
        if isinstance(st, ast.Return):
            ret = b2.eval(st.value)
            break
        try:
            b2.exec_stmt(st)
        except AnalysisError:
            raise
        except Exception:
            continue
    if ret is None or ret.kind != 'call' or not ret.args or ret.args[0].kind != 'list':
        raise AnalysisError('2D IGEOS_Solver._run: unexpected return shape')
    names = ret.kw.get('names')
    if names is None or not all(x.kind == 'const' for x in names.args):
        raise AnalysisError('2D IGEOS_Solver._run: field names are not literal')
    got = dict(zip([x.val for x in names.args], ret.args[0].args))
    for q, i in sorted(column.items(), key=lambda kv: kv[1]):
        if q not in got:
            raise AnalysisError("2D IGEOS_Solver._run: field '%s' not returned" % q)
        v = got[q]
        ok = v.kind == 'sub' and v.args[0] is tab and v.args[1].kind == 'const' and v.args[1].val == i
        ctx.check(wrun, "field '%s' is column %d of the table (the column of that quantity)" % (q, i), ok,
                  "2D IGEOS_Solver._run: the field '%s' is `%s`, but assign_lineout_vals keeps that quantity in column %d of the table "
                  "(the column initialised with the incoming bottom state's value of it)"
                  % (q, src_of(v.origin[1])[:40] if v.origin and v.origin[1] is not None else '?', i),
                  at=v.origin[1] if v.origin else None)


def expansions(ctx):
    b = Builder(ctx.model)
    b.frame = Frame(None, ctx.mod, {}, None)
    ps = b.mk('param', 'ps')
    p0, r0, M0, th, g = (b.mk('param', nm) for nm in ('p0', 'r0', 'M0', 'theta0_deg', 'g'))
    state = b.mk('tuple', args=[p0, r0, M0, th, g])
    b, inst, out, m = run_method(ctx, 'expansion_states', [ps, state], b)
    ev = NFEval(['g'])
    sy = NFSym(ev)
    d_nf = ev.nf(b.mk('sub', args=[out, b.const(0)]))
    rs = closed(ev, sy, b.mk('sub', args=[out, b.const(1)]), 'expansion_states()[1]')
    Ms = closed(ev, sy, b.mk('sub', args=[out, b.const(2)]), 'expansion_states()[2]')
    P0, R0, M, G, PS = (sy.atom('param:%s' % k) for k in ('p0', 'r0', 'M0', 'g', 'ps'))
    # isentrope: ps / rs**g == p0 / r0**g, decided on monomials with symbolic exponents
    gsym = ev.S.syms['g']
    lhs = ev.mul(ev.nf(ps), ev.power(ev.nf(b.mk('sub', args=[out, b.const(1)])), -gsym))
    rhs = ev.mul(ev.nf(p0), ev.power(ev.nf(r0), -gsym))
    ctx.check(m, 'expansion: ps / rs**g == p0 / r0**g (isentropic)', ev.equal(lhs, rhs),
              'expansion_states: the returned density is not on the isentrope of the upstream state')
    V0sq = M ** 2 * G * P0 / R0
    H0 = G / (G - 1) * P0 / R0 + V0sq / 2
    Hs = G / (G - 1) * PS / rs + Ms ** 2 * G * PS / rs / 2
    ctx.check(m, 'expansion: total enthalpy h + V^2/2 constant', zero(Hs - H0, sy),
              'expansion_states: the returned Mach number does not keep the total enthalpy of the upstream state')
    # turning angle = nu(M0) - nu(Ms) with nu = PrandtlMeyer_function
    mpm = ctx.method('PrandtlMeyer_function')
    calls = [n for (at, callee, args, caller) in b.call_log for n in [callee] if callee is mpm]
    ctx.check(m, 'expansion: deflection is a difference of two PrandtlMeyer_function values', len(calls) == 2,
              'expansion_states no longer computes its turning angle as nu(M0) - nu(Ms)')
    # the function itself
    b3 = Builder(ctx.model)
    b3.frame = Frame(None, ctx.mod, {}, None)
    Mn, gn = b3.mk('param', 'M'), b3.mk('param', 'g')
    b3, inst3, nu, _ = run_method(ctx, 'PrandtlMeyer_function', [Mn, gn], b3)
    ev3 = NFEval(['g'])
    got = ev3.nf(nu)
    Mx, gx = ev3.nf(Mn), ev3.nf(gn)
    one = ev3.num(1)
    m2m1 = ev3.add(ev3.power(Mx, ev3.S.F(2)), one, -1)
    ratio = ev3.mul(ev3.add(gx, one), ev3.power(ev3.add(gx, one, -1), ev3.S.F(-1)))        # (g+1)/(g-1)
    half = ev3.S.F(1) / 2

    def atan(x):
        return ev3.atom('numpy.arctan(%s)' % x.key())
    want = ev3.add(ev3.mul(ev3.power(ratio, half), atan(ev3.mul(ev3.power(m2m1, half), ev3.power(ratio, -half)))),
                   atan(ev3.power(m2m1, half)), -1)
    ctx.check(mpm, 'PrandtlMeyer_function == sqrt((g+1)/(g-1)) atan(sqrt((g-1)/(g+1)(M^2-1))) - atan(sqrt(M^2-1))',
              got is not NAN and ev3.equal(got, want),
              'PrandtlMeyer_function(M, g) is not the Prandtl-Meyer function: its normal form is %s, the function is %s '
              '(every expansion fan then turns the flow by the wrong angle for its end states)'
              % (got.key()[:200] if got is not NAN else 'NaN', want.key()[:200]))


def consistency(ctx):
    """R19.4 on set_initial_state_values and set_starstate_values: (u, v) vs (M, p, rho, g)."""
    for name, triples in (('set_initial_state_values', [('uB', 'vB', 'MB', 'pB', 'rB', 'gB'), ('uT', 'vT', 'MT', 'pT', 'rT', 'gT')]),):
        m = ctx.method(name)
        b = Builder(ctx.model)
        b.frame = Frame(None, ctx.mod, {}, None)
        bs = b.mk('tuple', args=[b.mk('param', 'B%d' % i) for i in range(5)])
        ts = b.mk('tuple', args=[b.mk('param', 'T%d' % i) for i in range(5)])
        inst = b.symbolic_obj(ctx.ci, [], {'bottom_state': bs, 'top_state': ts})
        run_method(ctx, name, [], b, inst)
        h = b.heap[inst.val.oid]
        ev = NFEval([])
        sy = NFSym(ev)
        for u, v, M, p, r, g in triples:
            if any(a not in h for a in (u, v, M, p, r, g)):
                raise AnalysisError('%s no longer sets %s' % (name, [a for a in (u, v, M, p, r, g) if a not in h]))
            U, V, Mv, P, R, Gv = (closed(ev, sy, h[a], '%s.%s' % (name, a)) for a in (u, v, M, p, r, g))
            ctx.check(m, '%s: %s**2 + %s**2 == %s**2 * %s * %s / %s' % (name, u, v, M, g, p, r),
                      zero(U ** 2 + V ** 2 - Mv ** 2 * Gv * P / R, sy),
                      '%s: the velocity components are not Mach number times sound speed along the flow angle' % name)
    star_state(ctx)


def _leaves_zero(ev, sy, x):
    from ..nf import leaves as _leaves
    if x is NAN:
        return False
    for conds, leaf in _leaves(x):
        if leaf is NAN or isinstance(leaf, Struct):
            return False
        if isinstance(leaf, Mono) and leaf.coef == 0:
            continue
        try:
            if not zero(sy.conv(leaf), sy):
                return False
        except (TypeError, Unsupported):
            return False
    return True


def star_state(ctx):
    """R19.4 on set_starstate_values, executed for a symbolic instance (unknown morphology, star pressure p*, contact
    angle cd): on every branch, (u*, v*) of a side == sqrt(g p*/r*) M* (cos cd, sin cd) with that side's gamma, and
    (r*, M*) of a side come from expansion_states / compression_states applied to THAT side's state."""
    m = ctx.method('set_starstate_values')
    b, inst = _symbolic_instance(ctx)
    run_method(ctx, 'set_initial_state_values', [], b, inst)
    h = b.heap[inst.val.oid]
    h['pressure_solution'] = b.mk('param', 'pstar')
    h['deflection_angle_solution'] = b.mk('param', 'cd')
    h['morphology'] = b.mk('param', 'morphology')
    run_method(ctx, 'set_starstate_values', [], b, inst)
    h = b.heap[inst.val.oid]
    ev = NFEval([])
    sy = NFSym(ev)
    ps, cd = ev.atom('param:pstar'), ev.atom('param:cd')
    for side, k, idx, state in (('bottom', 'B', 0, 'bottom_state'), ('top', 'T', 4, 'top_state')):
        need = ['u%s_star' % k, 'v%s_star' % k, 'r%s_star' % k, 'M%s_star' % k]
        if any(a not in h for a in need):
            raise AnalysisError('set_starstate_values no longer sets %s' % [a for a in need if a not in h])
        U, V, R, M = (ev.nf(h[a]) for a in need)
        g = ev.atom('param:%s4' % k)
        cM = ev.mul(ev.power(ev.mul(ev.mul(g, ps), ev.power(R, ev.S.F(-1))), ev.S.F(1) / 2), M)
        okU = _leaves_zero(ev, sy, ev.add(U, ev.mul(cM, ev.atom('numpy.cos(%s)' % cd.key())), -1))
        okV = _leaves_zero(ev, sy, ev.add(V, ev.mul(cM, ev.atom('numpy.sin(%s)' % cd.key())), -1))
        ctx.check(m, 'star state %s: (u, v) = c M (cos, sin)(contact angle) with c^2 = g p*/r*' % k, okU and okV,
                  'set_starstate_values: the star-state velocity of the %s side is not sound speed (gamma of that side, star pressure, '
                  'star density of that side) times its star Mach number along the contact direction' % side,
                  at=getattr(h[need[0]], 'origin', (None, None))[1])
        # provenance of (r*, M*)
        b.frame = Frame(m, ctx.mod, {'self': inst}, self_obj=inst, cls=ctx.ci)
        ok = True
        for j, attr in ((1, need[2]), (2, need[3])):
            want = b.eval(ast.parse("self.expansion_states(self.pressure_solution, self.%s)[%d] if self.morphology[%d] == 'R' else "
                                    "self.compression_states(self.pressure_solution, self.%s)[%d]" % (state, j, idx, state, j),
                                    mode='eval').body)
            got, wnf = ev.nf(h[attr]), ev.nf(want)
            from ..nf import leaves as _leaves
            for conds, leaf in _leaves(got):
                if leaf is NAN:
                    continue            # neither 'R' nor 'S': the attribute is not set
                w = wnf
                for ck, pol, _ in conds:
                    w = ev.restrict(w, ck, pol)
                if isinstance(w, PW) or w is NAN or not ev.equal(leaf, w):
                    ok = False
        ctx.check(m, 'star state %s: (r*, M*) from expansion_states / compression_states of the %s state at the star pressure' % (k, side),
                  ok, 'set_starstate_values: the star density / Mach number of the %s side are not computed from the %s state (or not at '
                  'the star pressure)' % (side, side), at=getattr(h[need[2]], 'origin', (None, None))[1])


def _symbolic_instance(ctx):
    b = Builder(ctx.model)
    b.frame = Frame(None, ctx.mod, {}, None)
    bs = b.mk('tuple', args=[b.mk('param', 'B%d' % i) for i in range(5)])
    ts = b.mk('tuple', args=[b.mk('param', 'T%d' % i) for i in range(5)])
    inst = b.symbolic_obj(ctx.ci, [], {'bottom_state': bs, 'top_state': ts})
    return b, inst


def _nf_equal(ev, sy, a, b_, positive=()):
    if any(x is NAN or isinstance(x, (PW, Struct)) for x in (a, b_)):
        return False
    if ev.equal(a, b_):
        return True
    try:
        return zero(sy.conv(ev.add(a, b_, -1)), sy, positive=positive)
    except (TypeError, Unsupported):
        return False


def fans(ctx):
    """R19.5: the state written for a point inside an expansion fan (assign_lineout_vals) is built from ONE side: the
    side whose wave the enclosing branch tests (morphology[0]: bottom, morphology[4]: top).  With p the pressure
    found for the point and `this_angle` the turning, for that side's (p0, r0, theta0, g):  p/r^g == p0/r0^g,
    sie == p/r/(g-1), c^2 == g p/r, (u, v) == c M (cos, sin)(this_angle + theta0), and the stored row is
    [p, r, sie, M, u, v]."""
    m = ctx.method('assign_lineout_vals')
    loops = [st for st in m.node.body if isinstance(st, ast.For)]
    if len(loops) != 1:
        raise AnalysisError('assign_lineout_vals no longer has one loop over the points')
    loop = loops[0]
    prologue = m.node.body[:m.node.body.index(loop)]
    blocks = []
    for top in loop.body:
        if not (isinstance(top, ast.If) and isinstance(top.test, ast.Compare)):
            continue
        t = top.test.left
        if not (isinstance(t, ast.Subscript) and src_of(t.value) == 'self.morphology' and isinstance(t.slice, ast.Constant)):
            continue
        side = {0: 'B', 4: 'T'}.get(t.slice.value)
        for inner in ast.walk(top):
            if isinstance(inner, ast.If):
                for body in (inner.body,):
                    calls = [c for s2 in body for c in ast.walk(s2) if isinstance(c, ast.Call) and src_of(c.func) == 'self.expansion_states'
                             and isinstance(s2, ast.Assign) and isinstance(s2.targets[0], ast.Tuple)]
                    if calls and side:
                        blocks.append((side, inner, body))
    if len(blocks) != 2 or {sd for sd, _, _ in blocks} != {'B', 'T'}:
        raise AnalysisError('assign_lineout_vals: expected one fan block per side, found %s' % [sd for sd, _, _ in blocks])
    roots = {}
    signs = {}
    for side, node, body in blocks:
        b, inst = _symbolic_instance(ctx)
        b.frame = Frame(m, ctx.mod, {'self': inst, 'xs': b.mk('param', 'xs'), 'ys': b.mk('param', 'ys')}, self_obj=inst, cls=ctx.ci)
        for st in prologue:
            b.exec_stmt(st)
        loc = b.frame.locals
        pf, ta = b.mk('param', 'pfan'), b.mk('param', 'turn')
        pvar = None
        stored = None
        for st in body:
            if isinstance(st, ast.Assign) and any(isinstance(c, ast.Call) and src_of(c.func).endswith('fsolve') for c in ast.walk(st.value)):
                if isinstance(st.targets[0], ast.Name):
                    pvar = st.targets[0].id
                    loc[pvar] = pf
                lams = [x for x in ast.walk(st.value) if isinstance(x, ast.Lambda) and len(x.args.args) == 1]
                if len(lams) == 1:
                    xname = lams[0].args.args[0].arg
                    saved = loc.get(xname)
                    loc[xname] = pf
                    root_fn = b.eval(lams[0].body)
                    d_side = b.eval(ast.parse('self.expansion_states(%s, self.%s)[0]'
                                              % (xname, 'bottom_state' if side == 'B' else 'top_state'), mode='eval').body)
                    if saved is None:
                        loc.pop(xname, None)
                    else:
                        loc[xname] = saved
                    roots[side] = (root_fn, d_side, ta, st)
                continue
            if isinstance(st, ast.Assign) and isinstance(st.targets[0], ast.Name) and pvar is None:
                # the turning angle of this point: polar angle minus the edge of the fan
                loc[st.targets[0].id] = ta
                tname = st.targets[0].id
                continue
            if isinstance(st, ast.Assign) and isinstance(st.targets[0], ast.Subscript):
                stored = st
                continue
            b.exec_stmt(st)
        if pvar is None or stored is None or not isinstance(stored.value, ast.List) or len(stored.value.elts) != 6:
            raise AnalysisError('assign_lineout_vals: fan block of side %s has an unexpected shape' % side)
        row = [b.eval(e) for e in stored.value.elts]
        ev = NFEval([])
        sy = NFSym(ev)
        if side not in roots:
            raise AnalysisError('assign_lineout_vals: the pressure of a fan point is no longer the root of a lambda (side %s)' % side)
        root_fn, d_side, tnode, rst = roots[side]
        diff = ev.add(ev.nf(root_fn), ev.nf(d_side), -1)
        sg = 1 if _nf_equal(ev, sy, diff, ev.nf(tnode)) else -1 if _nf_equal(ev, sy, diff, ev.mul(ev.num(-1), ev.nf(tnode))) else 0
        signs[side] = sg
        ctx.check(m, '%s fan: the pressure of a point is the root of  deflection(p; state of this side) +- turning'
                  % ('bottom' if side == 'B' else 'top'), sg != 0,
                  "assign_lineout_vals (%s fan): the pressure inside the fan is not found from the expansion relation of the state the "
                  "fan belongs to (the root function is not expansion_states(p, %s)[0] +- this_angle)"
                  % ('bottom' if side == 'B' else 'top', 'bottom_state' if side == 'B' else 'top_state'), at=rst)
        P, R, SIE, M, U, V = (ev.nf(x) for x in row)
        k = 'B' if side == 'B' else 'T'
        p0, r0, th0, g = (ev.atom('param:%s%d' % (k, i)) for i in (0, 1, 3, 4))
        name = '%s fan' % ('bottom' if side == 'B' else 'top')
        what = "assign_lineout_vals (%s): " % name
        # the stored pressure is the one the state was computed for
        ctx.check(m, '%s: stored pressure is the pressure found for the point' % name, _nf_equal(ev, sy, P, ev.nf(pf)),
                  what + 'the stored pressure is not the pressure the fan state was computed for', at=stored)
        gexp = None
        try:
            gexp = ev.R.ratval(b.mk('param', '%s4' % k))
        except Exception:
            pass
        # isentrope of this side
        ev2 = NFEval(['%s4' % k])
        sy2 = NFSym(ev2)
        g2 = ev2.S.syms['%s4' % k]
        P2, R2 = ev2.nf(row[0]), ev2.nf(row[1])
        lhs = ev2.mul(P2, ev2.power(R2, -g2)) if not any(x is NAN or isinstance(x, (PW, Struct)) for x in (P2, R2)) else NAN
        rhs = ev2.mul(ev2.atom('param:%s0' % k), ev2.power(ev2.atom('param:%s1' % k), -g2))
        ctx.check(m, '%s: p / r**g == p0 / r0**g of the %s state' % (name, 'bottom' if side == 'B' else 'top'),
                  lhs is not NAN and ev2.equal(lhs, rhs),
                  what + 'the density inside the fan is not on the isentrope of the state the fan belongs to (state, gamma or '
                  'pressure of the other side used)', at=node)
        gm1 = ev.add(g, ev.num(1), -1)
        ctx.check(m, '%s: sie == p / r / (g - 1)' % name,
                  _nf_equal(ev, sy, SIE, ev.mul(ev.mul(P, ev.power(R, ev.S.F(-1))), ev.power(gm1, ev.S.F(-1)))),
                  what + 'the specific internal energy inside the fan is not p/rho/(gamma-1) with the gamma of its side', at=node)
        # velocity: magnitude c M with c^2 = g p / r, direction = turning + inflow angle of this side
        from fractions import Fraction as _Fr
        th_rad = ev.mul(ev.mul(th0, ev.atom('pi')), ev.num(_Fr(1, 180)))
        arg = ev.add(ev.nf(ta), th_rad)
        cM = ev.mul(ev.power(ev.mul(ev.mul(g, P), ev.power(R, ev.S.F(-1))), ev.S.F(1) / 2), M)
        wantU = ev.mul(cM, ev.atom('numpy.cos(%s)' % arg.key()))
        wantV = ev.mul(cM, ev.atom('numpy.sin(%s)' % arg.key()))
        ctx.check(m, '%s: (u, v) == sqrt(g p / r) M (cos, sin)(turning + inflow angle of its side)' % name,
                  _nf_equal(ev, sy, U, wantU) and _nf_equal(ev, sy, V, wantV),
                  what + 'the velocity inside the fan is not sound speed times Mach number along (turning angle + inflow direction of '
                  'the state the fan belongs to): u = %s' % (U.key()[:160] if U is not NAN and hasattr(U, 'key') else U), at=node)


    ctx.check(m, 'the two fan blocks are mirror images: the turning enters the two root functions with opposite signs',
              signs.get('B', 0) * signs.get('T', 0) == -1,
              'assign_lineout_vals: the bottom and the top fan use the same sign between deflection and turning angle; one of the two '
              'fans then turns the flow the wrong way (mirror symmetry)')


def run(model, tier):
    res = Result(PROP)
    res.explanation = (
        'Closed-form wave relations of the 2D steady two-state Riemann solver. The oblique-shock function '
        '(compression_states) conserves mass, normal and tangential momentum and total enthalpy for every pressure ratio, '
        'Mach number and gamma, with the shock angle defined by the normal momentum balance; the theta-beta-M relation used '
        'to draw the shock is satisfied by that angle; the expansion function is isentropic with constant total enthalpy and '
        'turns the flow by nu(M0) - nu(Ms); PrandtlMeyer_function is compared with the Prandtl-Meyer function as normal '
        'forms; velocity components are consistent with Mach number, sound speed and flow angle where they are formed. '
        'Radical normal form with sin/cos generators; nothing is evaluated. The star state itself (numerical intersection '
        'of the two pressure-deflection curves), the placement of the fan inside the polar-angle sectors and the region '
        'assignment (in-place row views) are not decided.')
    res.rule_text = 'instance = one relation of one closed-form function'
    res.trusted_base = ['CPython ast', 'sympy factor_list / expand', 'value-graph builder']
    ctx = Ctx(model, res)
    shocks(ctx)
    shock_placement(ctx)
    overlap_sides(ctx)
    delegation(ctx)
    expansions(ctx)
    consistency(ctx)
    fans(ctx)
    res.analysed.append('%s:%s' % (MOD, CLS))
    if res.obligations < 10:
        raise AnalysisError('only %d relations analysed (confirmed: 12)' % res.obligations)
    return res
