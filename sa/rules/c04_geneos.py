"""C04 / C01 clause for the general-EOS Riemann solver: its rarefaction fans are centred simple waves of the Euler
equations, provided the ODE integration is exact.

The fan states are integrated in pressure with  d rho/dp = 1/a^2,  du/dp = w/(rho a)  (`drdp_dudp`, w the wave sign) and
placed at  xi = (x - xd0)/t = u + s a.  For fields that depend on (x, t) only through xi, the Euler equations are
    (u - xi) rho' + rho u' = 0,   (u - xi) u' + p'/rho = 0,   (u - xi) e' + (p/rho) u' = 0        (' = d/dxi).
With rho_p, u_p DECLARED to be the coded right-hand sides and e = sie(p, rho, g), these hold identically in
(p, rho, u, g, EOS constants) iff  s = w  and  a^2 = (p/rho^2 - e_rho|p) / e_p|rho.  Decided:
  (1) dsdr_cP and dsdp_cR are the partial derivatives of sie (ideal gas and JWL);
  (2) the three identities above for xi = u + w a with a = sound_speed(p, rho, g) and the coded ODE (both EOS variants);
  (3) at every place where the driver positions fan states, `u -+ sound_speed(...)`, the sign is the wave sign that
      was handed to the integrator for that side.
Not decided: the accuracy of the integration and of the interpolation onto the user's grid, the star state (bisection
on spliced curves).
"""
import ast

from ..model import AnalysisError, src_of
from ..report import Finding
from ..vg import Builder, Frame
from ..nf import NFEval, NAN, Mono, Sum, PW, Struct, DiffUnsupported, leaves
from ..ratnf import NFSym, is_zero, staged_zero
from ..radnf import RadNF, Unsupported

UTILS = 'exactpack.solvers.riemann.utils'
RIEMANN = 'exactpack.solvers.riemann.riemann:RiemannGenEOS'
ATTRS = ['A', 'B', 'R1', 'R2', 'r0', 'pl', 'rl', 'ul', 'gl', 'pr', 'rr', 'ur', 'gr']


def fans(model, res, prop='C04', rule='C04.weak-solution'):
    mod = model.modules.get(UTILS)
    cls = model.get_class(RIEMANN)
    if mod is None or cls is None:
        raise AnalysisError('riemann utils / RiemannGenEOS vanished')

    def oblige(fi, label, ok, msg, at=None):
        res.obligations += 1
        res.evaluations += 1
        res.nontrivial += 1
        if ok:
            res.discharged += 1
            res.sample({'identity': 'general EOS: ' + label}, limit=60)
        else:
            res.add(Finding(prop, rule, fi.module.relpath, fi.qualname, 'general EOS: ' + label, msg,
                            line=getattr(at, 'lineno', 0) or fi.node.lineno, construct=src_of(at)[:140] if at is not None else 'def %s' % fi.name))
    for problem in ('igeos', 'JWL'):
        b = Builder(model)
        b.frame = Frame(None, mod, {}, None)
        inst = b.symbolic_obj(cls, ATTRS, {'problem': None})
        b.heap[inst.val.oid]['problem'] = b.const(problem)
        p, r, u, g, w = (b.mk('param', k) for k in ('p', 'r', 'u', 'g', 'w'))

        def call(fname, *args):
            fi = model.get_func('%s:%s' % (UTILS, fname))
            if fi is None:
                raise AnalysisError('riemann.utils.%s vanished' % fname)
            b.frame = Frame(None, mod, {}, None)
            return fi, b.run_function(fi, list(args))
        f_e, e_n = call('sie', p, r, g, inst)
        f_er, er_n = call('dsdr_cP', p, r, g, inst)
        f_ep, ep_n = call('dsdp_cR', p, r, g, inst)
        f_a, a_n = call('sound_speed', p, r, g, inst)
        f_o, ode_n = call('drdp_dudp', p, b.mk('tuple', args=[r, u]), g, w, inst)
        ev = NFEval([])
        ev.split_exp = True
        P, R, U, W = 'param:p', 'param:r', 'param:u', 'param:w'
        e, er, ep, a = (ev.nf(n) for n in (e_n, er_n, ep_n, a_n))
        rp = ev.nf(b.mk('sub', args=[ode_n, b.const(0)]))
        up = ev.nf(b.mk('sub', args=[ode_n, b.const(1)]))
        if any(x is NAN or isinstance(x, (PW, Struct)) for x in (e, er, ep, a, rp, up)):
            raise AnalysisError('general-EOS closures are not closed forms (%s)' % problem)

        def zero(x):
            if x is NAN or isinstance(x, (PW, Struct)):
                return False
            sy = NFSym(ev)
            try:
                cx = sy.conv(x)
                if is_zero(cx):
                    return True
                try:
                    return RadNF(sy.units | {sy.atom(W)}).is_zero(cx)
                except Unsupported:
                    return False
            except TypeError:
                return False
        tag = 'ideal gas' if problem == 'igeos' else 'JWL'
        try:
            de_dr, de_dp = ev.diff(e, R), ev.diff(e, P)
        except DiffUnsupported as ex:
            raise AnalysisError('sie cannot be differentiated: %s' % ex)
        oblige(f_er, '%s: dsdr_cP == d sie / d rho at constant p' % tag, zero(ev.add(er, de_dr, -1)),
               'riemann.utils.dsdr_cP (%s) is not the partial derivative of sie with respect to density at constant pressure: the '
               'generalised sound speed is not the sound speed of the EOS' % tag)
        oblige(f_ep, '%s: dsdp_cR == d sie / d p at constant rho' % tag, zero(ev.add(ep, de_dp, -1)),
               'riemann.utils.dsdp_cR (%s) is not the partial derivative of sie with respect to pressure at constant density' % tag)
        # similarity form with xi = u + w a:  u - xi = -w a ;  ' = d/dxi = (d/dp) p'
        Wn = ev.atom(W)
        inv = lambda z: ev.power(z, ev.S.F(-1))
        rel = ev.mul(ev.mul(ev.num(-1), Wn), a)                                   # u - xi
        rho = ev.atom(R)
        mass = ev.add(ev.mul(rel, rp), ev.mul(rho, up))
        mom = ev.add(ev.mul(rel, up), inv(rho))
        e_p_total = ev.add(de_dp, ev.mul(de_dr, rp))
        en = ev.add(ev.mul(rel, e_p_total), ev.mul(ev.mul(ev.atom(P), inv(rho)), up))
        # w is a sign: w^2 = 1
        def zero_w(x):
            if zero(x):
                return True
            # substitute w^2 -> 1 by checking both values of w
            ok = True
            for val in (1, -1):
                ev2 = ev
                sy = NFSym(ev2)
                try:
                    cx = sy.conv(x).subs(sy.atom(W), val)
                    if not (is_zero(cx) or RadNF(sy.units).is_zero(cx)):
                        ok = False
                except (TypeError, Unsupported):
                    ok = False
            return ok
        for label, val in (('mass', mass), ('momentum', mom), ('energy', en)):
            oblige(f_o, '%s: fan ODE + placement xi = u + w a: %s equation' % (tag, label), zero_w(val),
                   "riemann.utils.drdp_dudp / sound_speed (%s): with d rho/dp and du/dp as coded and the states placed at xi = u + w a "
                   "(w the wave sign of the ODE), the %s equation of a centred simple wave is not satisfied: the integrated fan is not a "
                   "solution of the Euler equations for this EOS" % (tag, label))
    # (3) pairing of the placement sign with the wave sign handed to the integrator
    drv = cls.find_method('driver')
    if drv is None:
        raise AnalysisError('RiemannGenEOS.driver vanished')
    wsign = {}
    for c in ast.walk(drv.node):
        if isinstance(c, ast.Call) and src_of(c.func).endswith('r_int_call') and len(c.args) >= 2 and isinstance(c.args[1], ast.List) \
                and len(c.args[1].elts) == 2 and isinstance(c.args[1].elts[0], ast.Name):
            side = c.args[1].elts[0].id[-1]
            sg = c.args[1].elts[1]
            val = None
            if isinstance(sg, ast.Constant):
                val = sg.value
            elif isinstance(sg, ast.UnaryOp) and isinstance(sg.op, ast.USub) and isinstance(sg.operand, ast.Constant):
                val = -sg.operand.value
            if side in 'lr' and val in (1, -1):
                wsign[side] = val
    if set(wsign) != {'l', 'r'}:
        raise AnalysisError('RiemannGenEOS.driver: the two r_int_call(state, [gamma, wave sign], ...) calls were not found')
    sites = 0
    for bo in ast.walk(drv.node):
        if isinstance(bo, ast.BinOp) and isinstance(bo.op, (ast.Add, ast.Sub)) and isinstance(bo.right, ast.Call) \
                and src_of(bo.right.func).endswith('sound_speed') and len(bo.right.args) >= 3 and isinstance(bo.right.args[2], ast.Name) \
                and isinstance(bo.left, ast.Name) and bo.left.id.startswith('us_'):
            side = bo.right.args[2].id[-1]
            if side not in 'lr':
                continue
            sites += 1
            s = 1 if isinstance(bo.op, ast.Add) else -1
            oblige(drv, 'driver places the %s fan at u %s a with the wave sign %+d given to the integrator (site %d)'
                   % ('left' if side == 'l' else 'right', '+' if s > 0 else '-', wsign[side], sites), s == wsign[side],
                   "RiemannGenEOS.driver: fan states integrated with wave sign %+d are placed at `%s`: for that sign the characteristic "
                   "is u %s a; the fan is laid out along the wrong family and is not a solution" % (wsign[side], src_of(bo)[:70],
                                                                                                    '+' if wsign[side] > 0 else '-'), at=bo)
    if sites < 4:
        raise AnalysisError('RiemannGenEOS.driver: only %d fan placements found (confirmed: 4)' % sites)
