"""C15 -- Blake: fields follow from the strains by isotropic elasticity; the six
moduli describe one material (DESIGN 3, C15)."""
import ast
import itertools

import sympy

from ..model import AnalysisError, src_of
from ..report import Result, Finding
from ..vg import Builder
from ..nf import NFEval, NAN, PW, leaves
from ..dim import Lin
from ..dimcheck import analyse_class, findings_from, load_spec
from ..ratnf import is_zero
from .c03 import expr_nf
from .c05 import phi_leaves

LEVEL = 'other'
PROP = 'C15'
BLAKE = 'exactpack.solvers.blake.blake:Blake'
SETFN = 'exactpack.solvers.blake.set_check_elastic_params:set_elastic_params'
NAMES = {'lame_mod': 'plda', 'shear_mod': 'pg', 'youngs_mod': 'pe', 'poisson_ratio': 'pnu', 'bulk_mod': 'pk',
         'long_mod': 'pm'}
CHECK_ARGS = {'check_ii': ('plda', 'pg'), 'check_iii': ('pg', 'pk'), 'check_iv': ('pg', 'pnu'), 'check_v': ('pe', 'pnu')}

HOOKE = [
    'strain_qq - displacement / position',
    'strain_vol - (strain_rr + 2 * strain_qq)',
    'stress_rr - ((lame_mod + 2 * shear_mod) * strain_rr + 2 * lame_mod * strain_qq)',
    'stress_qq - (lame_mod * strain_rr + 2 * (lame_mod + shear_mod) * strain_qq)',
    'pressure + (stress_rr + 2 * stress_qq) / 3',
    'stress_dev_rr - (stress_rr + pressure)',
    'stress_dev_qq - (stress_qq + pressure)',
    'density * (1 + strain_vol) - ref_density',
    'curr_posn - (position + displacement)',
]


def blake_dims(model, res):
    cls = model.get_class(BLAKE)
    out = load_spec('output_dims.json')
    out = dict(out, curr_posn={'L': 1})
    P = {'M': 1, 'L': -1, 'T': -2}
    pd = {'lame_mod': P, 'shear_mod': P, 'youngs_mod': P, 'bulk_mod': P, 'long_mod': P, 'poisson_ratio': '1',
          'pressure_scale': P, 'ref_density': {'M': 1, 'L': -3}, 'cavity_radius': {'L': 1}}
    b, S, ev = analyse_class(model, cls, {'r': {'L': 1}, 't': {'T': 1}}, out, param_dims_spec=pd)
    findings_from(S, ev, PROP, 'C15.dim', res)
    anchored = [nm for nm, d, _ in ev.outputs if nm in out and isinstance(d, Lin)]
    if len(anchored) < 12:
        raise AnalysisError('only %d Blake outputs resolved to a dimension (confirmed 13)' % len(anchored))
    res.obligations += S.constraints
    res.discharged += S.constraints - len(S.inconsistencies)
    res.evaluations += S.constraints
    res.nontrivial += S.nontrivial + S.checked
    res.extra['blake_parameter_dimensions'] = {k: S.show(v) for k, v in ev.param_vars.items()}


def hooke(model, res):
    cls = model.get_class(BLAKE)
    b = Builder(model)
    objn, ret = b.run_solver(cls)
    ev = NFEval(model.parameters_keys(cls) or [])
    sols = [l for l in phi_leaves(ret) if l.kind == 'call' and l.val == 'exactpack.base.ExactSolution']
    if len(sols) != 1:
        raise AnalysisError('Blake: expected one returned solution')
    sol = sols[0]
    env = {a.val: ev.nf(d) for a, d in zip(sol.args[1].args if len(sol.args) > 1 else sol.kw['names'].args, sol.args[0].args)}
    runm = cls.find_method('_run')
    for ident in HOOKE:
        need = {n.id for n in ast.walk(ast.parse(ident, mode='eval')) if isinstance(n, ast.Name)}
        missing = [x for x in need if x not in env and x not in (model.parameters_keys(cls) or [])]
        if missing:
            raise AnalysisError('Blake no longer returns / has %s' % missing)
        d = expr_nf(ev, ident, env)
        res.obligations += 1
        res.evaluations += 1
        res.nontrivial += 1
        bad = [(c, l) for c, l in leaves(d) if l is not NAN and not ev.is_zero(l)]
        if not bad:
            res.discharged += 1
            res.sample({'rule': 'C15.hooke-link', 'identity': ident + ' == 0', 'pieces': len(leaves(d))}, limit=30)
        else:
            res.add(Finding(PROP, 'C15.hooke-link', runm.module.relpath, runm.qualname, ident,
                            "Blake: the returned fields are not related by isotropic linear elasticity by construction: "
                            "`%s` does not normalise to 0 (residual %s)" % (ident, bad[0][1].key()[:240]),
                            line=getattr(sol.origin[1], 'lineno', 0), construct=ident))
    # causality mask: displacement and radial strain vanish under the same condition
    res.obligations += 1
    res.evaluations += 1
    d1, d2 = env.get('displacement'), env.get('strain_rr')
    if isinstance(d1, PW) and isinstance(d2, PW) and d1.ckey == d2.ckey and ev.is_zero(d1.b) and ev.is_zero(d2.b):
        res.discharged += 1
    else:
        res.add(Finding(PROP, 'C15.hooke-link', runm.module.relpath, runm.qualname, 'causality mask',
                        'Blake: displacement and radial strain are not masked to zero ahead of the wave front by the same '
                        'condition', line=runm.node.lineno, construct='np.where(cond, ...)'))


# ---------------------------------------------------------------------------
# the fifteen parameter-pair blocks

class BlockError(Exception):
    pass


def parse_dispatch(fn):
    """prmcase -> (first internal name, second internal name)"""
    table = {}

    def ns_key(st):
        if isinstance(st, ast.Assign) and len(st.targets) == 1 and isinstance(st.targets[0], ast.Subscript) \
                and src_of(st.targets[0].value) == 'ns' and isinstance(st.targets[0].slice, ast.Constant):
            return st.targets[0].slice.value
        return None

    def chain(st):
        out = []
        while isinstance(st, ast.If):
            out.append(st)
            st = st.orelse[0] if len(st.orelse) == 1 and isinstance(st.orelse[0], ast.If) else None
        return out
    top = None
    for st in fn.node.body:
        if isinstance(st, ast.If) and isinstance(st.test, ast.Compare) and src_of(st.test.left) == 'eky0':
            top = st
            break
    if top is None:
        raise AnalysisError('eky0 dispatch chain vanished from set_elastic_params')
    for br in chain(top):
        k0 = next((ns_key(s) for s in br.body if ns_key(s)), None)
        n0 = br.test.comparators[0].value
        if k0 != NAMES.get(n0):
            raise BlockError("dispatch stores '%s' under ns['%s']" % (n0, k0))
        for s in br.body:
            if isinstance(s, ast.If) and src_of(s.test.left) == 'eky1':
                for b2 in chain(s):
                    n1 = b2.test.comparators[0].value
                    case, k1 = None, None
                    for s2 in b2.body:
                        if isinstance(s2, ast.Assign) and src_of(s2.targets[0]) == 'prmcase':
                            case = s2.value.value
                        if ns_key(s2):
                            k1 = ns_key(s2)
                    if k1 != NAMES.get(n1):
                        raise BlockError("dispatch stores '%s' under ns['%s']" % (n1, k1))
                    if case in table:
                        raise BlockError('prmcase %s assigned to two parameter pairs' % case)
                    table[case] = (k0, k1)
    return table


def parse_blocks(fn):
    for st in fn.node.body:
        if isinstance(st, ast.If) and src_of(st.test).startswith('prmcase =='):
            blocks = {}
            cur = st
            while isinstance(cur, ast.If):
                blocks[cur.test.comparators[0].value] = cur
                cur = cur.orelse[0] if len(cur.orelse) == 1 and isinstance(cur.orelse[0], ast.If) else None
            return blocks
    raise AnalysisError('prmcase block chain vanished from set_elastic_params')


class BlockEval:
    def __init__(self, given):
        self.env = {k: None for k in NAMES.values()}
        self.env.update({'ipr': None, 'ips': None})
        self.sym = {}
        for k in given:
            self.sym[k] = sympy.Symbol(k, positive=True)
            self.env[k] = self.sym[k]
        self.given = given
        self.locals = {}
        self.checks = []
        self.problems = []

    def ev(self, e):
        if isinstance(e, ast.Constant) and isinstance(e.value, (int, float)):
            return sympy.nsimplify(e.value, rational=True)
        if isinstance(e, ast.Subscript) and src_of(e.value) == 'ns' and isinstance(e.slice, ast.Constant):
            v = self.env.get(e.slice.value)
            if v is None:
                raise BlockError("ns['%s'] is read before it is assigned" % e.slice.value)
            return v
        if isinstance(e, ast.Name):
            if e.id in self.locals:
                return self.locals[e.id]
            raise BlockError('unknown local %s' % e.id)
        if isinstance(e, ast.UnaryOp) and isinstance(e.op, ast.USub):
            return -self.ev(e.operand)
        if isinstance(e, ast.BinOp):
            a, b = self.ev(e.left), self.ev(e.right)
            if isinstance(e.op, ast.Add):
                return a + b
            if isinstance(e.op, ast.Sub):
                return a - b
            if isinstance(e.op, ast.Mult):
                return a * b
            if isinstance(e.op, ast.Div):
                return a / b
            if isinstance(e.op, ast.Pow):
                return a ** b
        if isinstance(e, ast.Call) and src_of(e.func) == 'pow' and len(e.args) == 2:
            return self.ev(e.args[0]) ** self.ev(e.args[1])
        if isinstance(e, ast.Tuple):
            return tuple(self.ev(x) if not isinstance(x, ast.Name) or x.id in self.locals else x.id for x in e.elts)
        raise BlockError('unsupported expression %s' % src_of(e)[:40])

    def run(self, stmts):
        for st in stmts:
            if isinstance(st, ast.Assign) and len(st.targets) == 1:
                t = st.targets[0]
                if isinstance(t, ast.Subscript) and src_of(t.value) == 'ns' and isinstance(t.slice, ast.Constant):
                    k = t.slice.value
                    if k in self.given:
                        self.problems.append("the given parameter ns['%s'] is overwritten" % k)
                    self.env[k] = self.ev(st.value)
                elif isinstance(t, ast.Name):
                    try:
                        self.locals[t.id] = self.ev(st.value)
                    except BlockError:
                        self.locals[t.id] = None      # names / values tuples used only in messages
            elif isinstance(st, ast.Expr) and isinstance(st.value, ast.Call):
                f = src_of(st.value.func)
                if f in CHECK_ARGS:
                    self.checks.append((f, st.value))
            elif isinstance(st, ast.If):
                pass      # guarded early terminations (term_*): raise or no effect on the values
            elif isinstance(st, ast.Expr):
                pass


def moduli_blocks(model, res):
    fn = model.get_func(SETFN)
    try:
        table = parse_dispatch(fn)
    except BlockError as e:
        res.add(Finding(PROP, 'C15.prmcase-defs', fn.module.relpath, fn.qualname, 'dispatch: %s' % e,
                        'set_elastic_params: %s' % e, line=fn.node.lineno, construct='eky0/eky1 dispatch'))
        return
    blocks = parse_blocks(fn)
    # exhaustiveness: the 15 unordered pairs of the six names, each exactly once
    res.obligations += 1
    res.evaluations += 1
    pairs = {frozenset(v) for v in table.values()}
    want = {frozenset(p) for p in itertools.combinations(NAMES.values(), 2)}
    if pairs != want or len(table) != 15 or set(table) != set(blocks):
        res.add(Finding(PROP, 'C15.prmcase-defs', fn.module.relpath, fn.qualname, 'pair coverage',
                        'set_elastic_params: the parameter-pair dispatch does not cover each of the 15 pairs exactly once '
                        '(missing %s; cases without block %s)' % (sorted(map(sorted, want - pairs)), sorted(set(table) - set(blocks))),
                        line=fn.node.lineno, construct='prmcase dispatch'))
    else:
        res.discharged += 1
    # tail: pk, pm from (plda, pg)
    for case in sorted(table):
        if case not in blocks:
            continue
        given = table[case]
        be = BlockEval(given)
        blk = blocks[case]
        res.obligations += 1
        res.evaluations += 1
        res.nontrivial += 1
        try:
            be.run(blk.body)
        except BlockError as e:
            res.add(Finding(PROP, 'C15.prmcase-defs', fn.module.relpath, fn.qualname, 'prmcase %d: %s' % (case, e),
                            'set_elastic_params, prmcase %d (given %s): %s' % (case, given, e), line=blk.lineno,
                            construct='prmcase == %d' % case))
            continue
        problems = list(be.problems)
        for k in ('plda', 'pg', 'pe', 'pnu'):
            if be.env.get(k) is None:
                problems.append("ns['%s'] is not assigned" % k)
        if problems:
            res.add(Finding(PROP, 'C15.prmcase-defs', fn.module.relpath, fn.qualname, 'prmcase %d: %s' % (case, problems[0]),
                            'set_elastic_params, prmcase %d (given %s): %s' % (case, given, '; '.join(problems)), line=blk.lineno,
                            construct='prmcase == %d' % case))
            continue
        L, G = be.env['plda'], be.env['pg']
        K = be.env['pk'] if be.env['pk'] is not None else L + sympy.Rational(2, 3) * G
        M = be.env['pm'] if be.env['pm'] is not None else L + 2 * G
        ids = {
            'youngs_mod == G(3L+2G)/(L+G)': be.env['pe'] - G * (3 * L + 2 * G) / (L + G),
            'poisson_ratio == L/(2(L+G))': be.env['pnu'] - L / (2 * (L + G)),
            'bulk_mod == L + 2G/3': K - (L + sympy.Rational(2, 3) * G),
            'long_mod == L + 2G': M - (L + 2 * G),
        }
        failed = [nm for nm, ex in ids.items() if not is_zero(ex)]
        if failed:
            res.add(Finding(PROP, 'C15.moduli-identities', fn.module.relpath, fn.qualname,
                            'prmcase %d: %s' % (case, failed[0]),
                            "set_elastic_params, prmcase %d (given %s): the six moduli the block produces do not describe one "
                            "isotropic material: %s fails as an algebraic identity in the two given parameters"
                            % (case, given, ', '.join(failed)), line=blk.lineno, construct='prmcase == %d' % case))
        else:
            res.discharged += 1
            res.sample({'rule': 'C15.moduli-identities', 'prmcase': case, 'given': list(given), 'identities': 4}, limit=40)
        # check_* pairing
        res.obligations += 1
        res.evaluations += 1
        if len(be.checks) != 1:
            res.add(Finding(PROP, 'C15.check-pairing', fn.module.relpath, fn.qualname, 'prmcase %d: %d positive-definiteness checks'
                            % (case, len(be.checks)), 'set_elastic_params, prmcase %d calls %d of check_ii..check_v (exactly one '
                            'is required)' % (case, len(be.checks)), line=blk.lineno, construct='prmcase == %d' % case))
            continue
        fname, call = be.checks[0]
        want_vals = CHECK_ARGS[fname]
        args = call.args
        ok = len(args) >= 5
        why = ''
        if ok:
            for (nm_arg, val_arg), wantk in zip(((args[1], args[2]), (args[3], args[4])), want_vals):
                vs = src_of(val_arg)
                if vs != "ns['%s']" % wantk:
                    ok, why = False, '%s receives %s where the value of %s is expected' % (fname, vs, wantk)
                    break
                ns_ = src_of(nm_arg)
                exp = None
                if wantk == given[0]:
                    exp = 'eky0'
                elif wantk == given[1]:
                    exp = 'eky1'
                else:
                    exp = "ivar_pnms['%s']" % wantk
                if ns_ != exp:
                    ok, why = False, '%s labels the value %s with the name %s (expected %s)' % (fname, vs, ns_, exp)
                    break
        if ok:
            res.discharged += 1
        else:
            res.add(Finding(PROP, 'C15.check-pairing', fn.module.relpath, fn.qualname, 'prmcase %d: %s' % (case, why),
                            'set_elastic_params, prmcase %d: %s' % (case, why), line=call.lineno, construct=src_of(call)[:100]))


def run(model, tier):
    res = Result(PROP)
    res.explanation = (
        'Four clauses. (i) Dimension inference of Blake._run (13 output fields). (ii) By-construction links of the returned '
        'fields (normal forms): hoop strain = u/r, volumetric strain = e_r + 2 e_q, Hooke with (lambda + 2G, lambda), '
        'pressure = -(s_r + 2 s_q)/3, deviators, density = rho0/(1 + e_vol), current position, and the same causality mask '
        'on displacement and radial strain. (iii) set_elastic_params: the dispatch covers each of the 15 unordered pairs '
        'of the six elastic parameters exactly once; in each prmcase block (interpreted symbolically over the two given '
        'parameters, exact rational / square-root arithmetic) the given names are never overwritten, plda, pg, pe, pnu are '
        'assigned before use, and the resulting six moduli satisfy E = G(3L+2G)/(L+G), nu = L/(2(L+G)), K = L + 2G/3, '
        'M = L + 2G as algebraic identities in the two given parameters (so they describe one material and reproduce the '
        'given values). (iv) each block calls exactly one positive-definiteness check with (name, value) arguments that '
        'refer to the same modulus. That radstrn is d(displ)/dr, the elastic wave equation, the cavity-wall condition and continuity at the wave front are '
        'decided by sa/rules/c15_wave.py (normal-form differentiation).')
    res.rule_text = 'instances: dimension constraints, field identities, 15 blocks x (definitions, 4 identities, check pairing)'
    res.trusted_base = ['CPython ast', 'sympy polynomial arithmetic (cancel/expand)', 'NF engine']
    hooke(model, res)
    moduli_blocks(model, res)
    try:
        blake_dims(model, res)
    except AnalysisError as e:
        if not res.findings:
            raise
        # the fields are already reported as not following from the instance's moduli; the
        # dimension pass then has nothing to anchor on
        res.notes.append('dimension pass skipped: %s' % e)
    from . import c15_wave
    c15_wave.wave(model, res)
    return res
