"""C17 clause for Sedov: every base of a real (parameter-dependent) power in the similarity functions is positive
on the range of the similarity variable that is used, so densities / pressures are positive products and no
fractional power of a negative number (NaN) can occur.

`sedov_funcs_standard` raises four linear functions of v to exponents that depend on geometry, gamma and omega.
For each base of such a power, one of three proofs must apply:
  P1  the base is  (positive parameter expression) * max(tiny, X)  or  max(X, tiny)  with tiny > 0  -- positive by the clamp;
  P2  the base is  (positive parameter expression) * v  -- positive because the similarity variable is;
  P3  the base equals  (vstar - v) / (vstar - v2)  as an identity (vstar, v2 the constructor's attributes): positive
      exactly when v and v2 are on the same side of vstar, which is how the constructor chooses the range of v
      (standard: v0 <= v <= v2 < vstar; vacuum: vstar < v2 <= v <= vv), with v0 < v2 < vv decided as identities
      (v2 - v0 and vv - v2 are positive parameter expressions).
"positive parameter expression": for geometry in {1, 2, 3}, gamma = 1 + g, omega = geometry - w (g > 0, 0 < w <= geometry, the
ranges the constructor enforces), a rational function all of whose numerator and denominator coefficients in (g, w) are
non-negative and not all zero.
"""
import sympy as sp

from ..model import AnalysisError, src_of
from ..report import Finding
from ..nf import NAN, Mono, Sum, PW, Struct
from ..ratnf import NFSym, is_zero
from . import c11

PROP = 'C17'


def positive_expr(expr):
    """Sufficient: positive for geometry in {1,2,3}, gamma > 1, 0 <= omega < geometry."""
    g, w = sp.Symbol('g_', positive=True), sp.Symbol('w_', positive=True)
    for j in (1, 2, 3):
        e = sp.together(expr.subs({sp.Symbol('geometry'): j, sp.Symbol('gamma'): 1 + g, sp.Symbol('omega'): j - w}))
        num, den = sp.fraction(e)
        for part in (num, den):
            p = sp.Poly(sp.expand(part), g, w)
            cs = p.coeffs()
            if not cs or any(c < 0 for c in cs) and any(c > 0 for c in cs):
                return False
        sn = sp.Poly(sp.expand(num), g, w).coeffs()
        sd = sp.Poly(sp.expand(den), g, w).coeffs()
        if (all(c <= 0 for c in sn)) != (all(c <= 0 for c in sd)):
            return False
    return True


def sedov_bases(model, res):
    cx = c11.Ctx(model)
    b, h = cx.b, cx.h
    fi = cx.f_std
    ev = cx.ev()
    # re-evaluate with the clamps kept symbolic: each guard max(tiny, X) becomes a positive atom
    ev2 = c11.NFEval(cx.keys + ['v'])
    for nm in ('denom2', 'denom3'):
        n = h[nm]
        while n.kind == 'phi':
            n = n.args[2]
        if h[nm] is not n:
            ev2.memo[h[nm].nid] = ev2.nf(n)
            ev2.R.rat_memo[h[nm].nid] = ev2.R.ratval(n)
    clamp = {}
    for n in cx.guards:
        if not cx.mentions(n, cx.v):
            continue
        a = cx.guard_arg(ev2, n)
        if a is not None:
            clamp[n.nid] = 'param:clamp%d' % len(clamp)
            ev2.memo[n.nid] = ev2.atom(clamp[n.nid])
    # powers with parameter-dependent exponents inside sedov_funcs_standard(v)
    pows = [n for n in b.trace if n.kind == 'binop' and n.val == '**' and n.origin and n.origin[0] is fi
            and cx.mentions(n, cx.v) and cx.mentions(n.args[0], cx.v)]
    bases = {}
    for n in pows:
        try:
            e = ev2.R.ratval(n.args[1])
            ground = e.numer.is_ground and e.denom.is_ground and int(e.denom.LC) == 1
        except Exception:
            ground = False
        if ground:
            continue                                  # an integer power needs no positive base
        x = ev2.nf(n.args[0])
        if x is NAN or isinstance(x, (PW, Struct)):
            continue
        bases.setdefault(x.key(), (x, n))
    if len(bases) < 4:
        raise AnalysisError('sedov_funcs_standard: only %d bases of real powers found (confirmed: 4)' % len(bases))
    sy = NFSym(ev2)
    vsym = sy.atom('param:v')
    v2, vstar, v0, vv = (ev2.R.ratval(h[a]).as_expr() for a in ('v2', 'vstar', 'v0', 'vv'))

    def oblige(label, ok, msg, node):
        res.obligations += 1
        res.evaluations += 1
        res.nontrivial += 1
        at = node.origin[1] if getattr(node, 'origin', None) else None
        if ok:
            res.discharged += 1
            res.sample({'rule': 'C17.positive-base', 'base': label}, limit=20)
        else:
            res.add(Finding(PROP, 'C17.positive-base', fi.module.relpath, fi.qualname, label, msg,
                            line=getattr(at, 'lineno', 0) or fi.node.lineno, construct=src_of(at)[:120] if at is not None else 'def %s' % fi.name))
    params = {sy.atom('param:%s' % k): sp.Symbol(k) for k in ('geometry', 'gamma', 'omega')}
    for key, (x, n) in sorted(bases.items()):
        src = src_of(n.origin[1].left)[:40] if n.origin and hasattr(n.origin[1], 'left') else key[:40]
        try:
            ex = sy.conv(x).subs(params)
        except TypeError:
            ex = None
        how = None
        if ex is not None:
            clamps = [sy.atom(k) for k in clamp.values()]
            # P1 / P2: ex == P * (clamp or v) with P a positive parameter expression
            for atom_ in clamps + [vsym]:
                if atom_ in ex.free_symbols:
                    P = sp.simplify(ex / atom_)
                    if not (P.free_symbols - set(params.values())) and positive_expr(P):
                        how = 'P1 (clamped)' if atom_ is not vsym else 'P2 (multiple of v)'
                        break
            if how is None:
                # P3
                want = (vstar - vsym) / (vstar - v2)
                if sp.simplify(ex - want) == 0:
                    how = 'P3 ((vstar - v)/(vstar - v2))'
        oblige('base `%s` of a real power is positive: %s' % (src, how or 'not proven'), how is not None,
               "sedov_funcs_standard: the base `%s` of a power with a parameter-dependent exponent is not proven positive (it is not a "
               "positive multiple of a clamped quantity or of v, and not (vstar - v)/(vstar - v2)): for some admissible parameters the "
               "similarity functions can be NaN or negative" % src, n)
    # ordering of the integration limits
    oblige('v0 < v2 (standard range non-empty and below the shock value)', positive_expr(sp.simplify(v2 - v0)),
           'Sedov.__init__: v2 - v0 is not a positive parameter expression', h['v0'])
    oblige('v2 < vv (vacuum range non-empty)', positive_expr(sp.simplify(vv - v2)),
           'Sedov.__init__: vv - v2 is not a positive parameter expression', h['vv'])
