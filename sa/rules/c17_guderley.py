"""C17 clause "every shock is compressive" for Guderley's converging shock (exactpack/solvers/guderley/ramsey.py).

`state()` returns the undisturbed gas (`den = rho0`) ahead of the converging shock and, in every shocked branch,
physical fields rebuilt from the similarity variables (V, C, R) = y.  The shock is compressive for EVERY initial
density iff the density behind it is the density ahead of it times the similarity variable R (so the ratio across
the shock does not depend on rho0) and R starts, at the shock, from a value > 1 for every gamma > 1.  Decided here:

  (a) in each shocked branch of the `targetx` chain, den / (den of the unshocked branch) normalises to y[2];
  (b) the value y[2] holds when the integration starts at the shock is > 1 for gamma = 1 + d, d > 0.

That R keeps growing behind the shock is a property of the ODE solution (numeric) and is not decided.
"""
import ast

import sympy

from ..model import AnalysisError, src_of
from ..report import Finding

PROP = 'C17'
RULE = 'C17.guderley-shock'
STATE = 'exactpack.solvers.guderley.ramsey:state'


def _sym(node, env, depth=0):
    if depth > 30:
        raise AnalysisError('guderley state(): expression too deep')
    if isinstance(node, ast.Constant) and isinstance(node.value, (int, float)):
        return sympy.nsimplify(node.value, rational=True)
    if isinstance(node, ast.Name):
        if node.id in env:
            return env[node.id]
        return sympy.Symbol(node.id, positive=True)
    if isinstance(node, ast.Subscript) and isinstance(node.value, ast.Name):
        idx = node.slice
        if isinstance(idx, ast.Constant):
            return sympy.Symbol('%s_%s' % (node.value.id, idx.value), positive=True)
    if isinstance(node, ast.UnaryOp) and isinstance(node.op, (ast.USub, ast.UAdd)):
        v = _sym(node.operand, env, depth + 1)
        return -v if isinstance(node.op, ast.USub) else v
    if isinstance(node, ast.BinOp):
        a, b = _sym(node.left, env, depth + 1), _sym(node.right, env, depth + 1)
        if isinstance(node.op, ast.Add):
            return a + b
        if isinstance(node.op, ast.Sub):
            return a - b
        if isinstance(node.op, ast.Mult):
            return a * b
        if isinstance(node.op, ast.Div):
            return a / b
        if isinstance(node.op, ast.Pow):
            return a ** b
    raise AnalysisError('guderley state(): cannot read `%s`' % src_of(node)[:60])


def _mentions(node, name):
    return any(isinstance(n, ast.Name) and n.id == name for n in ast.walk(node))


def check(model, res):
    fi = model.get_func(STATE)
    if fi is None:
        raise AnalysisError('anchor vanished: %s' % STATE)
    fn = fi.node
    chain = None
    for st in fn.body:
        if isinstance(st, ast.If) and _mentions(st.test, 'targetx'):
            chain = st
            break
    if chain is None:
        raise AnalysisError('guderley state(): the if-chain over targetx vanished')
    # names assigned once at the top level of state() before the chain (gp1 = gamma + 1.0 ...)
    gamma_name = 'gamma'
    d = sympy.Symbol('d', positive=True)
    env = {gamma_name: 1 + d}
    y2_init = None
    for st in fn.body:
        if st is chain:
            break
        if isinstance(st, ast.Assign) and len(st.targets) == 1:
            t = st.targets[0]
            if isinstance(t, ast.Name) and t.id != gamma_name:
                try:
                    env[t.id] = _sym(st.value, env)
                except AnalysisError:
                    pass
            elif isinstance(t, ast.Subscript) and isinstance(t.value, ast.Name) and t.value.id == 'y' \
                    and isinstance(t.slice, ast.Constant) and t.slice.value == 2:
                y2_init = (st, _sym(st.value, env))
    branches = []
    cur = chain
    while True:
        branches.append((cur.test, cur.body))
        if len(cur.orelse) == 1 and isinstance(cur.orelse[0], ast.If):
            cur = cur.orelse[0]
        else:
            if cur.orelse:
                branches.append((None, cur.orelse))
            break
    dens = []
    for test, body in branches:
        for st in body:
            if isinstance(st, ast.Assign) and len(st.targets) == 1 and isinstance(st.targets[0], ast.Name) \
                    and st.targets[0].id == 'den':
                dens.append((test, st))
    ahead = [(t, s) for t, s in dens if not _mentions(s.value, 'y')]
    behind = [(t, s) for t, s in dens if _mentions(s.value, 'y')]
    if len(ahead) != 1 or len(behind) < 3:
        raise AnalysisError('guderley state(): %d unshocked and %d shocked density assignments (confirmed: 1 and 3)'
                            % (len(ahead), len(behind)))
    e0 = _sym(ahead[0][1].value, {})
    R = sympy.Symbol('y_2', positive=True)
    for test, st in behind:
        res.obligations += 1
        res.evaluations += 1
        res.nontrivial += 1
        ratio = sympy.simplify(_sym(st.value, {}) / e0)
        if sympy.simplify(ratio - R) == 0:
            res.discharged += 1
            res.sample({'rule': RULE, 'branch': src_of(test)[:40] if test is not None else 'else',
                        'identity': 'den / den_ahead == y[2]'}, limit=40)
        else:
            res.add(Finding(PROP, RULE, fi.module.relpath, 'state',
                            'density ratio in the branch %s' % (src_of(test)[:40] if test is not None else 'else'),
                            "guderley state(): in the branch `%s` the density is `%s` while the gas ahead of the converging shock "
                            "has `%s`: the ratio behind/ahead is %s instead of the similarity variable y[2] alone, so it depends on "
                            "the initial density: for a suitable rho0 the gas behind the shock is less dense than the gas it came "
                            "from (a shock that is not compressive)"
                            % (src_of(test)[:40] if test is not None else 'else', src_of(st.value)[:60],
                               src_of(ahead[0][1].value)[:40], ratio),
                            line=st.lineno, construct=src_of(st)[:120]))
    res.obligations += 1
    res.evaluations += 1
    res.nontrivial += 1
    if y2_init is None:
        raise AnalysisError('guderley state(): the starting value y[2] = ... before the targetx chain vanished')
    st, v = y2_init
    num, den = sympy.fraction(sympy.together(sympy.simplify(v - 1)))
    ok = bool(sympy.expand(num).is_positive and sympy.expand(den).is_positive) or bool((v - 1).is_positive)
    if ok:
        res.discharged += 1
        res.sample({'rule': RULE, 'identity': 'y[2] at the shock = %s > 1 for gamma = 1 + d, d > 0' % v}, limit=40)
    else:
        res.add(Finding(PROP, RULE, fi.module.relpath, 'state', 'starting density ratio',
                        "guderley state(): the integration behind the converging shock starts from y[2] = `%s` = %s (gamma = 1 + d), "
                        "which is not shown to exceed 1 for every gamma > 1: the density jump across the shock is not compressive "
                        "(the strong-shock value is (gamma + 1)/(gamma - 1))" % (src_of(st.value)[:60], v),
                        line=st.lineno, construct=src_of(st)[:120]))
