"""C01 -- the closed-form solutions satisfy their governing equations (PDE residuals by
syntax-directed differentiation of the returned expressions).

Scope: the solvers whose returned fields are explicit expressions of (r, t) and the parameters
(Noh, Noh2, Noh2Cog, the twenty Coggeshall solutions, ...).  For each smooth piece of each
solution the value-graph expressions of density, velocity, pressure, specific internal energy
(and temperature) are normalised, differentiated with respect to r and t AT THE NORMAL-FORM
LEVEL (power rule with exponents in Q(parameters), product and chain rule through sum atoms;
an opaque factor that depends on r or t makes the class undecided, never 'constant'), and the
residuals of

    rho_t + u rho_r + rho u_r + k rho u / r                                   (mass)
    u_t + u u_r + p_r / rho                                                   (momentum)
    rho (e_t + u e_r) + p (u_r + k u / r) + (F_r + k F / r)                   (energy)

with the documented diffusion flux  F = -(4 c a lambda0 / 3) rho^alpha T^(beta+3) T_r  where the
solution has one, must reduce to 0 as rational functions with canonical parameter-dependent
exponents.  Nothing is evaluated; the identity holds for every point, time, geometry and parameter
value.  Sedov, Guderley, the Riemann fans of the general EOS and EHEP (region lookup through
matplotlib paths) are integrated / assembled numerically and are not decided.
"""
from fractions import Fraction

from ..model import AnalysisError, src_of
from ..report import Result, Finding
from ..vg import Builder
from ..nf import NFEval, NAN, Mono, Sum, PW, Struct, leaves, DiffUnsupported
from ..ratnf import NFSym, is_zero
from ..radnf import RadNF, Unsupported
import sympy as sp
from ..dimcheck import load_spec
from .c05 import phi_leaves

LEVEL = 'other'
PROP = 'C01'
R, T = 'input:r', 'input:t'


def field_leaves(x):
    """[(conds, leaf)] without the NaN pieces (t <= 0: documented 'no solution')."""
    return [(c, l) for c, l in leaves(x) if l is not NAN]


def expr_field(ev, text):
    """An exponent expression over the parameters -> element of the exponent field."""
    import ast as _ast

    def go(n):
        if isinstance(n, _ast.Constant):
            return ev.S.F(Fraction(repr(n.value)) if isinstance(n.value, float) else n.value)
        if isinstance(n, _ast.Name):
            if n.id not in ev.S.syms:
                raise AnalysisError('flux exponent uses %s, which is not a parameter' % n.id)
            return ev.S.syms[n.id]
        if isinstance(n, _ast.UnaryOp) and isinstance(n.op, _ast.USub):
            return -go(n.operand)
        if isinstance(n, _ast.BinOp):
            a, b2 = go(n.left), go(n.right)
            return {_ast.Add: lambda: a + b2, _ast.Sub: lambda: a - b2, _ast.Mult: lambda: a * b2,
                    _ast.Div: lambda: a / b2}[type(n.op)]()
        raise AnalysisError('unsupported exponent expression %r' % text)
    return go(_ast.parse(text, mode='eval').body)


def check_class(model, cname, opts, res, stats):
    cls = model.get_class(cname)
    b = Builder(model)
    objn, ret = b.run_solver(cls)
    keys = list(model.parameters_keys(cls) or [])
    ev = NFEval(keys)
    if opts.get('flux') and opts['flux'].get('lambda0'):
        # the solver's own radiation constants: opaque atoms (the identity must hold whatever their values)
        runm0 = cls.find_method('_run')
        found = set()
        for func, tnode, vnode in b.assign_log:
            if func is runm0 and tnode.id in ('c', 'a') and vnode.kind == 'const':
                ev.memo[vnode.nid] = ev.atom('const:%s' % tnode.id)
                found.add(tnode.id)
        if found != {'c', 'a'}:
            raise AnalysisError('%s: local radiation constants c, a not found in _run' % cname)
    for nm in opts.get('negative', []):
        for n in b.trace:
            if n.kind == 'param' and n.val == nm:
                ev.memo[n.nid] = ev.mul(ev.num(-1), ev.atom('param:-%s' % nm))
    # sign region: the identities are proved on the connected parameter region that contains the class
    # defaults (and the sample point r = 0.7, t = 0.3) and on which no base of a power changes sign
    sample = {'input:r': sp.Rational(7, 10), 'input:t': sp.Rational(3, 10), 'const:c': sp.Integer(1), 'const:a': sp.Integer(1)}
    sample.update({k: sp.nsimplify(v) for k, v in (opts.get('sample') or {}).items()})
    import ast as _ast
    for kname in keys:
        owner, val = cls.find_attr(kname)
        try:
            sample['param:%s' % kname] = sp.nsimplify(_ast.literal_eval(_ast.unparse(val)), rational=True)
        except Exception:
            pass
    for nm in opts.get('negative', []):
        if 'param:%s' % nm in sample:
            sample['param:-%s' % nm] = -sample['param:%s' % nm]
    ev.sample = sample
    sols = [l for l in phi_leaves(ret) if l.kind == 'call' and l.val == 'exactpack.base.ExactSolution']
    if not sols:
        raise AnalysisError('no ExactSolution returned by %s' % cname)
    sol = sols[-1]
    data = sol.args[0] if sol.args else sol.kw.get('data')
    names = sol.args[1] if len(sol.args) > 1 else sol.kw.get('names')
    env = {a.val: ev.nf(d) for a, d in zip(names.args, data.args)}
    # in-place updates of fields of the returned solution (Noh2Cog: soln.velocity *= -1)
    from ..vg import walk
    for n in b.trace:
        if n.kind == 'attrstore' and n.args and n.args[0] is sol and n.val in env:
            for m in walk(n.args[1]):
                if m.kind == 'attr' and m.args and m.args[0] is sol and m.val in env:
                    ev.memo[m.nid] = env[m.val]
            env[n.val] = ev.nf(n.args[1])
    need = ['density', 'velocity', 'pressure', 'specific_internal_energy']
    if any(n not in env for n in need):
        raise AnalysisError('%s does not return %s' % (cname, [n for n in need if n not in env]))
    # geometry factor k
    if 'k' in opts:
        kk = ev.num(opts['k'])
    elif 'geometry' in keys:
        kk = ev.field_nf(ev.S.syms['geometry'] - 1)
    else:
        raise AnalysisError('%s: geometry factor unknown' % cname)
    runm = cls.find_method('_run')
    # pieces: the cartesian structure of the piecewise fields (same conditions in all fields)
    pieces = {}
    for nm in need + (['temperature'] if 'temperature' in env else []):
        for conds, leaf in field_leaves(env[nm]):
            key = tuple((ck, pol) for ck, pol, _ in conds)
            pieces.setdefault(key, {})[nm] = leaf
    full = {k: v for k, v in pieces.items() if all(n in v for n in need)}
    if not full:
        # fields with different piece structure (e.g. a constant field): broadcast the unconditional ones
        uncond = {nm: l for nm in env for c, l in field_leaves(env[nm]) if not c}
        for k, v in pieces.items():
            vv = dict(uncond)
            vv.update(v)
            if all(n in vv for n in need):
                full[k] = vv
    if not full:
        raise AnalysisError('%s: piece structure of the fields not recognised' % cname)
    sy = NFSym(ev)
    def orient(f):
        vals = {}
        for sname, symb in sy.syms.items():
            if symb in f.free_symbols:
                if sname in sample:
                    vals[symb] = sample[sname]
                elif sname.startswith('pow[') or sname.startswith('const:'):
                    vals[symb] = sp.Integer(1)        # opaque positive quantities
                else:
                    return 1
        try:
            v = f.subs(vals)
            return -1 if v.is_number and v < 0 else 1
        except Exception:
            return 1
    sy.orient = orient
    rinv = ev.power(ev.atom(R), ev.S.F(-1))
    flux = opts.get('flux')
    for pkey, f in sorted(full.items(), key=lambda kv: str(kv[0])):
        rho, u, p, e = (f[n] for n in need)
        label = ' and '.join(('%s' if pol else 'not %s') % ck for ck, pol in pkey)[:80] or 'everywhere'
        try:
            d = lambda x, v: ev.diff(x, v)
            div_u = ev.add(d(u, R), ev.mul(ev.mul(kk, u), rinv))
            mass = ev.add(ev.add(d(rho, T), ev.mul(u, d(rho, R))), ev.mul(rho, div_u))
            mom = ev.add(ev.add(d(u, T), ev.mul(u, d(u, R))), ev.mul(d(p, R), ev.power(rho, ev.S.F(-1))))
            en = ev.add(ev.mul(rho, ev.add(d(e, T), ev.mul(u, d(e, R)))), ev.mul(p, div_u))
            eqs = [('mass', mass), ('momentum', mom)]
            if flux:
                Tm = f.get('temperature')
                if Tm is None:
                    raise AnalysisError('%s: flux declared but no temperature field' % cname)
                ae = expr_field(ev, flux['alpha'])
                be = expr_field(ev, flux['beta'])
                core = ev.mul(ev.mul(ev.power(rho, ae), ev.power(Tm, be + 3)), d(Tm, R))      # rho^alpha T^(beta+3) T_r
                divF = ev.add(d(core, R), ev.mul(ev.mul(kk, core), rinv))
                if flux.get('coefficient') == 'free':
                    # no lambda0 in the solution: the hydrodynamic part and the flux divergence vanish separately
                    eqs.append(('energy (hydrodynamic part)', en))
                    eqs.append(('heat-flux divergence', divF))
                else:
                    coef = ev.mul(ev.num(Fraction(-4, 3)), ev.mul(ev.atom('const:c'), ev.atom('const:a')))
                    coef = ev.mul(coef, ev.atom('param:%s' % flux['lambda0']))
                    eqs.append(('energy with heat flux', ev.add(en, ev.mul(coef, divF))))
            else:
                eqs.append(('energy', en))
        except DiffUnsupported as ex:
            stats['undecided'].append('%s [%s]: %s' % (cls.name, label, ex))
            continue
        for ename, x in eqs:
            res.obligations += 1
            res.evaluations += 1
            res.nontrivial += 1
            ok = False
            n_amb = len(sy.ambiguous)
            if x is not NAN and not isinstance(x, (PW, Struct)):
                undecidable = False
                try:
                    cx = sy.conv(x)
                    ok = is_zero(cx)
                    if not ok and cx.has(sp.Pow) and any(p.exp.is_Rational and not p.exp.is_Integer for p in cx.atoms(sp.Pow)):
                        # square roots of products: the radical normal form relates sqrt(A B) and sqrt(A) sqrt(B)
                        try:
                            rn = RadNF(sy.units)
                            rn.orient = orient
                            ok = rn.is_zero(cx)
                        except Unsupported:
                            undecidable = True
                except TypeError:
                    ok = False
                if undecidable and not ok:
                    sy.ambiguous.append('radical of a quantity of undetermined sign')
            if not ok and len(sy.ambiguous) > n_amb:
                # a power of a product whose sign structure the expression does not determine: not decided
                res.obligations -= 1
                res.evaluations -= 1
                res.nontrivial -= 1
                stats['undecided'].append('%s [%s] %s: sign of a base under a parameter-dependent power not determined (%s)'
                                          % (cls.name, label, ename, sy.ambiguous[-1][:80]))
                continue
            if ok:
                res.discharged += 1
                res.sample({'solver': cls.name, 'piece': label, 'equation': ename + ' residual == 0'}, limit=80)
            else:
                res.add(Finding(PROP, 'C01.pde', runm.module.relpath, runm.qualname,
                                '%s: %s [%s]' % (cls.name, ename, label),
                                "%s: the returned fields do not satisfy the %s equation on the piece `%s`: the residual, "
                                "differentiated symbolically from the returned expressions, does not reduce to 0 "
                                "(normal form: %s)" % (cls.name, ename, label, x.key()[:260] if x is not NAN and not isinstance(x, (PW, Struct)) else 'undefined'),
                                line=runm.node.lineno, construct='def _run'))
    res.analysed.append(cname)


def run(model, tier):
    res = Result(PROP)
    res.explanation = (
        'PDE residuals of the closed-form solutions by syntax-directed differentiation. For each solver whose returned '
        'fields are explicit expressions of (r, t) and the parameters, the normal forms of density, velocity, pressure, '
        'specific internal energy (and temperature) are differentiated at the normal-form level (power rule with '
        'exponents in Q(parameters), product rule, chain rule through sum atoms; an opaque factor that depends on r or t '
        'makes the piece undecided) and the residuals of the mass, momentum and energy equations in geometry k (with the '
        'documented diffusion flux where the solution has one) must reduce to 0 as rational functions with canonical '
        'parameter-dependent exponents: the equations then hold for all points, times, geometries and parameter values. '
        'Also decided here: the ideal-gas rarefaction-fan formulas of the 1D Riemann solver satisfy the Euler equations in (x, t), '
        'every fan of both 1D solvers uses the sound speed of its own state, and the Sedov interior (similarity functions in '
        'parametric form, standard / omega2 / omega3 branches) satisfies the Euler equations in geometry j (the C04 / C11 rules). '
        'The escape-of-HE-products formulas of regions I-V (each branch of the region chain executed with symbolic (x, t)) satisfy '
        'the planar Euler equations for gamma = 3. Guderley: with (V, C, R) function symbols whose x-derivatives are declared to be '
        'the coded right-hand side g, the coded transformation to physical variables satisfies the Euler equations in geometry n '
        '(Lazarus time) in each integrating branch of state(); f is the same system; the adiabatic integral is a first integral. '
        'The numerical integrations themselves (Guderley eigenvalues, general-EOS fans) and the EHEP region selection (polygon '
        'tests) are not decided.')
    res.rule_text = 'instance = one conservation equation on one smooth piece of one solver'
    res.trusted_base = ['CPython ast', 'sympy expand / FracField', 'value-graph builder', 'spec/pde_scope.json']
    spec = load_spec('pde_scope.json')
    stats = {'undecided': []}

    def closed_forms(part):
        for cname, opts in spec['classes'].items():
            check_class(model, cname, opts, part, stats)
        part.extra['undecided_pieces'] = stats['undecided']

    def riemann(part):
        # the ideal-gas fan formulas (both sides) satisfy the Euler equations in (x, t); every fan of both 1D solvers is
        # placed with u -+ a of ONE state (a fan placed with the sound speed of another state is not a simple wave)
        from . import c04, c09
        c04.fans(model, part, only_pde=True)
        from . import c04_geneos
        c04_geneos.fans(model, part, prop=PROP, rule='C01.pde')
        c09.side_consistency(model, part, prop=PROP, rule='C01.side-consistency',
                             callees=('sound_speed', 'rho_p_u_rarefaction', 'rho_star_rarefaction', 'rarefaction'), min_calls=8,
                             why='the fan is then not a centred simple wave of its own state and violates the Euler equations')

    from . import c11
    from ..par import run_parallel
    def ehep(part):
        from . import c01_ehep
        c01_ehep.regions(model, part)

    def guderley(part):
        from . import c01_guderley
        c01_guderley.similarity(model, part)

    def riemann2d(part):
        from . import c01_riemann2d
        c01_riemann2d.fans(model, part)

    tasks = [(closed_forms, ()), (riemann, ()), (ehep, ()), (guderley, ()), (riemann2d, ())] + c11.interior_pde_tasks(model)
    run_parallel(tasks, res)
    for f in res.findings:
        if f.prop != PROP:
            f.prop = PROP
            f.rule = 'C01.' + f.rule.split('.', 1)[1]
    if res.obligations < spec.get('min_obligations', 1):
        raise AnalysisError('only %d PDE obligations (confirmed: %d)' % (res.obligations, spec.get('min_obligations')))
    return res
