"""C01 clause for the Guderley solver: the coded similarity ODEs together with the coded transformation back to
physical variables ARE the Euler equations.

`state()` integrates (V, C, R)(x) with `solve_ivp(g, ...)` (numerical, not decided) and returns
    rho = rho0 R,  u = V r^(1-lambda) / (-lambda x),  c = C r^(1-lambda) / (-lambda x),  p = rho c^2 / gamma,
    e = p / ((gamma-1) rho)                                         with  x = tau / r^lambda  (tau: Lazarus time).
Here V, C, R are function symbols whose x-derivatives are DECLARED to be the right-hand sides of `g` (executed
symbolically with the module globals `state` sets).  The mass, momentum and energy residuals in geometry
nu = n - 1, with  d/dtau = r^-lambda d/dx  and  d/dr = d/dr|_x - (lambda x / r) d/dx,  must vanish identically in
(r, x, V, C, R, gamma, lambda, n): then ANY solution of the coded ODE system, transformed as coded, solves the
PDEs -- in every one of the three branches of `state` that integrate.  The sibling right-hand side `f` (used for
the eigenvalue search) must be the same system (and, for its second pass, the same system in w with
dw/dx = -sigma w / x).  Time is Lazarus time, as the docstring of `state` says; the accuracy of the integration
and of the eigenvalues lambda, B is not decided.
"""
import ast

from ..model import AnalysisError, src_of
from ..report import Finding
from ..vg import Builder, Frame
from ..nf import NFEval, NAN, Mono, Sum, PW, Struct, DiffUnsupported
from ..ratnf import NFSym, is_zero
from ..radnf import RadNF, Unsupported

PROP = 'C01'
GUD = 'exactpack.solvers.guderley.ramsey'
RENAME = {'gamma_d': 'gamma', 'lambda_d': 'lambda_', 'n': 'ngeom', 'targetxd': 'xs'}
XS, RK = 'param:xs', 'param:r'


def _closed(x):
    return not (x is NAN or isinstance(x, (PW, Struct)))


def similarity(model, res):
    fi = model.get_func('%s:state' % GUD)
    gi = model.get_func('%s:g' % GUD)
    ff = model.get_func('%s:f' % GUD)
    b = Builder(model)
    b.frame = Frame(None, fi.module, {}, None)
    args = [b.mk('param', RENAME.get(a.arg, a.arg)) for a in fi.node.args.args]
    b.run_function(fi, args)
    # the integrated state vectors: values assigned to `y` from the integrator's result
    ynodes = [v for func, tnode, v in b.assign_log if func is fi and tnode.id == 'y' and v.kind not in ('call',) and
              any(w.kind == 'call' and str(w.val).endswith('solve_ivp') for w in _walk(v))]
    if len(ynodes) < 3:
        raise AnalysisError('guderley.state: integrated state vectors not found (%d)' % len(ynodes))
    ev = NFEval(['gamma', 'lambda_', 'ngeom'])
    V, C, R = (ev.atom('param:%s' % k) for k in ('V', 'C', 'R'))
    ysub = {}
    for n in b.trace:
        if n.kind == 'sub' and n.args[0] in ynodes and n.args[1].kind == 'const' and n.args[1].val in (0, 1, 2):
            ev.memo[n.nid] = (V, C, R)[n.args[1].val]
            ysub.setdefault(id(n.args[0]), set()).add(n.args[1].val)
    # right-hand side g(x, (V, C, R)) with the globals as `state` left them
    xs = args[[a.arg for a in fi.node.args.args].index('targetxd')]
    ytuple = b.mk('tuple', args=[b.mk('param', k) for k in ('V', 'C', 'R')])
    b.frame = Frame(None, fi.module, {}, None)
    yp = b.run_function(gi, [xs, ytuple])
    rhs = [ev.nf(b.mk('sub', args=[yp, b.const(i)])) for i in range(3)]
    if not all(_closed(x) for x in rhs):
        raise AnalysisError('guderley.g: right-hand sides are not closed forms')
    for k, d in zip(('V', 'C', 'R'), rhs):
        ev.derivs['param:%s' % k] = {XS: d}
    sy = NFSym(ev)

    def zero(x):
        if not _closed(x):
            return False
        try:
            cx = sy.conv(x)
            if is_zero(cx):
                return True
            try:
                return RadNF(sy.units).is_zero(cx)
            except Unsupported:
                return False
        except TypeError:
            return False

    def oblige(fn, label, ok, msg, at=None):
        res.obligations += 1
        res.evaluations += 1
        res.nontrivial += 1
        if ok:
            res.discharged += 1
            res.sample({'function': fn.qualname, 'identity': label}, limit=80)
        else:
            res.add(Finding(PROP, 'C01.pde', fn.module.relpath, fn.qualname, label, msg,
                            line=getattr(at, 'lineno', 0) or fn.node.lineno, construct=src_of(at) if at is not None else 'def %s' % fn.name))
    # the three integrating branches of state(): values of den, vel, pres, sie assigned after each integration
    lam = ev.S.syms['lambda_']
    nu = ev.field_nf(ev.S.syms['ngeom'] - 1)
    x = ev.atom(XS)
    r = ev.atom(RK)
    inv = lambda v: ev.power(v, ev.S.F(-1))
    dxdt = ev.power(r, -lam)                                        # d x / d tau at fixed r
    dxdr = ev.mul(ev.mul(ev.field_nf(-lam), x), inv(r))             # d x / d r at fixed tau
    branches = []
    for st in ast.walk(fi.node):
        if isinstance(st, ast.If):
            node = st
            while True:
                names = {s2.targets[0].id: s2 for s2 in node.body if isinstance(s2, ast.Assign) and isinstance(s2.targets[0], ast.Name)}
                if {'den', 'vel', 'pres', 'sie'} <= set(names) and any(isinstance(c, ast.Call) and src_of(c.func).endswith('solve_ivp')
                                                                      for s2 in node.body for c in ast.walk(s2)):
                    branches.append((node, names))
                if len(node.orelse) == 1 and isinstance(node.orelse[0], ast.If):
                    node = node.orelse[0]
                    continue
                break
            break
    if len(branches) != 3:
        raise AnalysisError('guderley.state: expected three integrating branches, found %d' % len(branches))
    tids = {}
    for node, names in branches:
        for k in ('den', 'vel', 'pres', 'sie'):
            tids[id(names[k].targets[0])] = (node, k)
    vals = {}
    for func, tnode, v in b.assign_log:
        if id(tnode) in tids:
            vals[tids[id(tnode)]] = v
    for bi, (node, names) in enumerate(branches):
        cond = src_of(node.test)
        try:
            rho, u, p, e = (ev.nf(vals[(node, k)]) for k in ('den', 'vel', 'pres', 'sie'))
        except KeyError:
            raise AnalysisError('guderley.state: branch `%s` values not found' % cond)
        if not all(_closed(v) for v in (rho, u, p, e)):
            raise AnalysisError('guderley.state: branch `%s` fields are not closed forms' % cond)
        try:
            d = ev.diff
            Dt = lambda F: ev.mul(d(F, XS), dxdt)
            Dr = lambda F: ev.add(d(F, RK), ev.mul(d(F, XS), dxdr))
            div_u = ev.add(Dr(u), ev.mul(ev.mul(nu, u), inv(r)))
            mass = ev.add(ev.add(Dt(rho), ev.mul(u, Dr(rho))), ev.mul(rho, div_u))
            mom = ev.add(ev.add(Dt(u), ev.mul(u, Dr(u))), ev.mul(Dr(p), inv(rho)))
            en = ev.add(ev.add(Dt(e), ev.mul(u, Dr(e))), ev.mul(ev.mul(p, inv(rho)), div_u))
        except DiffUnsupported as ex:
            raise AnalysisError('guderley.state: branch `%s` cannot be differentiated: %s' % (cond, ex))
        for label, val in (('mass', mass), ('momentum', mom), ('energy', en)):
            oblige(fi, 'branch `%s`: %s equation' % (cond, label), zero(val),
                   "guderley: with (V, C, R)' = g(x, V, C, R) as coded and the transformation to physical variables of the branch "
                   "`%s` of state(), the %s equation (geometry n, Lazarus time) is not satisfied: the similarity ODEs or the "
                   "transformation are not the similarity reduction of the Euler equations" % (cond, label), at=names['vel'])
    # f is the same system (first pass), and the same system in w (second pass)
    for intno, what in ((1, 'x'), (2, 'w')):
        b.frame = Frame(None, fi.module, {}, None)
        mod = fi.module
        saved = {}
        try:
            gv = b.gvars
        except AttributeError:
            gv = None
        if gv is None:
            break
        key_i, key_s = (mod.name, 'intno'), (mod.name, 'sigma')
        saved = {k: gv.get(k) for k in (key_i, key_s)}
        gv[key_i] = b.const(intno)
        gv[key_s] = b.mk('param', 'sigma')
        ypf = b.run_function(ff, [xs, ytuple])
        for k, v in saved.items():
            if v is None:
                gv.pop(k, None)
            else:
                gv[k] = v
        evf = NFEval(['gamma', 'lambda_', 'ngeom'])
        syf = NFSym(evf)
        ok = True
        for i in range(3):
            a = evf.nf(b.mk('sub', args=[ypf, b.const(i)]))
            g_i = evf.nf(b.mk('sub', args=[yp, b.const(i)]))
            if intno == 2:
                # d/dw = (d/dx) / (dw/dx),  dw/dx = -sigma w / x  with the independent variable renamed
                g_i = evf.mul(g_i, evf.power(evf.mul(evf.num(-1), evf.atom('param:sigma')), evf.S.F(-1)))
            if not (_closed(a) and _closed(g_i)):
                ok = False
                break
            try:
                cxx = syf.conv(evf.add(a, g_i, -1))
                if not is_zero(cxx):
                    ok = False
            except TypeError:
                ok = False
        oblige(ff, 'f (pass %d, independent variable %s) is the system g%s' % (intno, what, '' if intno == 1 else ' divided by dw/dx = -sigma w/x'),
               ok, "guderley.f (used to find the reflected-shock position B) is not the same ODE system as g (used to produce the "
               "returned fields)%s: B is then not the position at which the returned flow meets the reflected shock"
               % ('' if intno == 1 else ' in the variable w'))
    # the adiabatic integral (Lazarus 2.7) used as the accuracy diagnostic is a first integral of the coded system
    fe = model.get_func('%s:energy' % GUD)
    if fe is not None:
        b.frame = Frame(None, fi.module, {}, None)
        gam_n = b.mk('param', 'gamma')
        lam_n = b.mk('param', 'lambda_')
        nu_n = b.mk('binop', '-', [b.mk('param', 'ngeom'), b.const(1)])
        out = b.run_function(fe, [xs, ytuple, gam_n, lam_n, nu_n, b.mk('param', 'energy0')])
        from ..nf import leaves
        val = ev.nf(out)
        cand = [leaf for conds, leaf in leaves(val) if _closed(leaf) and not (isinstance(leaf, Mono) and leaf.coef == 0)]
        ok = False
        if len(cand) == 1:
            try:
                ok = zero(ev.diff(cand[0], XS))
            except DiffUnsupported:
                ok = False
        oblige(fe, 'energy(): (C/x)^2 (1+V)^q R^(q-gamma+1) is constant along solutions of g', ok,
               "guderley.energy: the adiabatic integral used as the accuracy diagnostic is not a first integral of the coded ODE "
               "system g (its x-derivative along (V, C, R)' = g does not vanish)")
    if res.obligations < 9:
        raise AnalysisError('only %d Guderley obligations (confirmed: 12)' % res.obligations)


def _walk(n, seen=None):
    seen = set() if seen is None else seen
    todo = [n]
    while todo:
        x = todo.pop()
        if x.nid in seen:
            continue
        seen.add(x.nid)
        yield x
        todo.extend(a for a in x.args if hasattr(a, 'nid'))
