"""C08 -- dimensional consistency by dimension inference (DESIGN 3, C08)."""
from ..model import AnalysisError
from ..report import Result
from ..dimcheck import analyse_class, findings_from, load_spec
from ..dim import Lin, POLY

LEVEL = 'other'
PROP = 'C08'


def run(model, tier):
    res = Result(PROP)
    res.explanation = (
        'Kennedy-style dimension inference over the inlined value graph of each in-scope solver '
        '(constructor chain + _run): points are lengths, t is a time, output fields have their '
        'physical dimension by standard name, every parameter is an unknown exponent vector over '
        '(M,L,T,Theta) with exponents in Q(dimensionless parameters); + - compare where interp ... '
        'equate dimensions, * / ** sqrt do exponent arithmetic, transcendental arguments are '
        'dimensionless, root finders / quadrature / ODE integrators have higher-order signatures. '
        'A solvable constraint system is exactly invariance of the computed map under every '
        'rescaling of the base units (for all parameter values, geometries, points and times).')
    res.rule_text = ('one constraint per dimension-relevant operator occurrence on any path; '
                     'non-trivial = the constraint bound an unknown or related two non-literal dimensions')
    res.trusted_base = ['CPython ast', 'sympy FracField arithmetic', 'library signature table in sa/dim.py']
    scope = load_spec('c08_scope.json')
    outspec = load_spec('output_dims.json')
    floors = load_spec('minimum_coverage.json').get('C08', {})
    per_class = {}
    for cname, opts in scope['classes'].items():
        cls = model.get_class(cname)
        b, S, ev = analyse_class(model, cls, scope['inputs'], outspec, opaque=opts.get('opaque'),
                                 param_dims_spec=opts.get('param_dims'))
        pa = opts.get('pair_anchors')
        if pa:
            # literal (x, t) pairs (corners of the x-t diagram): first component a position, second a time
            n_pairs = 0
            for n in b.trace:
                if n.kind == 'tuple' and len(n.args) == 2 and n.origin and n.origin[0] is not None \
                        and n.origin[0].fullname == pa['function']:
                    for i, what in ((0, 'first component of an (x, t) corner'), (1, 'second component of an (x, t) corner')):
                        d = ev.dim(n.args[i])
                        if isinstance(d, Lin):
                            S.unify(d, S.from_spec(pa['dims'][i]), n.args[i], what, priority=0)
                            n_pairs += 1
            if n_pairs < pa.get('min', 1):
                raise AnalysisError('%s: only %d (x, t) corner components found in %s (confirmed: %d)'
                                    % (cname, n_pairs, pa['function'], pa.get('min', 1)))
        findings_from(S, ev, PROP, 'C08.dim', res)
        # root finders: the stopping tolerance on the unknown must have the unknown's dimension
        from ..report import Finding as _Finding
        seen_rt = set()
        for node, xd, xt, given in getattr(ev, 'root_tolerances', []):
            if not isinstance(xd, Lin):
                continue
            d = S.resolve(xd)
            w = getattr(node, 'where', None)
            key = (w, node.src[:60])
            if key in seen_rt:
                continue
            seen_rt.add(key)
            res.obligations += 1
            res.evaluations += 1
            ok = S.is_dimless(d) or (given and isinstance(xt, Lin) and S.same(S.resolve(xt), d))
            if ok:
                res.discharged += 1
            else:
                res.add(_Finding(PROP, 'C08.absolute-tolerance', w[0] if w else cls.module.relpath, w[1] if w else cls.name,
                                 'root finder tolerance: %s' % node.src[:60],
                                 "%s: `%s` finds a root in a variable of dimension %s but stops at the %s absolute tolerance %s: a pure number "
                                 "compared with a dimensional unknown, so the accuracy of the root -- and with it every field computed from "
                                 "it -- depends on the unit the user expresses the problem in (for small numerical values of the unknown "
                                 "the root is not resolved at all)"
                                 % (w[1] if w else cls.name, node.src[:80], S.show(d), 'given' if given else "root finder's default",
                                    'xtol' if given else 'xtol = 2e-12'),
                                 line=w[2] if w and len(w) > 2 else 0, construct=node.src[:100]))
        anchored = [nm for nm, d, _ in ev.outputs if nm in outspec and isinstance(d, Lin)]
        unresolved = [nm for nm, d, _ in ev.outputs if nm in outspec and not isinstance(d, Lin) and d is not POLY]
        res.obligations += S.constraints
        res.discharged += S.constraints - len(S.inconsistencies)
        res.evaluations += S.constraints
        res.nontrivial += S.nontrivial
        per_class[cname] = {'constraints': S.constraints, 'nontrivial': S.nontrivial,
                            'outputs_anchored': len(anchored), 'outputs_unresolved': unresolved,
                            'top': ev.top_count, 'inconsistent': len(S.inconsistencies),
                            'parameters': {k: S.show(v) for k, v in ev.param_vars.items()}}
        res.analysed.append(cname)
        fl = floors.get(cname)
        if fl:
            if S.constraints < fl['constraints'] or len(anchored) < fl['outputs_anchored']:
                raise AnalysisError('coverage of %s fell below the confirmed floor: %d constraints '
                                    '(floor %d), %d anchored outputs (floor %d)'
                                    % (cname, S.constraints, fl['constraints'], len(anchored),
                                       fl['outputs_anchored']))
        for node, what, a, b2 in S.samples[:2]:
            if node is not None:
                w = node.where
                res.sample({'solver': cname, 'file': w[0], 'function': w[1], 'construct': node.src[:120],
                            'constraint': what, 'lhs': S.show(a), 'rhs': S.show(b2)}, limit=40)
    res.extra['per_class'] = per_class
    from . import c08_ehep
    c08_ehep.boundary_tests(model, res)      # EHEP: the region-boundary test compares dimensionless distances
    from . import c08_riemann2d
    c08_riemann2d.helpers(model, res)        # 2D Riemann: pressure grids and guesses scale with the state
    return res
