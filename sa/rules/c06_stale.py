"""C06 batch clause, syntactic companion of pw.py: in a loop over the requested points every local name is
assigned in the SAME iteration before it is read.

`for i, x in enumerate(xvec): if a: v = ..  elif b: v = ..` (no else) followed by `out[i] = v` stores, for a point
that matches no branch, the value computed for the PREVIOUS point of the request (or raises UnboundLocalError if it
is the first one): the value at a point then depends on which other points are requested and in which order.  When
the name also has a value before the loop the value graph has a loop-carried node for it and pw.py decides the
case; when the name is first assigned inside the loop the builder has no such node (it keeps the body value), so
this rule decides it on the syntax tree: a definite-assignment analysis of the loop body.

Point loops are the `for` statements of a solver's `_run` whose iterable mentions the points parameter or a name
assigned from an expression that mentions it (flow-insensitive taint inside `_run`).  Inside such a loop, for every
name that is stored somewhere in the loop body and has NO binding before the loop, every read must be preceded on
all paths through the iteration by a store (if/else: intersection of the branches; a branch that leaves the
iteration by continue/break/return/raise does not constrain; inner loops may run zero times, so their stores do
not count after them, but their targets and body stores count inside them).
"""
import ast

from ..model import AnalysisError, src_of
from ..report import Finding

PROP = 'C06'
RULE = 'C06.batch'
MIN_LOOPS = 8      # confirmed on the tree (see DESIGN 9.37); fewer means the recogniser lost the idiom


def _names_loaded(node):
    """Name loads in node, not descending into nested scopes (lambda / def / comprehension bind their own)."""
    out = []
    stack = [node]
    while stack:
        n = stack.pop()
        if isinstance(n, (ast.Lambda, ast.FunctionDef, ast.AsyncFunctionDef, ast.ClassDef)):
            continue
        if isinstance(n, (ast.ListComp, ast.SetComp, ast.DictComp, ast.GeneratorExp)):
            bound = set()
            for g in n.generators:
                for t in ast.walk(g.target):
                    if isinstance(t, ast.Name):
                        bound.add(t.id)
            for sub in ast.walk(n):
                if isinstance(sub, ast.Name) and isinstance(sub.ctx, ast.Load) and sub.id not in bound:
                    out.append(sub)
            continue
        if isinstance(n, ast.Name) and isinstance(n.ctx, ast.Load):
            out.append(n)
        stack.extend(ast.iter_child_nodes(n))
    return out


def _targets(t):
    if isinstance(t, ast.Name):
        return {t.id}
    if isinstance(t, (ast.Tuple, ast.List)):
        s = set()
        for e in t.elts:
            s |= _targets(e)
        return s
    if isinstance(t, ast.Starred):
        return _targets(t.value)
    return set()


def _stores(stmts):
    s = set()
    for st in stmts:
        for n in ast.walk(st):
            if isinstance(n, ast.Name) and isinstance(n.ctx, (ast.Store, ast.Del)):
                s.add(n.id)
            elif isinstance(n, (ast.FunctionDef, ast.ClassDef)):
                s.add(n.name)
            elif isinstance(n, (ast.Import, ast.ImportFrom)):
                for a in n.names:
                    s.add((a.asname or a.name).split('.')[0])
            elif isinstance(n, ast.ExceptHandler) and n.name:
                s.add(n.name)
    return s


def _runs_at_least_once(it):
    """range(c) / range(a, b) with integer constants and a non-empty span, or a non-empty list / tuple literal."""
    if isinstance(it, (ast.List, ast.Tuple)):
        return len(it.elts) > 0
    if isinstance(it, ast.Call) and isinstance(it.func, ast.Name) and it.func.id == 'range' and not it.keywords:
        a = it.args
        if all(isinstance(x, ast.Constant) and isinstance(x.value, int) for x in a):
            if len(a) == 1:
                return a[0].value > 0
            if len(a) == 2:
                return a[1].value > a[0].value
    return False


class _Flow:
    """Definite assignment through one iteration of the loop body."""

    def __init__(self, watch):
        self.watch = watch          # names stored in the loop body and unbound before the loop
        self.bad = []               # (Name node, statement)

    def reads(self, node, da, st):
        if node is None:
            return
        for n in _names_loaded(node):
            if n.id in self.watch and n.id not in da:
                self.bad.append((n, st))

    def block(self, stmts, da):
        """-> (definitely assigned set after the block, falls_through)."""
        da = set(da)
        for st in stmts:
            da, falls = self.stmt(st, da)
            if not falls:
                return da, False
        return da, True

    def stmt(self, st, da):
        if isinstance(st, ast.Assign):
            self.reads(st.value, da, st)
            for t in st.targets:
                if not isinstance(t, ast.Name):
                    self.reads(t, da, st)       # subscripts / attributes read their base and index
            for t in st.targets:
                da = da | _targets(t)
            return da, True
        if isinstance(st, ast.AugAssign):
            self.reads(st.value, da, st)
            if isinstance(st.target, ast.Name):
                if st.target.id in self.watch and st.target.id not in da:
                    self.bad.append((st.target, st))
                return da | {st.target.id}, True
            self.reads(st.target, da, st)
            return da, True
        if isinstance(st, ast.AnnAssign):
            self.reads(st.value, da, st)
            return (da | _targets(st.target)) if st.value is not None else da, True
        if isinstance(st, ast.If):
            self.reads(st.test, da, st)
            a, fa = self.block(st.body, da)
            b, fb = self.block(st.orelse, da)
            if fa and fb:
                return a & b, True
            if fa:
                return a, True
            if fb:
                return b, True
            return da, False
        if isinstance(st, (ast.For, ast.AsyncFor)):
            self.reads(st.iter, da, st)
            inner = da | _targets(st.target)
            after, _ = self.block(st.body, inner)
            self.block(st.orelse, da)
            if _runs_at_least_once(st.iter):
                return after, True          # a literal non-empty iterable: the stores of the first pass are definite
            return da, True
        if isinstance(st, ast.While):
            self.reads(st.test, da, st)
            after, _ = self.block(st.body, da)
            self.block(st.orelse, da)
            if isinstance(st.test, ast.Constant) and st.test.value is True:
                return after, True          # `while True:` enters its body
            return da, True
        if isinstance(st, (ast.With, ast.AsyncWith)):
            for it in st.items:
                self.reads(it.context_expr, da, st)
                if it.optional_vars is not None:
                    da = da | _targets(it.optional_vars)
            return self.block(st.body, da)
        if isinstance(st, ast.Try):
            a, fa = self.block(st.body, da)
            outs = []
            for h in st.handlers:
                hb, fh = self.block(h.body, da | ({h.name} if h.name else set()))
                if fh:
                    outs.append(hb)
            if st.orelse:
                a2, fa2 = self.block(st.orelse, a)
                a, fa = (a2, fa2) if fa else (a, fa)
            if fa:
                outs.append(a)
            if not outs:
                return da, False
            cur = set.intersection(*outs)
            if st.finalbody:
                cur, ff = self.block(st.finalbody, cur)
                if not ff:
                    return cur, False
            return cur, True
        if isinstance(st, (ast.Return, ast.Raise)):
            self.reads(getattr(st, 'value', None) or getattr(st, 'exc', None), da, st)
            return da, False
        if isinstance(st, (ast.Continue, ast.Break)):
            return da, False
        if isinstance(st, (ast.FunctionDef, ast.AsyncFunctionDef, ast.ClassDef)):
            return da | {st.name}, True
        if isinstance(st, (ast.Import, ast.ImportFrom)):
            return da | {(a.asname or a.name).split('.')[0] for a in st.names}, True
        if isinstance(st, ast.Delete):
            return da - set().union(*[_targets(t) for t in st.targets]) if st.targets else da, True
        # Expr, Assert, Pass, Global, Nonlocal ...
        for ch in ast.iter_child_nodes(st):
            if isinstance(ch, ast.expr):
                self.reads(ch, da, st)
        return da, True


def _point_names(fn):
    """Names of `_run` that hold the requested points or something computed from them (flow-insensitive)."""
    args = [a.arg for a in fn.args.args]
    if len(args) < 2:
        return set()
    tainted = {args[1]}
    changed = True
    while changed:
        changed = False
        for n in ast.walk(fn):
            if isinstance(n, ast.Assign):
                if any(x.id in tainted for x in _names_loaded(n.value)):
                    for t in n.targets:
                        new = _targets(t) - tainted
                        if new:
                            tainted |= new
                            changed = True
    return tainted


def _bound_before(fn, loop):
    """Names bound anywhere in fn textually before the loop (parameters, stores in earlier statements, targets of
    enclosing loops): for those the value graph carries a loop node and pw.py decides."""
    bound = {a.arg for a in fn.args.args + fn.args.kwonlyargs}
    if fn.args.vararg:
        bound.add(fn.args.vararg.arg)
    if fn.args.kwarg:
        bound.add(fn.args.kwarg.arg)
    for n in ast.walk(fn):
        if isinstance(n, ast.Name) and isinstance(n.ctx, ast.Store) and \
                (n.lineno, n.col_offset) < (loop.lineno, loop.col_offset):
            bound.add(n.id)
    return bound


def check(model, res):
    loops = 0
    for ci in model.solver_classes():
        if '_run' not in ci.methods:
            continue
        fi = ci.methods['_run']
        fn = fi.node
        pts = _point_names(fn)
        for loop in ast.walk(fn):
            if not isinstance(loop, ast.For):
                continue
            if not any(x.id in pts for x in _names_loaded(loop.iter)):
                continue
            loops += 1
            res.obligations += 1
            res.evaluations += 1
            watch = _stores(loop.body) - _bound_before(fn, loop) - _targets(loop.target)
            fl = _Flow(watch)
            fl.block(loop.body, _targets(loop.target))
            if not fl.bad:
                res.discharged += 1
                res.sample({'rule': 'C06.batch/definite-assignment', 'class': ci.name, 'loop': src_of(loop.iter)[:60],
                            'names_first_assigned_in_loop': sorted(watch)[:12]}, limit=60)
                continue
            seen = set()
            for name, st in fl.bad:
                if name.id in seen:
                    continue
                seen.add(name.id)
                res.add(Finding(PROP, RULE, fi.module.relpath, '%s._run' % ci.name,
                                'stale loop variable %s' % name.id,
                                "%s: in the loop over the requested points (`for ... in %s`) `%s` is read in `%s` but is not "
                                "assigned on every path through the same iteration (no binding before the loop either): for a "
                                "point that takes the path without an assignment the value computed for the previous point of "
                                "the request is used (UnboundLocalError if it is the first point), so the value returned at a "
                                "point depends on the other points of the request and on their order"
                                % (ci.name, src_of(loop.iter)[:60], name.id, src_of(st)[:80].replace('\n', ' ')),
                                line=name.lineno, construct=src_of(st)[:120]))
    res.extra['point_loops_checked_for_definite_assignment'] = loops
    if loops < MIN_LOOPS and not any(f.detail.startswith('stale loop variable') for f in res.findings):
        raise AnalysisError('only %d loops over the requested points recognised in _run methods (confirmed >= %d)'
                            % (loops, MIN_LOOPS))
