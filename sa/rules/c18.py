"""C18 -- Su-Olson: dimensionalisation clause (DESIGN 3, C18)."""
from ..model import AnalysisError
from ..report import Result, Finding
from ..dimcheck import analyse_function, findings_from
from ..dim import Lin

LEVEL = 'other'
PROP = 'C18'
FN = 'exactpack.solvers.suolson.timmes:so_wave'
UNITS = ('M', 'L', 'T', 'K', 'E')      # E: temperature expressed as an energy (eV)


def run(model, tier):
    res = Result(PROP)
    res.explanation = (
        'Dimension inference over so_wave(time, zpos, trad_bc_ev, opac, alpha) with time: T, zpos: L, '
        'trad_bc_ev: E (eV), the literal constants seeded with their physical dimension (clight: L/T, ssol: '
        'M T^-3 K^-4, kev: E/K) and opac, alpha unknown: the three arguments handed to usolution/vsolution '
        '(xpos, tau, epsilon) must be dimensionless for one consistent assignment of dimensions to opac and alpha, '
        'and both returned temperatures in eV must have the dimension of trad_bc_ev. This decides that the '
        "physical temperatures are related to the dimensionless solution by the stated conversion with the user's "
        'opacity, specific-heat coefficient and boundary temperature; the integral representations themselves '
        '(PDE, Marshak condition) are numeric and not decided. History independence of the module globals '
        'posx/tau/epsilon/jwant is decided under C06.')
    res.rule_text = 'one constraint per operator site of so_wave; plus 3 dimensionless-argument and 2 output obligations'
    res.trusted_base = ['CPython ast', 'sympy FracField', 'signature table']
    seeds = {FN: {'clight': {'L': 1, 'T': -1}, 'ssol': {'M': 1, 'T': -3, 'K': -4}, 'kev': {'E': 1, 'K': -1}}}
    opaque = {'exactpack.solvers.suolson.timmes:usolution': 'uans_', 'exactpack.solvers.suolson.timmes:vsolution': 'vans_'}
    b, S, ev, ret = analyse_function(model, FN, {'time': {'T': 1}, 'zpos': {'L': 1}, 'trad_bc_ev': {'E': 1},
                                                  'opac': None, 'alpha': None},
                                     units=UNITS, seeds=seeds, opaque=opaque)
    if getattr(ev, 'seeded', 0) < 3:
        raise AnalysisError('physical constants clight/ssol/kev not found in so_wave')
    fi = model.get_func(FN)
    want = {'xpos': S.dimless(), 'tau': S.dimless(), 'epsilon': S.dimless(),
            'trad_ev': S.from_spec({'E': 1}), 'tmat_ev': S.from_spec({'E': 1}),
            'erad': S.from_spec({'M': 1, 'L': -1, 'T': -2})}
    seen = set()
    for func, tnode, vnode in b.assign_log:
        if func is fi and tnode.id in want:
            d = ev.dim(vnode)
            seen.add(tnode.id)
            if isinstance(d, Lin):
                S.unify(d, want[tnode.id], vnode, "'%s' vs its required dimension" % tnode.id, priority=0)
            else:
                raise AnalysisError('dimension of %s in so_wave did not resolve' % tnode.id)
    if set(want) - seen:
        raise AnalysisError('locals %s vanished from so_wave' % sorted(set(want) - seen))
    findings_from(S, ev, PROP, 'C18.dim', res)
    res.obligations = S.constraints
    res.discharged = S.constraints - len(S.inconsistencies)
    res.evaluations = S.constraints
    res.nontrivial = S.nontrivial + S.checked
    res.analysed.append(FN)
    res.extra['inferred'] = {k: S.show(v) for k, v in ev.input_dims.items()}
    for node, what, a, b2 in S.samples[:10]:
        if node is not None:
            res.sample({'construct': node.src[:100], 'constraint': what, 'lhs': S.show(a), 'rhs': S.show(b2)})
    return res
