"""C18 -- Su-Olson: dimensionalisation clause (DESIGN 3, C18)."""
from ..model import AnalysisError
from ..report import Result, Finding
from ..dimcheck import analyse_function, findings_from
from ..dim import Lin

LEVEL = 'other'
PROP = 'C18'
FN = 'exactpack.solvers.suolson.timmes:so_wave'
UNITS = ('M', 'L', 'T', 'K', 'E')      # E: temperature expressed as an energy (eV)


DOC = {   # the conversion the module documents (and the property states), over so_wave's own names
    'xpos': 'rt3 * opac * zpos',
    'tau': '4.0 * asol * clight * opac * time / alpha',
    'epsilon': '4.0 * asol / alpha',
    'ener_in': 'asol * (trad_bc_ev / kev) ** 4',
    # ... and back: E_rad = u*E_in, a*T_rad^4 = u*E_in, a*T_mat^4 = v*E_in (no other constant enters)
    'erad': 'uans * ener_in',
    'trad': '(uans * ener_in / asol) ** 0.25',
    'trad_ev': 'kev * (uans * ener_in / asol) ** 0.25',
    'tmat': '(vans * ener_in / asol) ** 0.25',
    'tmat_ev': 'kev * (vans * ener_in / asol) ** 0.25',
}
SOLUTIONS = ('uans', 'vans')     # the dimensionless solutions: opaque atoms of the conversion


def conversion(model, b, fi, res):
    """xpos = sqrt3*opac*z, tau = 4ac*opac*t/alpha, epsilon = 4a/alpha, E_in = a*T_bc^4 as normal forms
    over so_wave's own constants (rt3, asol, clight, kev are atoms): any algebraically equivalent
    rewriting passes, a different formula does not."""
    from ..nf import NFEval, NAN
    from .c03 import expr_nf
    vals = {}
    for func, tnode, vnode in b.assign_log:
        if func is fi:
            vals[tnode.id] = vnode
    need = set(DOC) | {'rt3', 'asol', 'clight', 'kev'} | set(SOLUTIONS)
    if need - set(vals):
        raise AnalysisError('so_wave locals %s vanished' % sorted(need - set(vals)))
    ev = NFEval([])
    # constants and arguments are atoms
    env = {}
    for nm in ('rt3', 'clight', 'kev', 'ssol'):
        if nm in vals:
            ev.memo[vals[nm].nid] = ev.atom('const:' + nm)
            env[nm] = ev.atom('const:' + nm)
    env['asol'] = ev.nf(vals['asol'])
    for nm in SOLUTIONS:
        ev.memo[vals[nm].nid] = ev.atom('solution:' + nm)
        env[nm] = ev.atom('solution:' + nm)
    for a in fi.node.args.args:
        env[a.arg] = ev.atom('input:' + a.arg)
    for nm, formula in DOC.items():
        res.obligations += 1
        res.evaluations += 1
        res.nontrivial += 1
        got = ev.nf(vals[nm])
        if nm == 'ener_in':
            env['ener_in'] = got
        want = expr_nf(ev, formula, env)
        if got is not NAN and want is not NAN and ev.equal(got, want):
            res.discharged += 1
            res.sample({'rule': 'C18.conversion', 'quantity': nm, 'documented': formula, 'normal_form': got.key()[:120]})
        else:
            res.add(Finding(PROP, 'C18.conversion', fi.module.relpath, fi.qualname, '%s is not %s' % (nm, formula),
                            "so_wave: `%s` is not the documented conversion %s = %s (normal form %s versus %s): the physical "
                            "temperatures are no longer related to the dimensionless Su-Olson solution by the stated "
                            "conversion with the user's opacity / specific-heat coefficient / boundary temperature"
                            % (nm, nm, formula, got.key()[:120] if got is not NAN else 'NaN', want.key()[:120]),
                            line=getattr(vals[nm].origin[1], 'lineno', 0), construct=vals[nm].src[:100]))


MODES = {'upart1': 0, 'upart2': 1, 'vpart1': 0, 'vpart2': 1}     # integrand -> 1 if its integral is multiplied by exp(-tau)
SUOMOD = 'exactpack.solvers.suolson.timmes'


def dispersion(model, res):
    """Every eta-mode of the four Fourier integrands, exp(-lambda tau) sin(gamma x + theta), solves the
    coupled system  eps u_tau = u_xx + v - u,  v_tau = u - v : eliminating the amplitudes gives the
    dispersion relation  (gamma^2 + 1 - eps lambda)(1 - lambda) = 1  between the decay rate (read off the
    exponential's argument, +1 for the two integrals that are multiplied by exp(-tau)) and the wavenumber
    (the coefficient of posx inside the sine).  Guards against division by zero (max(tiny, X); min(eta, 1 - tiny)
    for the integration variable eta in [0, 1]) are identities; any other clamp is not."""
    import ast as _ast
    from ..vg import Builder, Frame, walk
    from ..nf import NFEval, NAN, Mono, Sum
    from ..ratnf import NFSym
    from ..radnf import RadNF
    mod = model.modules[SUOMOD]
    # the second integrals are multiplied by exp(-tau) where they are combined
    for fn in ('usolution', 'vsolution'):
        fi = model.get_func('%s:%s' % (SUOMOD, fn))
        rets = [st for st in _ast.walk(fi.node) if isinstance(st, _ast.Return) and st.value is not None]
        txt = _ast.unparse(rets[-1].value).replace(' ', '') if rets else ''
        if 'exp(-tau)*sum2' not in txt or 'sum1' not in txt:
            raise AnalysisError('%s no longer combines its integrals as ... sum1 ... exp(-tau) * sum2' % fn)
    for name, extra in MODES.items():
        fi = model.get_func('%s:%s' % (SUOMOD, name))
        b = Builder(model)
        b.frame = Frame(None, mod, {}, None)
        gl = {}
        for g in ('posx', 'tau', 'epsilon'):
            gl[g] = b.mk('param', g)
            b.gvars[(mod.name, g)] = gl[g]
        eta = b.mk('param', 'eta')
        out = b.run_function(fi, [eta])
        ev = NFEval([])
        # guards
        for n in b.trace:
            if n.kind == 'call' and n.val in ('builtins.max', 'builtins.min') and len(n.args) == 2:
                vals = [ev.nf(a) for a in n.args]
                for i in (0, 1):
                    c, o = vals[i], n.args[1 - i]
                    if n.val == 'builtins.max' and isinstance(c, Mono) and not c.f and 0 < c.coef < 1e-9:
                        ev.memo[n.nid] = ev.nf(o)
                    if n.val == 'builtins.min' and o is eta:
                        # 1 - tiny
                        cs = c.terms if isinstance(c, Sum) else [c]
                        tot = sum(float(t.coef) for t in cs if isinstance(t, Mono) and not t.f) if all(isinstance(t, Mono) and not t.f for t in cs) else None
                        if tot is not None and 1 - 1e-9 < tot < 1:
                            ev.memo[n.nid] = ev.nf(o)
        exps = [n for n in walk(out) if n.kind == 'call' and n.val in ('math.exp', 'numpy.exp')]
        sins = [n for n in walk(out) if n.kind == 'call' and n.val in ('math.sin', 'numpy.sin')]
        res.obligations += 1
        res.evaluations += 1
        res.nontrivial += 1
        if len(exps) != 1 or len(sins) != 1:
            raise AnalysisError('%s: expected one exponential and one sine factor (found %d / %d)' % (name, len(exps), len(sins)))
        sy = NFSym(ev)
        tau_s, x_s, eps_s = (sy.conv(ev.nf(gl[g])) for g in ('tau', 'posx', 'epsilon'))
        ea = ev.nf(exps[0].args[0])
        sa = ev.nf(sins[0].args[0])
        ok = ea is not NAN and sa is not NAN and not isinstance(ea, (type(None),))
        lam = gam = None
        if ok:
            try:
                import sympy as sp
                E, Sx = sy.conv(ea), sy.conv(sa)
                lam = sp.together(-E / tau_s) + extra
                gam = sp.diff(Sx, x_s)                  # linear in posx: the coefficient
                ok = not lam.has(tau_s) and not gam.has(x_s) and sp.diff(Sx, x_s, 2) == 0
                if ok:
                    ok = RadNF(sy.units).is_zero((gam ** 2 + 1 - eps_s * lam) * (1 - lam) - 1)
            except Exception:
                ok = False
        if ok:
            res.discharged += 1
            res.sample({'rule': 'C18.dispersion', 'integrand': name, 'decay_rate': str(lam)[:80], 'wavenumber': str(gam)[:80]})
        else:
            res.add(Finding(PROP, 'C18.dispersion', fi.module.relpath, fi.qualname, '%s: dispersion relation' % name,
                            "%s: the eta-mode exp(-lambda tau) sin(gamma x + theta) of this integrand does not satisfy "
                            "(gamma^2 + 1 - epsilon lambda)(1 - lambda) = 1 (lambda = %s, gamma = %s): the mode does not "
                            "solve eps u_tau = u_xx + v - u, v_tau = u - v, so neither does the integral"
                            % (name, str(lam)[:100], str(gam)[:100]), line=fi.node.lineno, construct='def %s' % name))


def marshak(model, res):
    """Each eta-mode sin(gamma x + theta) satisfies the homogeneous Marshak condition  u - (2/sqrt 3) u_x = 0  at x = 0
    exactly when  tan theta = 2 gamma / sqrt 3.  theta_i is coded as acos(a_i) with a_i a closed form of gamma_i:
    decided is  1 - a_i^2 == (4/3) gamma_i^2 a_i^2  (the square of  sin theta = (2/sqrt 3) gamma cos theta;  both sides are
    non-negative since gamma_i >= 0 and 0 <= a_i <= 1), for the three (gamma, theta) pairs, with the guards on eta read as
    identities.  The constant term 1 of usolution then carries the incoming flux."""
    from ..vg import Builder, Frame
    from ..nf import NFEval, NAN, Mono, Sum, PW, Struct
    from ..ratnf import NFSym, is_zero
    from ..radnf import RadNF, Unsupported
    from fractions import Fraction
    mod = model.modules[SUOMOD]
    for i in ('one', 'two', 'three'):
        ft = model.get_func('%s:theta_%s' % (SUOMOD, i))
        fg = model.get_func('%s:gamma_%s' % (SUOMOD, i))
        if ft is None or fg is None:
            raise AnalysisError('suolson: theta_%s / gamma_%s vanished' % (i, i))
        b = Builder(model)
        b.frame = Frame(None, mod, {}, None)
        eta, eps = b.mk('param', 'eta'), b.mk('param', 'epsilon')
        th = b.run_function(ft, [eta, eps])
        b.frame = Frame(None, mod, {}, None)
        gm = b.run_function(fg, [eta, eps])
        ev = NFEval([])
        for n in b.trace:
            if n.kind == 'call' and n.val in ('builtins.max', 'builtins.min') and len(n.args) == 2:
                vals = [ev.nf(a) for a in n.args]
                for j in (0, 1):
                    c, o = vals[j], n.args[1 - j]
                    if n.val == 'builtins.max' and isinstance(c, Mono) and not c.f and 0 < c.coef < 1e-9:
                        ev.memo[n.nid] = ev.nf(o)
                    if n.val == 'builtins.min':
                        cs = c.terms if isinstance(c, Sum) else [c]
                        if all(isinstance(t, Mono) and not t.f for t in cs):
                            tot = sum(float(t.coef) for t in cs)
                            if 1 - 1e-9 < tot < 1:
                                ev.memo[n.nid] = ev.nf(o)
        tnf, gnf = ev.nf(th), ev.nf(gm)
        res.obligations += 1
        res.evaluations += 1
        res.nontrivial += 1
        ok = False
        if isinstance(tnf, Mono) and tnf.coef == 1 and len(tnf.f) == 1:
            (k, e), = tnf.f.items()
            if e == ev.one and k in ev.funcs and ev.funcs[k][0] in ('acos', 'arccos') and gnf is not NAN and not isinstance(gnf, (PW, Struct)):
                a = ev.funcs[k][1]
                a2 = ev.mul(a, a)
                lhs = ev.add(ev.num(1), a2, -1)
                rhs = ev.mul(ev.num(Fraction(4, 3)), ev.mul(ev.mul(gnf, gnf), a2))
                sy = NFSym(ev)
                try:
                    cx = sy.conv(ev.add(lhs, rhs, -1))
                    ok = is_zero(cx)
                    if not ok:
                        try:
                            ok = RadNF(sy.units).is_zero(cx)
                        except Unsupported:
                            ok = False
                except TypeError:
                    ok = False
        if ok:
            res.discharged += 1
            res.sample({'rule': 'C18.marshak', 'function': 'theta_%s' % i, 'identity': 'tan(theta)^2 == 4 gamma^2 / 3'})
        else:
            res.add(Finding(PROP, 'C18.marshak', ft.module.relpath, ft.qualname, 'theta_%s: Marshak phase' % i,
                            "theta_%s is not the phase with tan(theta) = 2 gamma_%s / sqrt(3): the eta-modes sin(gamma x + theta) built "
                            "with it do not satisfy the homogeneous Marshak condition u - (2/sqrt 3) u_x = 0 at x = 0, so the solution "
                            "does not meet the incoming-flux boundary condition" % (i, i), line=ft.node.lineno, construct='def %s' % ft.name))


def run(model, tier):
    res = Result(PROP)
    res.explanation = (
        'Dimension inference over so_wave(time, zpos, trad_bc_ev, opac, alpha) with time: T, zpos: L, '
        'trad_bc_ev: E (eV), the literal constants seeded with their physical dimension (clight: L/T, ssol: '
        'M T^-3 K^-4, kev: E/K) and opac, alpha unknown: the three arguments handed to usolution/vsolution '
        '(xpos, tau, epsilon) must be dimensionless for one consistent assignment of dimensions to opac and alpha, '
        'and both returned temperatures in eV must have the dimension of trad_bc_ev. This decides that the '
        "physical temperatures are related to the dimensionless solution by the stated conversion with the user's "
        'opacity, specific-heat coefficient and boundary temperature. In addition the normal forms of xpos, tau, epsilon and '
        'the incident energy density must equal the documented conversion (sqrt3*opac*z, 4ac*opac*t/alpha, 4a/alpha, a*T_bc^4) '
        "over so_wave's own constants; the integral representations themselves "
        '(PDE, Marshak condition) are numeric, except for two structural necessary conditions: the phase theta_i of every mode is the '
        'one with tan(theta) = 2 gamma/sqrt(3), i.e. every mode satisfies the homogeneous Marshak condition at x = 0; and every eta-mode of the four Fourier '
        'integrands satisfies the dispersion relation (gamma^2 + 1 - eps*lambda)(1 - lambda) = 1 of the coupled system (decay rate '
        'from the exponential, wavenumber from the sine; radical normal form). History independence of the module globals '
        'posx/tau/epsilon/jwant is decided under C06.')
    res.rule_text = 'one constraint per operator site of so_wave; plus 3 dimensionless-argument and 2 output obligations'
    res.trusted_base = ['CPython ast', 'sympy FracField', 'signature table']
    seeds = {FN: {'clight': {'L': 1, 'T': -1}, 'ssol': {'M': 1, 'T': -3, 'K': -4}, 'kev': {'E': 1, 'K': -1}}}
    opaque = {'exactpack.solvers.suolson.timmes:usolution': 'uans_', 'exactpack.solvers.suolson.timmes:vsolution': 'vans_'}
    b, S, ev, ret = analyse_function(model, FN, {'time': {'T': 1}, 'zpos': {'L': 1}, 'trad_bc_ev': {'E': 1},
                                                  'opac': None, 'alpha': None},
                                     units=UNITS, seeds=seeds, opaque=opaque)
    if getattr(ev, 'seeded', 0) < 3:
        raise AnalysisError('physical constants clight/ssol/kev not found in so_wave')
    fi = model.get_func(FN)
    want = {'xpos': S.dimless(), 'tau': S.dimless(), 'epsilon': S.dimless(),
            'trad_ev': S.from_spec({'E': 1}), 'tmat_ev': S.from_spec({'E': 1}),
            'erad': S.from_spec({'M': 1, 'L': -1, 'T': -2})}
    seen = set()
    for func, tnode, vnode in b.assign_log:
        if func is fi and tnode.id in want:
            d = ev.dim(vnode)
            seen.add(tnode.id)
            if isinstance(d, Lin):
                S.unify(d, want[tnode.id], vnode, "'%s' vs its required dimension" % tnode.id, priority=0)
            else:
                raise AnalysisError('dimension of %s in so_wave did not resolve' % tnode.id)
    if set(want) - seen:
        raise AnalysisError('locals %s vanished from so_wave' % sorted(set(want) - seen))
    findings_from(S, ev, PROP, 'C18.dim', res)
    res.obligations = S.constraints
    res.discharged = S.constraints - len(S.inconsistencies)
    res.evaluations = S.constraints
    res.nontrivial = S.nontrivial + S.checked
    conversion(model, b, fi, res)
    dispersion(model, res)
    marshak(model, res)
    res.analysed.append(FN)
    res.extra['inferred'] = {k: S.show(v) for k, v in ev.input_dims.items()}
    for node, what, a, b2 in S.samples[:10]:
        if node is not None:
            res.sample({'construct': node.src[:100], 'constraint': what, 'lhs': S.show(a), 'rhs': S.show(b2)})
    return res
