"""C10 -- self-similarity with the documented exponents (DESIGN 3, C10).

Same engine as C08 with a single base unit S (the similarity group): weights of
t, the points, the parameters and every output field are *prescribed*; the
check is that the code type-checks under them.
"""
import ast

from ..model import AnalysisError
from ..report import Result, Finding
from ..dimcheck import analyse_class, findings_from, load_spec, leaves_of
from ..vg import Builder, walk
from ..dim import DimSystem, DimEval, Lin, Seq, POLY

LEVEL = 'other'
PROP = 'C10'


def run(model, tier):
    res = Result(PROP)
    res.explanation = (
        'Weight inference for the one-parameter similarity group: t has weight 1, the points the '
        'documented weight (1 for x/t problems, delta=2/(k+2-omega) for Sedov, 1/lambda for Guderley), '
        'every constructor parameter weight 0 (membrane/window positions 1), every output field the '
        'documented weight; every + - compare where interp ... site must relate equal weights and '
        'powers do exponent arithmetic with symbolic exponents. A solvable system means each field '
        'is homogeneous of exactly the documented degree in (points, t) for all parameters.')
    res.rule_text = 'one constraint per weight-relevant operator occurrence; non-trivial = involves a non-zero weight'
    res.trusted_base = ['CPython ast', 'sympy FracField', 'signature table sa/dim.py', 'spec/similarity.json']
    spec = load_spec('similarity.json')
    floors = load_spec('minimum_coverage.json').get('C10', {})
    per_class = {}
    for cname, opts in spec['classes'].items():
        cls = model.get_class(cname)
        keys = model.parameters_keys(cls) or []
        b, S, ev = analyse_class(
            model, cls,
            input_dims_spec={'r': {'S': opts['points']}, 't': {'S': opts['t']}},
            output_spec={k: {'S': v} for k, v in opts['outputs'].items()},
            units=('S',),
            param_dims_spec={k: {'S': v} for k, v in opts.get('params', {}).items()},
            opaque=opts.get('opaque'),
            seeds={f: {v: {'S': w} for v, w in vs.items()} for f, vs in (opts.get('seeds') or {}).items()},
            all_params='1')
        findings_from(S, ev, PROP, 'C10.weight', res)
        anchored = [nm for nm, d, _ in ev.outputs if nm in opts['outputs'] and isinstance(d, Lin)]
        res.obligations += S.constraints
        res.discharged += S.constraints - len(S.inconsistencies)
        res.evaluations += S.constraints
        res.nontrivial += S.nontrivial + S.checked
        per_class[cname] = {'constraints': S.constraints, 'binding': S.nontrivial, 'checked_nonliteral': S.checked,
                            'outputs_anchored': sorted(set(anchored)), 'top': ev.top_count,
                            'inconsistent': len(S.inconsistencies), 'seeded': getattr(ev, 'seeded', 0)}
        res.analysed.append(cname)
        if opts.get('seeds') and not getattr(ev, 'seeded', 0):
            raise AnalysisError('seed variable of %s produced no value-graph node' % cname)
        fl = floors.get(cname)
        if fl and (S.constraints < fl['constraints'] or len(set(anchored)) < fl['outputs_anchored']):
            raise AnalysisError('coverage of %s fell below the confirmed floor (%d constraints, floor %d; '
                                '%d anchored outputs, floor %d)' % (cname, S.constraints, fl['constraints'],
                                                                   len(set(anchored)), fl['outputs_anchored']))
        for node, what, a, b2 in S.samples[:2]:
            if node is not None:
                w = node.where
                res.sample({'solver': cname, 'file': w[0], 'function': w[1], 'construct': node.src[:120],
                            'constraint': what, 'lhs': S.show(a), 'rhs': S.show(b2)}, limit=40)
    for cname, opts in spec.get('branches', {}).items():
        branch_check(model, cname, opts, res, per_class)
    res.extra['per_class'] = per_class
    return res


def branch_check(model, cname, opts, res, per_class):
    """Weights of the values assigned in one branch (EHEP region I)."""
    cls = model.get_class(cname)
    fi = model.get_func(opts['function'])
    (avar, aval), = opts['anchor_assign'].items()
    branch = None
    for st in ast.walk(fi.node):
        if isinstance(st, ast.If):
            for s2 in st.body:
                if isinstance(s2, ast.Assign) and len(s2.targets) == 1 and isinstance(s2.targets[0], ast.Name) \
                        and s2.targets[0].id == avar and isinstance(s2.value, ast.Constant) and s2.value.value == aval:
                    branch = st.body
    if branch is None:
        raise AnalysisError('anchor branch (%s = %r) vanished from %s' % (avar, aval, opts['function']))
    # plain-name assignment targets inside the branch (by AST identity)
    targets = {}
    for st in branch:
        for sub in ast.walk(st):
            if isinstance(sub, ast.Assign):
                for t in sub.targets:
                    for e in ([t] if isinstance(t, ast.Name) else
                              (t.elts if isinstance(t, (ast.Tuple, ast.List)) else [])):
                        if isinstance(e, ast.Name):
                            targets[id(e)] = e.id
    b = Builder(model)
    b.run_solver(cls)
    keys = model.parameters_keys(cls) or []
    S = DimSystem(list(keys), units=('S',))
    pd = {k: S.dimless() for k in keys}
    for k, v in opts.get('params', {}).items():
        pd[k] = S.from_spec({'S': v})
    ev = DimEval(S, input_dims={'r': S.from_spec({'S': opts['points']}), 't': S.from_spec({'S': opts['t']})},
                 param_dims=pd)
    seen = {}
    for func, tnode, vnode in b.assign_log:
        if id(tnode) in targets:
            seen[targets[id(tnode)]] = (ev.dim(vnode), vnode)   # folds only what the value depends on
    checked = 0
    for nm, wspec in opts['required'].items():
        if nm not in seen:
            raise AnalysisError('branch value %s not found in the value graph of %s' % (nm, cname))
        d, n = seen[nm]
        if isinstance(d, Seq):
            d = ev.homog(d)
        if not isinstance(d, Lin):
            raise AnalysisError('weight of %s in the anchored branch of %s did not resolve' % (nm, cname))
        S.unify(d, S.from_spec({'S': wspec}), n, "weight of '%s' in the branch assigning %s=%r" % (nm, avar, aval))
        checked += 1
    for inc in S.inconsistencies:
        n = inc.node
        file, qual, line = n.where
        detail = '%s; %s vs %s; over %s' % (inc.what, S.show(inc.lhs), S.show(inc.rhs), ','.join(leaves_of(n)))
        res.add(Finding(PROP, 'C10.weight', file, qual, detail,
                        'similarity weight mismatch in %s: %s vs %s' % (inc.what, S.show(inc.lhs), S.show(inc.rhs)),
                        line=line, construct=n.src))
    res.obligations += S.constraints
    res.discharged += S.constraints - len(S.inconsistencies)
    res.evaluations += S.constraints
    res.nontrivial += S.nontrivial + S.checked
    res.analysed.append(cname + ' (branch %s=%r)' % (avar, aval))
    per_class[cname] = {'constraints': S.constraints, 'branch_values_checked': checked,
                        'inconsistent': len(S.inconsistencies)}
