"""C15 clauses for the Blake solver: the closed-form displacement is a solution of the problem it documents.

With the instance's moduli as symbols (lame and shear modulus expressed through the longitudinal modulus and
Poisson's ratio -- the isotropic identities between the six moduli are decided by the C15 moduli rule), the
fields of `_run` on the piece behind the wave front (cond true) satisfy, identically in r, t and the parameters:
  (1) strain_rad == d(displacement)/dr            (the Mathematica-derived strain formula is the derivative)
  (2) ref_density u_tt == (lambda + 2G)(u_rr + 2 u_r / r - 2 u / r^2)   (spherical elastic wave equation)
  (3) stress_rad at r = cavity_radius == -pressure_scale                (the suddenly applied cavity pressure)
  (4) displacement == 0 on the wave front  t = (r - cavity_radius) / c_l   (continuous with the undisturbed medium)
Normal-form differentiation through exp / sin / cos atoms; exponentials of sums are split additively so that
exp(-n tp), exp(n r / c_l), exp(-n (t + a / c_l)) are products of the same atoms; radical normal form.
"""
from fractions import Fraction

from ..model import AnalysisError, src_of
from ..report import Finding
from ..vg import Builder, Frame, Closure
from ..nf import NFEval, NAN, Mono, Sum, PW, Struct, leaves, DiffUnsupported
from ..ratnf import NFSym, is_zero
from ..radnf import RadNF, Unsupported
from .c05 import phi_leaves

PROP = 'C15'
CLS = 'exactpack.solvers.blake.blake:Blake'
ATTRS = ['geometry', 'cavity_radius', 'ref_density', 'pressure_scale', 'lame_mod', 'shear_mod', 'youngs_mod', 'poisson_ratio',
         'bulk_mod', 'long_mod']
R, T = 'input:r', 'input:t'


def wave(model, res):
    cls = model.get_class(CLS)
    runm = cls.find_method('_run')
    if runm is None:
        raise AnalysisError('Blake._run vanished')
    b = Builder(model)
    b.frame = Frame(None, cls.module, {}, None)
    inst = b.symbolic_obj(cls, ATTRS)
    rn, tn = b.make_input('r'), b.make_input('t')
    b.frame = Frame(None, cls.module, {}, None)
    ret = b.call_closure(Closure(runm, runm.node, None, self_node=inst, cls=cls, module=cls.module), [rn, tn], {}, runm.node)
    sols = [l for l in phi_leaves(ret) if l.kind == 'call' and l.val == 'exactpack.base.ExactSolution']
    if not sols:
        raise AnalysisError('Blake._run returns no ExactSolution')
    sol = sols[-1]
    data, names = sol.args[0], (sol.args[1] if len(sol.args) > 1 else sol.kw.get('names'))
    fields = {a.val: d for a, d in zip(names.args, data.args)}
    need = ['displacement', 'strain_rr', 'stress_rr']
    if any(k not in fields for k in need):
        raise AnalysisError('Blake._run no longer returns %s' % [k for k in need if k not in fields])

    def evaluator(r_at=None, t_at=None):
        ev = NFEval(ATTRS)
        ev.split_exp = True
        pm, nu = ev.atom('param:long_mod'), ev.atom('param:poisson_ratio')
        one = ev.num(1)
        omn = ev.add(one, nu, -1)
        inv = lambda z: ev.power(z, ev.S.F(-1))
        lam = ev.mul(ev.mul(pm, nu), inv(omn))
        G = ev.mul(ev.mul(pm, ev.add(one, ev.mul(ev.num(2), nu), -1)), inv(ev.mul(ev.num(2), omn)))
        for n_ in b.trace:
            if n_.kind == 'param' and n_.val == 'lame_mod':
                ev.memo[n_.nid] = lam
            if n_.kind == 'param' and n_.val == 'shear_mod':
                ev.memo[n_.nid] = G
        if r_at is not None:
            ev.memo[rn.nid] = r_at(ev)
        if t_at is not None:
            ev.memo[tn.nid] = t_at(ev)
        return ev

    def behind(ev, node, what):
        x = ev.nf(node)
        cand = [leaf for conds, leaf in leaves(x) if conds and all(pol for _, pol, _ in conds)]
        if not cand:
            cand = [leaf for conds, leaf in leaves(x) if not conds]
        if len(cand) != 1 or cand[0] is NAN or isinstance(cand[0], Struct):
            raise AnalysisError('Blake._run: %s behind the wave front is not a closed form' % what)
        return cand[0]

    def zero(ev, y):
        if y is NAN or isinstance(y, (PW, Struct)):
            return False
        sy = NFSym(ev)
        try:
            cx = sy.conv(y)
            if is_zero(cx):
                return True
            try:
                return RadNF(sy.units).is_zero(cx)
            except Unsupported:
                return False
        except TypeError:
            return False

    def oblige(label, ok, msg, node):
        res.obligations += 1
        res.evaluations += 1
        res.nontrivial += 1
        at = node.origin[1] if getattr(node, 'origin', None) else None
        if ok:
            res.discharged += 1
            res.sample({'rule': 'C15.wave', 'identity': label}, limit=40)
        else:
            res.add(Finding(PROP, 'C15.wave', runm.module.relpath, runm.qualname, label, msg,
                            line=getattr(at, 'lineno', 0) or runm.node.lineno, construct=src_of(at)[:160] if at is not None else 'def _run'))
    ev = evaluator()
    u = behind(ev, fields['displacement'], 'displacement')
    er = behind(ev, fields['strain_rr'], 'strain_rad')
    try:
        u_r = ev.diff(u, R)
        u_rr = ev.diff(u_r, R)
        u_tt = ev.diff(ev.diff(u, T), T)
    except DiffUnsupported as ex:
        raise AnalysisError('Blake._run: the displacement cannot be differentiated: %s' % ex)
    oblige('strain_rad == d(displacement)/dr', zero(ev, ev.add(er, u_r, -1)),
           'Blake._run: the radial strain formula is not the r-derivative of the displacement formula', fields['strain_rr'])
    r = ev.atom(R)
    inv = lambda z: ev.power(z, ev.S.F(-1))
    lap = ev.add(ev.add(u_rr, ev.mul(ev.mul(ev.num(2), u_r), inv(r))), ev.mul(ev.mul(ev.num(2), u), inv(ev.mul(r, r))), -1)
    wave_res = ev.add(ev.mul(ev.atom('param:ref_density'), u_tt), ev.mul(ev.atom('param:long_mod'), lap), -1)
    oblige('ref_density u_tt == long_mod (u_rr + 2 u_r/r - 2 u/r^2)', zero(ev, wave_res),
           'Blake._run: the displacement does not satisfy the spherical elastic wave equation with c_l^2 = long_mod / ref_density',
           fields['displacement'])
    ev2 = evaluator(r_at=lambda e: e.atom('param:cavity_radius'))
    srr = behind(ev2, fields['stress_rr'], 'stress_rad')
    oblige('stress_rad at r = cavity_radius == -pressure_scale', zero(ev2, ev2.add(srr, ev2.atom('param:pressure_scale'))),
           'Blake._run: at the cavity wall the radial stress is not minus the applied pressure for t > 0', fields['stress_rr'])
    # wave front: t = (r - a) / c_l, with c_l as the code defines it
    cl_nodes = [v for func, tnode, v in b.assign_log if func is runm and tnode.id == 'cl']
    if not cl_nodes:
        raise AnalysisError('Blake._run: the longitudinal sound speed `cl` vanished')
    ev3 = evaluator(t_at=lambda e: e.mul(e.add(e.atom(R), e.atom('param:cavity_radius'), -1), e.power(e.nf(cl_nodes[-1]), e.S.F(-1))))
    u0 = behind(ev3, fields['displacement'], 'displacement')
    oblige('displacement == 0 on the wave front t = (r - cavity_radius)/c_l', zero(ev3, u0),
           'Blake._run: the displacement formula does not vanish on the wave front: the field jumps where the solution is switched on',
           fields['displacement'])
