"""C07 -- independent routes agree, by-construction clauses (DESIGN 3, C07)."""
import ast

from ..model import AnalysisError, ClassInfo, src_of
from ..report import Result, Finding
from ..vg import Builder, walk
from ..nf import NFEval, NAN, leaves
from .c05 import phi_leaves
from .c20 import const_value

LEVEL = 'other'
PROP = 'C07'
GEOM = {'Planar': 1, 'Cylindrical': 2, 'Spherical': 3}
MIN_WRAPPERS = 60       # confirmed on the pinned tree: 66


def _f(rule, ci, detail, msg, node=None, construct=''):
    return Finding(PROP, rule, ci.module.relpath, ci.name, detail, msg, line=getattr(node, 'lineno', ci.node.lineno),
                   construct=construct or ('class %s' % ci.name))


def geometry_wrappers(model, res):
    n = 0
    for ci in model.solver_classes():
        prefix = next((p for p in GEOM if ci.name.startswith(p)), None)
        if prefix is None or '_run' in ci.methods:
            continue
        general = next((c for c in ci.mro[1:] if isinstance(c, ClassInfo) and '_run' in c.methods), None)
        if general is None or general.name == 'ExactSolver':
            continue
        if 'geometry' not in (model.parameters_keys(general) or []):
            continue          # e.g. PlanarSandwich(Rod1D): not a geometry wrapper
        n += 1
        res.obligations += 1
        res.evaluations += 1
        ok = True
        owner, gval = ci.find_attr('geometry')
        g = const_value(gval) if gval is not None else None
        if g != GEOM[prefix]:
            res.add(_f('C07.wrapper', ci, 'geometry constant %s' % g,
                       "%s fixes geometry = %s but its name says %s (= %d): it does not run the general solver %s "
                       "with that geometry" % (ci.name, g, prefix, GEOM[prefix], general.name), gval))
            ok = False
        gk = model.parameters_keys(general) or []
        wk = model.parameters_keys(ci) or []
        extra = [k for k in wk if k not in gk]
        if extra:
            res.add(_f('C07.wrapper', ci, 'parameters not in general class: %s' % extra,
                       "%s advertises parameters %s that the general solver %s does not have" % (ci.name, extra, general.name)))
            ok = False
        methods = [m for m in ci.methods if m != '__init__']
        if methods:
            res.add(_f('C07.wrapper', ci, 'defines methods %s' % sorted(methods),
                       "%s overrides %s of %s: wrapper and general class no longer execute the same code"
                       % (ci.name, sorted(methods), general.name)))
            ok = False
        for name, vals in ci.attrs.items():
            if name in ('parameters', 'geometry', '__doc__'):
                continue
            if name not in gk:
                # overriding a non-parameter attribute of the general class changes behaviour invisibly
                o2, v2 = general.find_attr(name)
                if o2 is not None:
                    res.add(_f('C07.wrapper', ci, 'overrides attribute %s' % name,
                               "%s overrides the non-parameter attribute %s of %s" % (ci.name, name, general.name), vals[-1]))
                    ok = False
        if '__init__' in ci.methods:
            ok = blackbox_init(model, ci, GEOM[prefix], res) and ok
            res.nontrivial += 1
        if ok:
            res.discharged += 1
    if n < MIN_WRAPPERS:
        raise AnalysisError('only %d geometry wrapper classes found (confirmed >= %d)' % (n, MIN_WRAPPERS))
    res.extra['geometry_wrappers'] = n


def blackbox_init(model, ci, geom, res):
    """A wrapper constructor may only forward its arguments and fix symmetry = geometry - 1."""
    init = ci.methods['__init__']
    sym = None
    forwards = False
    for st in init.node.body:
        if isinstance(st, ast.Expr) and isinstance(st.value, ast.Constant):
            continue
        if isinstance(st, ast.Expr) and isinstance(st.value, ast.Call) and src_of(st.value.func).endswith('__init__'):
            forwards = True
            continue
        if isinstance(st, ast.Assign) and len(st.targets) == 1:
            t, v = st.targets[0], st.value
            # initial_conditions['symmetry'] = k   |   initial_conditions = dict(initial_conditions, symmetry=k)
            if isinstance(t, ast.Subscript) and isinstance(t.slice, ast.Constant) and t.slice.value == 'symmetry':
                sym = const_value(v)
                continue
            if isinstance(v, ast.Call) and isinstance(v.func, ast.Name) and v.func.id == 'dict':
                for k in v.keywords:
                    if k.arg == 'symmetry':
                        sym = const_value(k.value)
                continue
        res.add(_f('C07.wrapper', ci, '__init__ does more than forward',
                   "%s.__init__ contains `%s`: a geometry wrapper may only fix the symmetry and forward"
                   % (ci.name, src_of(st)[:60]), st))
        return False
    if not forwards:
        res.add(_f('C07.wrapper', ci, '__init__ does not forward', '%s.__init__ does not call the general constructor' % ci.name,
                   init.node))
        return False
    if sym is None or sym != geom - 1:
        res.add(_f('C07.wrapper', ci, 'symmetry %s for geometry %d' % (sym, geom),
                   "%s sets symmetry = %s but geometry = %d requires symmetry = %d (density exponent of the "
                   "converging flow)" % (ci.name, sym, geom, geom - 1), init.node))
        return False
    return True


SANDWICH = {
    'exactpack.solvers.heat.planar_sandwich:PlanarSandwich': {'abc': (1, 0, 1, 0), 'gamma1': 'TB', 'gamma2': 'TT'},
    # BC2 (flux at both ends) needs equal fluxes; Rod1D.modes_BC2 reads gamma1 only
    'exactpack.solvers.heat.planar_sandwich_hot:PlanarSandwichHot': {'abc': (0, 1, 0, 1), 'gamma1': 'F', 'gamma2': 'F',
                                                                     'coeff_uses': ('gamma1',)},
    'exactpack.solvers.heat.planar_sandwich_half:PlanarSandwichHalf': {'abc': (1, 0, 0, 1), 'gamma1': 'TB', 'gamma2': 'FT'},
}


def _param_of(n, ci=None):
    """Name of the parameter a node certainly equals: the parameter itself, `kwargs.get(k, <param k>)`, or
    `kwargs[k] if k in kwargs else <param k>` (the symbolic parameter already stands for keyword-or-default)."""
    if n is None:
        return None
    if n.kind == 'param':
        return n.val
    if n.kind == 'mcall' and n.val == 'get' and len(n.args) == 3 and n.args[0].kind == 'kwargs' \
            and n.args[1].kind == 'const' and n.args[2].kind == 'param' and n.args[2].val == n.args[1].val:
        return n.args[2].val
    if n.kind == 'phi' and len(n.args) == 3:
        c, a, d = n.args
        if c is a and a.kind == 'mcall' and a.val == 'get' and len(a.args) == 2 and a.args[0].kind == 'kwargs' \
                and a.args[1].kind == 'const' and d.kind == 'param' and d.val == a.args[1].val and ci is not None:
            # `kwargs.get(k) or self.k`: a falsy keyword value is replaced by the default -- the same value only
            # when the class default is itself 0
            owner, dflt = ci.find_attr(d.val)
            if dflt is not None and const_value(dflt) == 0:
                return d.val
            return None
        if c.kind == 'cmp' and c.val in ('in', 'not in') and c.args[0].kind == 'const' and c.args[1].kind == 'kwargs':
            if c.val == 'not in':
                a, d = d, a
            if a.kind == 'sub' and a.args[0].kind == 'kwargs' and a.args[1].kind == 'const' and a.args[1].val == c.args[0].val \
                    and _param_of(d, ci) == c.args[0].val:
                return c.args[0].val
    return None


def _mentions(n, target):
    seen, todo = set(), [n]
    while todo:
        x = todo.pop()
        if x is target:
            return True
        if x.nid in seen:
            continue
        seen.add(x.nid)
        todo.extend(a for a in x.args if hasattr(a, 'nid'))
        todo.extend(a for a in (x.kw or {}).values() if hasattr(a, 'nid'))
    return False


def _mentions_param(n, name, ci):
    seen, todo = set(), [n]
    while todo:
        x = todo.pop()
        if x.nid in seen:
            continue
        seen.add(x.nid)
        if x.kind in ('param', 'mcall', 'phi') and _param_of(x, ci) == name:
            return True
        todo.extend(a for a in x.args if hasattr(a, 'nid'))
        todo.extend(a for a in (x.kw or {}).values() if hasattr(a, 'nid'))
    return False


def sandwiches(model, res):
    for cname, want in SANDWICH.items():
        ci = model.get_class(cname)
        res.obligations += 1
        res.evaluations += 1
        res.nontrivial += 1
        ok = True
        if '_run' in ci.methods or not ci.is_subclass_of('exactpack.solvers.heat.rod1d:Rod1D'):
            res.add(_f('C07.sandwich-map', ci, 'not a thin wrapper of Rod1D',
                       '%s no longer delegates its solution to Rod1D._run' % ci.name))
            ok = False
        got = tuple(const_value(ci.find_attr(n)[1]) if ci.find_attr(n)[1] is not None else None
                    for n in ('alpha1', 'beta1', 'alpha2', 'beta2'))
        if got != tuple(float(x) for x in want['abc']):
            res.add(_f('C07.sandwich-map', ci, 'boundary-condition pattern %s' % (got,),
                       '%s sets (alpha1,beta1,alpha2,beta2) = %s but its documented boundary condition is %s'
                       % (ci.name, got, want['abc'])))
            ok = False
        # the constructor, executed on the value graph for symbolic keywords: gamma_i must BE the class's parameter
        # (keyword or default, for every value including 0), and the Fourier coefficients that Rod1D.__init__
        # computes must be computed from it (i.e. it is set before Rod1D.__init__ runs)
        b = Builder(model)
        objn, _ = b.run_solver(ci, run=False)
        h = b.heap[objn.val.oid]
        coeffs = [h[a] for a in ('An', 'Bn') if a in h]
        if not coeffs:
            raise AnalysisError('%s: Rod1D.__init__ no longer stores An / Bn' % ci.name)
        for g in ('gamma1', 'gamma2'):
            n = h.get(g)
            got = _param_of(n, ci)
            if got != want[g]:
                res.add(_f('C07.sandwich-map', ci, '%s mapping %s' % (g, got),
                           "%s must pass %s = its parameter '%s' (keyword or default, for every value) to the rod; the "
                           "constructor stores `%s`%s" % (ci.name, g, want[g], (n.src if n is not None else None),
                                                          ": a keyword value of 0 is replaced by the default"
                                                          if n is not None and n.kind == 'phi' and n.args[0] is n.args[1] else ''),
                           getattr(n, 'origin', (None, None))[1] if n is not None else None))
                ok = False
            elif g in want.get('coeff_uses', ('gamma1', 'gamma2')) and not any(_mentions_param(c, want[g], ci) for c in coeffs):
                res.add(_f('C07.sandwich-map', ci, '%s set after the coefficients' % g,
                           "%s sets %s from '%s' only after Rod1D.__init__ has computed the Fourier coefficients: the series is "
                           "the one for the class default" % (ci.name, g, want[g]), getattr(n, 'origin', (None, None))[1]))
                ok = False
        if ok:
            res.discharged += 1


def field_nfs(model, cname, ev_keys):
    cls = model.get_class(cname)
    b = Builder(model)
    objn, ret = b.run_solver(cls)
    ev = NFEval(ev_keys)
    sols = [l for l in phi_leaves(ret) if l.kind == 'call' and l.val == 'exactpack.base.ExactSolution']
    if len(sols) != 1:
        raise AnalysisError('%s: expected one returned solution, found %d' % (cname, len(sols)))
    sol = sols[0]
    data, names = sol.args[0], (sol.args[1] if len(sol.args) > 1 else sol.kw.get('names'))
    out = {}
    for a, d in zip(names.args, data.args):
        out[a.val] = ev.nf(d)
    # in-place updates of fields of the returned solution: soln.velocity *= -1
    for n in b.trace:
        if n.kind == 'attrstore' and n.args and n.args[0] is sol and n.val in out:
            for m in walk(n.args[1]):
                if m.kind == 'attr' and m.args and m.args[0] is sol and m.val in out:
                    ev.memo[m.nid] = out[m.val]
            out[n.val] = ev.nf(n.args[1])
    return ev, out


def noh2_vs_cog(model, res):
    keys = ['geometry', 'gamma', 'rho0', 'e0']
    ev1, f1 = field_nfs(model, 'exactpack.solvers.noh2.noh2:Noh2', keys)
    ev2, f2 = field_nfs(model, 'exactpack.solvers.noh2.noh2_cog:Noh2Cog', keys)
    ev2.sums.update(ev1.sums)
    ci = model.get_class('exactpack.solvers.noh2.noh2_cog:Noh2Cog')
    for name in ('density', 'velocity', 'pressure', 'specific_internal_energy'):
        res.obligations += 1
        res.evaluations += 1
        res.nontrivial += 1
        if name not in f1 or name not in f2:
            raise AnalysisError('field %s missing from Noh2/Noh2Cog' % name)
        a, b = f1[name], f2[name]
        ka = a.key() if a is not NAN else 'NAN'
        kb = b.key() if b is not NAN else 'NAN'
        # the Cog1 form has an extra t<=0 NaN branch in tau = 1 - t; compare the regular pieces
        pieces = [l.key() for c, l in leaves(b) if l is not NAN]
        regular = [l for c, l in leaves(b) if l is not NAN]
        if ka == kb or (regular and all(ev2.equal(l, a) for l in regular)):
            res.discharged += 1
            res.sample({'rule': 'C07.noh2cog', 'field': name, 'normal_form': ka[:140]}, limit=30)
        else:
            res.add(_f('C07.noh2cog', ci, "field '%s'" % name,
                       "Noh2 and its Coggeshall form Noh2Cog return different expressions for '%s': %s versus %s"
                       % (name, ka[:200], (pieces[0] if pieces else kb)[:200])))


def noh_vs_cog19(model, res):
    """Noh and Cog19 are the same problem (uniform inflow u0 < 0 of a gamma-law gas) in two notations: with u0 = -|u0|
    substituted (both constructors reject u0 >= 0 / take |u0|), density, velocity, pressure and specific internal energy have
    the same normal form on every piece, and the pieces are separated by the same shock position."""
    keys = ['geometry', 'gamma', 'rho0', 'u0', 'Gamma']
    out = {}
    for cname in ('exactpack.solvers.noh.noh1:Noh', 'exactpack.solvers.cog.cog19:Cog19'):
        cls = model.get_class(cname)
        b = Builder(model)
        objn, ret = b.run_solver(cls)
        ev = NFEval(keys)
        for n in b.trace:
            if n.kind == 'param' and n.val == 'u0':
                ev.memo[n.nid] = ev.mul(ev.num(-1), ev.atom('param:-u0'))
        sols = [l for l in phi_leaves(ret) if l.kind == 'call' and l.val == 'exactpack.base.ExactSolution']
        if not sols:
            raise AnalysisError('%s returns no ExactSolution' % cname)
        sol = sols[-1]
        data, names = sol.args[0], (sol.args[1] if len(sol.args) > 1 else sol.kw.get('names'))
        out[cname] = (ev, {a.val: ev.nf(d) for a, d in zip(names.args, data.args)})
    (ev1, f1), (ev2, f2) = out.values()
    ev2.sums.update(ev1.sums)
    ci = model.get_class('exactpack.solvers.cog.cog19:Cog19')
    from ..ratnf import NFSym, is_zero

    def same(x, y):
        if ev2.equal(x, y):
            return True
        try:
            return is_zero(NFSym(ev2).conv(ev2.add(x, y, -1)))      # rational normal form with canonical symbolic exponents
        except TypeError:
            return False
    for name in ('density', 'velocity', 'pressure', 'specific_internal_energy'):
        res.obligations += 1
        res.evaluations += 1
        res.nontrivial += 1
        if name not in f1 or name not in f2:
            raise AnalysisError('field %s missing from Noh / Cog19' % name)
        a, b_ = f1[name], f2[name]
        la = {tuple((ck, pol) for ck, pol, _ in c): l for c, l in leaves(a)}
        lb = {tuple((ck, pol) for ck, pol, _ in c): l for c, l in leaves(b_)}
        ok = set(la) == set(lb) and all((la[k] is NAN and lb[k] is NAN) or (la[k] is not NAN and lb[k] is not NAN and same(la[k], lb[k]))
                                        for k in la)
        if not ok and len(la) == len(lb) == 2:
            # same two pieces with differently written shock-position tests: the tests must be the same comparison
            ca = [c for c, l in leaves(a)][0][0][2]
            cb = [c for c, l in leaves(b_)][0][0][2]
            same_test = ca is not None and cb is not None and ca.kind == cb.kind == 'cmp' and ca.val == cb.val and \
                all(same(ev1.nf(x), ev2.nf(y)) for x, y in zip(ca.args[:2], cb.args[:2]))
            va, vb = sorted(la.items(), key=lambda kv: kv[0][0][1]), sorted(lb.items(), key=lambda kv: kv[0][0][1])
            ok = same_test and all(x[1] is not NAN and y[1] is not NAN and same(x[1], y[1]) for x, y in zip(va, vb))
        if ok:
            res.discharged += 1
            res.sample({'rule': 'C07.noh-cog19', 'field': name, 'pieces': len(la)}, limit=30)
        else:
            res.add(_f('C07.noh-cog19', ci, "field '%s'" % name,
                       "Noh and its Coggeshall form Cog19 return different expressions for '%s' (with u0 = -|u0|): %s versus %s"
                       % (name, (a.key() if a is not NAN else 'NaN')[:200], (b_.key() if b_ is not NAN else 'NaN')[:200])))


BURN = ['exactpack.solvers.kenamond.kenamond1:Kenamond1', 'exactpack.solvers.kenamond.kenamond2:Kenamond2',
        'exactpack.solvers.kenamond.kenamond3:Kenamond3']


def data_leaves(node):
    """Parameter leaves the VALUE depends on (array shapes and branch conditions excluded)."""
    names, seen, stack = set(), set(), [node]
    while stack:
        n = stack.pop()
        if n is None or n.nid in seen:
            continue
        seen.add(n.nid)
        if n.kind == 'param':
            names.add(n.val)
        if n.kind == 'call' and n.val in ('numpy.zeros', 'numpy.empty', 'numpy.ones', 'builtins.len', 'builtins.range'):
            continue
        if n.kind == 'attr' and n.val in ('shape', 'size', 'ndim'):
            continue
        args = n.args[1:] if n.kind == 'phi' else n.args
        if n.kind == 'store':
            args = [n.args[0], n.args[2]]
        if n.kind == 'sub':
            args = [n.args[0]]
        stack.extend(a for a in args if a is not None)
        stack.extend(n.kw.values())
    return names


def burn_2d_3d(model, res):
    for cname in BURN:
        cls = model.get_class(cname)
        b = Builder(model)
        objn, ret = b.run_solver(cls)
        nodes = []
        for sol in phi_leaves(ret):
            if sol.kind == 'call' and sol.val == 'exactpack.base.ExactSolution':
                data, names = sol.args[0], (sol.args[1] if len(sol.args) > 1 else sol.kw.get('names'))
                for a, d in zip(names.args, data.args):
                    if a.val == 'burntime':
                        nodes.append(d)
        if len(nodes) < 2:
            raise AnalysisError('%s: expected a 2D and a 3D return' % cname)
        res.obligations += 1
        res.evaluations += 1
        res.nontrivial += 1
        runm = cls.find_method('_run')
        if not all(n is nodes[0] for n in nodes):
            res.add(Finding(PROP, 'C07.geometry-free', runm.module.relpath, runm.qualname, '%s: 2D and 3D burn times differ' % cls.name,
                            '%s returns different burn-time values for geometry 2 and 3' % cls.name, line=runm.node.lineno,
                            construct='burntime'))
            continue
        lv = data_leaves(nodes[0])
        if 'geometry' in lv:
            res.add(Finding(PROP, 'C07.geometry-free', runm.module.relpath, runm.qualname, '%s: burn time depends on geometry' % cls.name,
                            "%s: the burn-time value depends on the `geometry` parameter, so the 2D and 3D solvers can "
                            "disagree on a common plane" % cls.name, line=runm.node.lineno, construct='burntime'))
        else:
            res.discharged += 1


def run(model, tier):
    res = Result(PROP)
    res.explanation = (
        'By-construction agreement of routes that are defined in terms of each other. R7.1: every '
        'Planar/Cylindrical/Spherical wrapper of a general solver fixes the geometry constant its name says, adds no '
        'parameter, overrides no method and no non-parameter attribute (black-box Noh: constructor only forwards and '
        'sets symmetry = geometry - 1). R7.2: the three planar sandwiches set the (alpha, beta) pattern of the rod '
        'boundary condition they document and map their boundary values to gamma1/gamma2 before Rod1D.__init__, and '
        'define no _run. R7.3: the normal forms of density, velocity, pressure and energy of Noh2._run equal those '
        'of Noh2Cog._run (Cog1 with b=0, Gamma=1, temp0=e0(gamma-1)/Gamma, t->1-t, velocity negated). R7.4: the burn '
        'time returned by Kenamond1-3 is the same value for geometry 2 and 3 and does not depend on `geometry`. '
        'R7.5: every wave-speed / star-density / fan helper call of the two Riemann drivers takes its (p, rho, u, gamma) '
        'from one side (the structural part of IGEOS = GenEOS). The numeric agreement IGEOS vs GenEOS, Noh vs Cog19 vs '
        'black-box Noh and rod BC3 vs mirrored BC4 is not decided.')
    res.rule_text = 'instance = one wrapper class / one field pair / one burn-time solver'
    res.trusted_base = ['CPython ast', 'NF engine']
    geometry_wrappers(model, res)
    sandwiches(model, res)
    noh2_vs_cog(model, res)
    burn_2d_3d(model, res)
    # R7.5 the ideal-gas and the general-EOS Riemann drivers build every one-sided wave (speed, star
    # density, fan profile) from ONE side's state: the by-construction part of their agreement
    from .c09 import side_consistency
    side_consistency(model, res, prop=PROP, rule='C07.side-consistency',
                     callees={'shock_velocity', 'shock_speed', 'rho_star_shock', 'rho_star_rarefaction',
                              'rho_p_u_rarefaction', 'star_velocity', 'shock', 'rarefaction'}, min_calls=6,
                     why="one solver computes this wave with the other gas's data while the sibling solver uses the matching "
                         "side, so the ideal-gas and general-EOS routes disagree whenever the two states differ in that component")
    from . import c14_modes
    c14_modes.rod_mirror(model, res)
    noh_vs_cog19(model, res)
    from . import c02_blackbox
    c02_blackbox.geometry_link(model, res)     # general black-box Noh class: symmetry = geometry - 1 however it is constructed
    return res
