"""C20 clause "valid requests inside the domain never produce NaN or infinity" -- the one part of it that is visible
in the shape of the code: a contradiction between a test and a division (Engler et al.: if one place checks that a
quantity may vanish and another divides by it unconditionally, one of them is wrong).

Sedov's constructor classifies the problem with tests `abs(E) <= small` and goes on, without raising, for E = 0 (the
'singular' solution type, the special singularities omega2 / omega3 are all documented, valid problems).  Every division the
constructor executes unconditionally, whatever the outcome of those tests, must then have a denominator that does not vanish
identically on E = 0.  (A denominator the branch itself patches -- `self.denom2 = 1.e-8` -- is piecewise and is not reported:
that is the code's guard.)  Decided with exact polynomial arithmetic: the numerator of E, as a polynomial in the parameters,
divides the numerator of the denominator.
"""
import ast

import sympy as sp

from ..model import AnalysisError, src_of
from ..report import Finding
from ..vg import Builder, Frame
from ..nf import NFEval, NAN, PW, Struct
from ..ratnf import NFSym

PROP = 'C20'
RULE = 'C20.zero-division'
SEDOV = 'exactpack.solvers.sedov.sedov:Sedov'


def _abs_tests(test):
    """E of every `abs(E) <= x` / `abs(E) < x` in a test."""
    out = []
    for n in ast.walk(test):
        if isinstance(n, ast.Compare) and len(n.ops) == 1 and isinstance(n.ops[0], (ast.LtE, ast.Lt)) \
                and isinstance(n.left, ast.Call) and isinstance(n.left.func, ast.Name) and n.left.func.id == 'abs' and n.left.args:
            out.append(n.left.args[0])
    return out


def _raises(body):
    return any(isinstance(x, ast.Raise) for st in body for x in ast.walk(st))


def _labels_allowed(test, selfn, labels):
    """Zero cases still possible inside `if self.X == 'lit'` / `if self.X != 'lit'` (None: not such a test)."""
    if not (isinstance(test, ast.Compare) and len(test.ops) == 1 and isinstance(test.ops[0], (ast.Eq, ast.NotEq))
            and isinstance(test.left, ast.Attribute) and isinstance(test.left.value, ast.Name) and test.left.value.id == selfn
            and isinstance(test.comparators[0], ast.Constant) and isinstance(test.comparators[0].value, str)):
        return None
    attr, lit = test.left.attr, test.comparators[0].value
    mine = {lab: zi for (a, lab), zi in labels.items() if a == attr}
    if not mine:
        return None
    if isinstance(test.ops[0], ast.Eq):
        return {zi for lab, zi in mine.items() if lab == lit}
    return {zi for lab, zi in mine.items() if lab != lit}


def sedov(model, res, prop=PROP, rule=RULE):
    cls = model.get_class(SEDOV)
    init = cls.find_method('__init__')
    if init is None:
        raise AnalysisError('Sedov.__init__ vanished')
    keys = list(model.parameters_keys(cls) or [])
    b = Builder(model)
    b.frame = Frame(None, cls.module, {}, None)
    objn = b.new_obj(cls, True)
    selfn = init.node.args.args[0].arg
    b.frame = Frame(init, cls.module, {selfn: objn, init.node.args.kwarg.arg if init.node.args.kwarg else 'kwargs': b.mk('kwargs')},
                    self_obj=objn, cls=cls)
    ev = NFEval(keys)
    sy = NFSym(ev)

    def closed(n):
        v = ev.nf(n)
        if v is NAN or isinstance(v, (PW, Struct)):
            return None
        try:
            return sy.conv(v)
        except (TypeError, AnalysisError):
            return None

    zeros = []          # (numerator polynomial of E, source of the test)
    labels = {}         # (attribute, string label) -> index of the zero case that label stands for
    divisions = []      # (denominator node, division ast)
    for st in init.node.body:
        if isinstance(st, ast.If):
            node = st
            while True:
                if not _raises(node.body):
                    for e in _abs_tests(node.test):
                        c = closed(b.eval(e))
                        if c is not None:
                            num = sp.factor(sp.fraction(sp.together(c))[0])
                            if num != 0 and num.free_symbols:
                                zeros.append((num, src_of(node.test)))
                                for s2 in node.body:
                                    if isinstance(s2, ast.Assign) and isinstance(s2.targets[0], ast.Attribute) \
                                            and isinstance(s2.value, ast.Constant) and isinstance(s2.value.value, str):
                                        labels[(s2.targets[0].attr, s2.value.value)] = len(zeros) - 1
                if len(node.orelse) == 1 and isinstance(node.orelse[0], ast.If):
                    node = node.orelse[0]
                    continue
                break
        before = len(b.trace)
        b.exec_stmt(st)
        if isinstance(st, (ast.Assign, ast.AugAssign, ast.Expr)):
            for n in b.trace[before:]:
                if n.kind == 'binop' and n.val in ('/', '//', '%') and len(n.args) == 2:
                    divisions.append((n.args[1], n, st, None))
        elif isinstance(st, ast.If) and not _abs_tests(st.test):
            # a block guarded by the label a classification chain assigned: `if self.solution_type != 'singular':`
            allowed = _labels_allowed(st.test, selfn, labels)
            if allowed is None and isinstance(st.test, ast.Constant) and st.test.value:
                allowed = set(range(len(zeros)))          # `if True:` guards nothing
            if allowed is not None:
                inside = {id(x) for s2 in st.body for x in ast.walk(s2)}
                for n in b.trace[before:]:
                    if n.kind == 'binop' and n.val in ('/', '//', '%') and len(n.args) == 2 and n.origin \
                            and id(n.origin[1]) in inside:
                        divisions.append((n.args[1], n, st, allowed))
    if len(zeros) < 3:
        raise AnalysisError('Sedov.__init__: only %d classification tests abs(E) <= small found (confirmed: 3)' % len(zeros))
    if len(divisions) < 10:
        raise AnalysisError('Sedov.__init__: only %d unconditional divisions found (confirmed: 12)' % len(divisions))
    seen = set()
    for den, node, st, allowed in divisions:
        c = closed(den)
        if c is None:
            continue                 # piecewise: patched by the branch that found it small
        num = sp.fraction(sp.together(c))[0]
        if not num.free_symbols:
            continue
        key = (sp.srepr(sp.factor(num)), None if allowed is None else tuple(sorted(allowed)))
        if key in seen:
            continue
        seen.add(key)
        res.obligations += 1
        res.evaluations += 1
        res.nontrivial += 1
        hit = None
        for zi, (z, src) in enumerate(zeros):
            if allowed is not None and zi not in allowed:
                continue             # the guarding label excludes this zero case
            # every non-constant factor of z that divides num makes num vanish on (part of) z = 0; z = 0 forces num = 0
            # identically iff every irreducible factor of z divides num... the tests here have one non-trivial factor
            zf = [f for f, _ in sp.factor_list(z)[1] if f.free_symbols]
            if zf and all(sp.rem(sp.expand(num), sp.expand(f), *sorted(f.free_symbols, key=str)) == 0 for f in zf):
                hit = (z, src)
                break
        o = node.origin[1] if node.origin else None
        if hit is None:
            res.discharged += 1
            res.sample({'rule': rule, 'class': 'Sedov', 'denominator': src_of(o)[:80] if o is not None else str(num)[:80],
                        'verdict': 'does not vanish identically where a classification test allows its quantity to be 0'}, limit=40)
        else:
            res.add(Finding(prop, rule, init.module.relpath, init.qualname, 'division by zero in an accepted case: %s' % (src_of(o.right if isinstance(o, ast.BinOp) else o)[:60] if o is not None else 'denominator'),
                            "Sedov.__init__ divides by `%s` on every path, but this denominator vanishes identically where the quantity of the "
                            "constructor's own test `%s%s` is zero, and that test accepts the case as a valid problem (it selects a solution type and goes on): for "
                            "the exactly singular parameters the constructor raises ZeroDivisionError (floats) or stores inf (numpy scalars) "
                            "instead of returning the documented solution"
                            % (src_of(o.right if isinstance(o, ast.BinOp) else o)[:90] if o is not None else str(num)[:90],
                               hit[1][:70], ''),
                            line=getattr(o, 'lineno', st.lineno), construct=src_of(st)[:100]))


def guarded_elsewhere(model, res, prop=PROP, rule=RULE):
    """Second contradiction shape: one method of Sedov tests `density > 0.` before it divides by density ("compute ... only if
    density is greater than 0": the vacuum hole has density exactly 0), another divides by the quantity of the same name
    without any test.  Every division in the class whose denominator mentions a name that a sibling division guards must be
    under a test of that name (an `if`, or the condition of a numpy.where around it)."""
    cls = model.get_class(SEDOV)
    guarded = {}
    funcs = list(cls.methods.values())
    for fi in funcs:
        for st in ast.walk(fi.node):
            if isinstance(st, ast.If) and isinstance(st.test, ast.Compare) and len(st.test.ops) == 1 \
                    and isinstance(st.test.ops[0], (ast.Gt, ast.NotEq)) and isinstance(st.test.left, ast.Name) \
                    and isinstance(st.test.comparators[0], ast.Constant) and st.test.comparators[0].value == 0:
                nm = st.test.left.id
                for x in ast.walk(ast.Module(body=st.body, type_ignores=[])):
                    if isinstance(x, ast.BinOp) and isinstance(x.op, ast.Div) and any(
                            isinstance(y, ast.Name) and y.id == nm for y in ast.walk(x.right)):
                        guarded.setdefault(nm, (fi, st))
    if not guarded:
        raise AnalysisError('Sedov: no division guarded by a positivity test found (confirmed: density in physical())')
    n = 0
    for fi in funcs:
        parents = {}
        for p in ast.walk(fi.node):
            for c in ast.iter_child_nodes(p):
                parents[c] = p
        for x in ast.walk(fi.node):
            if not (isinstance(x, ast.BinOp) and isinstance(x.op, ast.Div)):
                continue
            names = {y.id for y in ast.walk(x.right) if isinstance(y, ast.Name)} & set(guarded)
            if not names:
                continue
            # only the outermost division of an expression
            if isinstance(parents.get(x), ast.BinOp) and isinstance(parents[x].op, ast.Div) and parents[x].left is x:
                continue
            nm = sorted(names)[0]
            ok = False
            y = x
            while y in parents:
                y = parents[y]
                if isinstance(y, (ast.If, ast.IfExp)) and any(isinstance(z, ast.Name) and z.id == nm for z in ast.walk(y.test)):
                    ok = True
                    break
                if isinstance(y, ast.Call) and isinstance(y.func, ast.Attribute) and y.func.attr == 'where' and y.args \
                        and any(isinstance(z, ast.Name) and z.id == nm for z in ast.walk(y.args[0])):
                    ok = True
                    break
            n += 1
            res.obligations += 1
            res.evaluations += 1
            res.nontrivial += 1
            if ok:
                res.discharged += 1
            else:
                gfi, gst = guarded[nm]
                res.add(Finding(prop, rule, fi.module.relpath, fi.qualname, 'unguarded division by %s: %s' % (nm, src_of(x)[:50]),
                                "%s divides by `%s` without a test (`%s`), while %s computes the same quotient only under `%s` because the "
                                "quantity is exactly 0 in the vacuum region: inside the hole of a vacuum-type solution the result is 0/0 = NaN "
                                "for a valid request" % (fi.qualname, nm, src_of(x)[:60], gfi.qualname, src_of(gst.test)),
                                line=x.lineno, construct=src_of(x)[:100]))
    if n < 3:
        raise AnalysisError('Sedov: only %d divisions by a guarded quantity found (confirmed: 4)' % n)
