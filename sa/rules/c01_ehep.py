"""C01 clause for the escape-of-HE-products solver: the formulas of regions I-V satisfy the planar Euler
equations (gamma = 3, enforced by the constructor).

`_run` selects the region of a point with matplotlib polygon tests (not decided) and then evaluates the
branch of that region: explicit expressions for the sound speed and the velocity in (x, t), pressure and
density through `p_rho`.  Each branch body is executed on the value graph with symbolic (x, t) after the
prologue of `_run`, the specific internal energy is formed the way the code forms it (p / rho / (gamma - 1)),
and the mass, momentum and energy residuals must be identically zero in x, t, D, up, xtilde, rho_0.  A
`max(X, 0.)` guard is read as X (interior of the region).  Also: the stored sound speed is the sound speed
of the stored state, cs^2 == gamma p / rho.
"""
import ast
from fractions import Fraction

from ..model import AnalysisError, src_of
from ..report import Finding
from ..vg import Builder, Frame
from ..nf import NFEval, NAN, Mono, Sum, PW, Struct, DiffUnsupported
from ..ratnf import NFSym, is_zero
from ..radnf import RadNF, Unsupported

PROP = 'C01'
CLS = 'exactpack.solvers.ehep.ehep:EscapeOfHEProducts'
X, T = 'param:x', 'input:t'


def _closed(x):
    return not (x is NAN or isinstance(x, (PW, Struct)))


def _branches(node):
    """(test, body) of an if / elif chain, and the final else body."""
    out = []
    while True:
        out.append((node.test, node.body))
        if len(node.orelse) == 1 and isinstance(node.orelse[0], ast.If):
            node = node.orelse[0]
            continue
        return out, node.orelse


def regions(model, res):
    cls = model.get_class(CLS)
    runm = cls.find_method('_run')
    if runm is None:
        raise AnalysisError('EscapeOfHEProducts._run vanished')
    loops = [st for st in runm.node.body if isinstance(st, ast.For)]
    if len(loops) != 1:
        raise AnalysisError('EscapeOfHEProducts._run no longer has one loop over the points')
    loop = loops[0]
    chain = [st for st in loop.body if isinstance(st, ast.If) and any(isinstance(c, ast.Call) and src_of(c.func).endswith('contains_point')
                                                                       for c in ast.walk(st.test))]
    if len(chain) != 1:
        raise AnalysisError('EscapeOfHEProducts._run: region selection chain not found')
    branches, _ = _branches(chain[0])
    pointvar = loop.target.elts[1].id if isinstance(loop.target, ast.Tuple) and len(loop.target.elts) == 2 else None
    if pointvar is None:
        raise AnalysisError('EscapeOfHEProducts._run: loop target is no longer (index, point)')
    prologue = runm.node.body[:runm.node.body.index(loop)]
    keys = list(model.parameters_keys(cls) or [])
    done = 0
    for test, body in branches:
        names = {s2.targets[0].id: s2 for s2 in body if isinstance(s2, ast.Assign) and isinstance(s2.targets[0], ast.Name)}
        regname = None
        if 'reg' in names and isinstance(names['reg'].value, ast.Constant):
            regname = names['reg'].value.value
        b = Builder(model)
        objn, _ = b.run_solver(cls, run=False)
        tnode = b.make_input('t')
        xn = b.mk('param', 'x')
        b.frame = Frame(runm, cls.module, {'self': objn, 't': tnode, runm.node.args.args[1].arg: b.mk('param', 'xvec')},
                        self_obj=objn, cls=cls)
        for st in prologue:
            b.exec_stmt(st)
        b.frame.locals[pointvar] = xn
        for st in body:
            b.exec_stmt(st)
        loc = b.frame.locals
        if not all(k in loc for k in ('cs', 'u', 'p', 'rho')):
            raise AnalysisError('EscapeOfHEProducts._run: region %s does not set cs, u, p, rho' % regname)
        ev = NFEval(keys + ['x'])
        for n in b.trace:
            if n.kind == 'param' and n.val == 'gamma':
                ev.memo[n.nid] = ev.num(3)          # enforced by the constructor (gamma != 3.0 raises)
            if n.kind == 'call' and n.val == 'builtins.max' and len(n.args) == 2:
                vals = [ev.nf(a) for a in n.args]
                for i in (0, 1):
                    if isinstance(vals[i], Mono) and vals[i].coef == 0:
                        ev.memo[n.nid] = vals[1 - i]
        cs, u, p, rho = (ev.nf(loc[k]) for k in ('cs', 'u', 'p', 'rho'))
        if not all(_closed(v) for v in (cs, u, p, rho)):
            raise AnalysisError('EscapeOfHEProducts._run: region %s fields are not closed forms' % regname)
        if isinstance(rho, Mono) and rho.coef == 0:
            continue                                # vacuum regions: nothing to satisfy
        sy = NFSym(ev)

        def zero(x):
            if not _closed(x):
                return False
            try:
                cx = sy.conv(x)
                if is_zero(cx):
                    return True
                try:
                    return RadNF(sy.units).is_zero(cx)
                except Unsupported:
                    return False
            except TypeError:
                return False
        inv = lambda v: ev.power(v, ev.S.F(-1))
        e = ev.mul(ev.mul(p, inv(rho)), ev.num(Fraction(1, 2)))
        try:
            d = ev.diff
            mass = ev.add(ev.add(d(rho, T), ev.mul(u, d(rho, X))), ev.mul(rho, d(u, X)))
            mom = ev.add(ev.add(d(u, T), ev.mul(u, d(u, X))), ev.mul(d(p, X), inv(rho)))
            en = ev.add(ev.add(d(e, T), ev.mul(u, d(e, X))), ev.mul(ev.mul(p, inv(rho)), d(u, X)))
        except DiffUnsupported as ex:
            raise AnalysisError('EscapeOfHEProducts region %s cannot be differentiated: %s' % (regname, ex))
        done += 1
        for label, val in (('mass', mass), ('momentum', mom), ('energy', en)):
            res.obligations += 1
            res.evaluations += 1
            res.nontrivial += 1
            if zero(val):
                res.discharged += 1
                res.sample({'class': 'EscapeOfHEProducts', 'region': regname, 'equation': label}, limit=80)
            else:
                res.add(Finding(PROP, 'C01.pde', runm.module.relpath, runm.qualname, 'region %s: %s' % (regname, label),
                                "EscapeOfHEProducts region %s: the formulas for the sound speed and the velocity (with p, rho from "
                                "p_rho, e = p/rho/(gamma-1), gamma = 3) do not satisfy the %s equation" % (regname, label),
                                line=test.lineno, construct=src_of(names.get('cs', names.get('u')) or test)))
        res.obligations += 1
        res.evaluations += 1
        res.nontrivial += 1
        if zero(ev.add(ev.mul(cs, cs), ev.mul(ev.mul(ev.num(3), p), inv(rho)), -1)):
            res.discharged += 1
        else:
            res.add(Finding(PROP, 'C01.pde', runm.module.relpath, runm.qualname, 'region %s: sound speed' % regname,
                            "EscapeOfHEProducts region %s: the stored sound speed is not sqrt(gamma p / rho) of the stored state "
                            "(gamma = 3)" % regname, line=test.lineno, construct=src_of(names.get('cs') or test)))
    if done < 5:
        raise AnalysisError('only %d EHEP regions with a flow analysed (confirmed: 6)' % done)
