"""C08 clause for the escape-of-HE-products solver: the region of a point is chosen by geometric tests in the x-t plane.

The polygon tests of matplotlib are affine-invariant; the solver's own `point_on_line` (used to include region
boundaries) measures distances between (x, t) points and compares them with a pure-number tolerance.  The outcome is
independent of the units of x and t only if what is compared is dimensionless.  The function is typed with the
dimension engine: corners and point are (L, T) pairs (that the corners ARE such pairs is the anchored constraint
system of the constructor), xmax: L, tmax: T, tolerance: 1.  A Euclidean distance of raw (x, t) differences adds L^2
to T^2 -- for x in cm and t in s every interior point of the x-range of an edge is then "on" that edge (genuine defect,
repaired).
"""
from ..model import AnalysisError
from ..vg import Builder, Frame, Closure
from ..dim import DimSystem, DimEval, Seq
from ..dimcheck import findings_from

PROP = 'C08'
CLS = 'exactpack.solvers.ehep.ehep:EscapeOfHEProducts'


def boundary_tests(model, res, prop=PROP, rule='C08.dim'):
    cls = model.get_class(CLS)
    for name in ('point_on_line',):
        m = cls.find_method(name)
        if m is None:
            raise AnalysisError('EscapeOfHEProducts.%s vanished' % name)
        args = [a.arg for a in m.node.args.args]
        if len(args) < 3:
            raise AnalysisError('EscapeOfHEProducts.%s no longer takes (corners, point[, tol])' % name)
        b = Builder(model)
        b.frame = Frame(None, cls.module, {}, None)
        keys = list(model.parameters_keys(cls) or [])
        inst = b.symbolic_obj(cls, keys)
        ins = [b.mk('input', a) for a in args[1:]]
        b.frame = Frame(None, cls.module, {}, None)
        out = b.call_closure(Closure(m, m.node, None, self_node=inst, cls=cls, module=cls.module), ins, {}, m.node)
        S = DimSystem(keys)
        L, T, V = S.from_spec({'L': 1}), S.from_spec({'T': 1}), S.from_spec({'L': 1, 'T': -1})
        pair = Seq([L, T])
        pd = {'xmax': L, 'tmax': T, 'xtilde': L, 'D': V, 'up': V, 'gamma': S.dimless(), 'rho_0': S.from_spec({'M': 1, 'L': -3})}
        idims = {args[1]: Seq([pair, pair]), args[2]: pair}
        for a in args[3:]:
            idims[a] = S.dimless()
        ev = DimEval(S, input_dims=idims, param_dims=pd)
        ev.run(b.trace)
        if S.constraints < 4:
            raise AnalysisError('EscapeOfHEProducts.%s: only %d dimension constraints generated (confirmed: 6)' % (name, S.constraints))
        findings_from(S, ev, prop, rule, res)
        res.obligations += S.constraints
        res.discharged += S.constraints - len(S.inconsistencies)
        res.evaluations += S.constraints
        res.nontrivial += S.nontrivial + S.checked
        res.analysed.append('%s.%s ((L,T) pairs)' % (CLS, name))
