"""C01 clause for the steady 2D two-state Riemann solver: inside an expansion fan the returned field solves the
steady Euler equations.

C19 decides that the states the solver computes for a fan are isentropic, have the upstream total enthalpy and turn
the flow by the difference of the Prandtl-Meyer function.  Such a one-parameter family of states p -> (rho, M, theta)(p)
is a solution of the steady Euler equations in the plane exactly when it is laid out as a centred simple wave: the
state p sits on the ray through the corner that is its own Mach line,

    bottom fan (left-running wave family):  phi = theta(p) - arcsin(1 / M(p)),      theta(p) = thetaB - delta(p)
    top fan:                                phi = theta(p) + arcsin(1 / M(p)),      theta(p) = thetaT + delta(p)

(delta = expansion_states(p, state)[0]; the flow directions are the ones the solver's own pressure-deflection functions
use).  Decided as identities between normal forms, for symbolic incoming states, star pressure and slip-line angle:

  * head ray   angles['BR'][0] / angles['TR'][1]  = the Mach line of the incoming state,
  * tail ray   angles['BR'][1] / angles['TR'][0]  = the Mach line of the star state (slip-line direction -+ arcsin(1/M*)),
  * interior   the equation `assign_lineout_vals` solves for the pressure at polar angle phi is the ray condition above.

Heads hold.  Tails and interiors do not on the pinned tree: the code rotates the head ray by the turning of the flow,
i.e. keeps the Mach angle of the incoming state on every ray (known findings; confirmed numerically: div(rho u) inside
the bottom fan of the default problem is 2-3 % of |u||grad rho|, and phi differs from theta - mu by up to 0.05 rad).
"""
import ast

from ..model import AnalysisError, src_of
from ..report import Finding
from ..vg import Builder, Frame, Closure
from ..nf import NFEval, NAN, PW, Struct
from . import c19

PROP = 'C01'
RULE = 'C01.pde'


def fans(model, res, prop=PROP, rule=RULE):
    ctx = c19.Ctx(model, res)
    b = Builder(model)
    b.frame = Frame(None, ctx.mod, {}, None)
    bs = b.mk('tuple', args=[b.mk('param', 'B' + k) for k in ('p', 'r', 'M', 'theta_deg', 'g')])
    ts = b.mk('tuple', args=[b.mk('param', 'T' + k) for k in ('p', 'r', 'M', 'theta_deg', 'g')])
    pstar, cd = b.mk('param', 'pstar'), b.mk('param', 'cd')
    inst = b.symbolic_obj(ctx.ci, [], {'bottom_state': bs, 'top_state': ts, 'pressure_solution': pstar,
                                       'deflection_angle_solution': cd, 'morphology': b.const('R-C-R')})
    for name in ('set_initial_state_values', 'set_starstate_values'):
        m = ctx.method(name)
        b.frame = Frame(None, ctx.mod, {}, None)
        b.call_closure(Closure(m, m.node, None, self_node=inst, cls=ctx.ci, module=ctx.mod), [], {}, m.node)
    h = b.heap[inst.val.oid]
    ang = h.get('angles')
    if ang is None or ang.kind != 'dict':
        raise AnalysisError('set_starstate_values no longer builds the dict of ray angles')
    setm = ctx.method('set_starstate_values')
    runm = ctx.method('assign_lineout_vals')
    ev = NFEval(['Bg', 'Tg'])

    def nf(n):
        v = ev.nf(n)
        if v is NAN or isinstance(v, (PW, Struct)):
            raise AnalysisError('2D Riemann fan: a ray angle is not a closed form')
        return v

    def mach_angle(M):
        return b.mk('call', 'numpy.arcsin', [b.mk('binop', '/', [b.const(1.), M])])

    def elem(n, i, depth=0):
        """Element i of an array-valued expression, as a node (scalars broadcast)."""
        if depth > 8:
            raise AnalysisError('2D Riemann fan: ray-angle array too deeply nested')
        if n.kind in ('tuple', 'list'):
            return n.args[i]
        if n.kind == 'call' and n.val in ('numpy.array', 'numpy.asarray') and n.args:
            return elem(n.args[0], i, depth + 1)
        if n.kind == 'binop' and len(n.args) == 2:
            parts = []
            hit = False
            for a in n.args:
                try:
                    parts.append(elem(a, i, depth + 1))
                    hit = True
                except AnalysisError:
                    parts.append(a)
            if hit:
                return b.mk('binop', n.val, parts)
        raise AnalysisError('2D Riemann fan: cannot take an element of %s' % n.kind)

    def entry(key, i):
        if key not in ang.val:
            raise AnalysisError("set_starstate_values no longer stores angles['%s']" % key)
        return elem(ang.args[list(ang.val).index(key)], i)

    def ob(ok, fi, detail, msg, at=None):
        res.obligations += 1
        res.evaluations += 1
        res.nontrivial += 1
        if ok:
            res.discharged += 1
            res.sample({'rule': rule, 'class': 'riemann2D SetupRiemannProblem', 'identity': detail}, limit=80)
        else:
            res.add(Finding(prop, rule, fi.module.relpath, fi.qualname, detail, msg,
                            line=getattr(at, 'lineno', fi.node.lineno), construct=src_of(at)[:100] if at is not None else 'def %s' % fi.name))

    def assigned(key):
        for st in ast.walk(setm.node):
            if isinstance(st, ast.Assign) and isinstance(st.targets[0], ast.Subscript) and isinstance(st.targets[0].slice, ast.Constant) \
                    and st.targets[0].slice.value == key:
                return st
        return None

    sides = {
        'B': dict(key='BR', head=0, tail=1, th=h['thetaB_rad'], M0=h['MB'], Ms=h['MB_star'], sign=-1, state=bs, name='bottom'),
        'T': dict(key='TR', head=1, tail=0, th=h['thetaT_rad'], M0=h['MT'], Ms=h['MT_star'], sign=+1, state=ts, name='top'),
    }
    for s in sides.values():
        sg = '-' if s['sign'] < 0 else '+'
        head = entry(s['key'], s['head'])
        want = b.mk('binop', sg, [s['th'], mach_angle(s['M0'])])
        ob(ev.is_zero(ev.add(nf(head), nf(want), -1)), setm, "%s fan: head ray is the Mach line of the incoming state" % s['name'],
           "set_starstate_values: the first ray of the %s fan, angles['%s'][%d], is not the Mach line of the incoming state "
           "(flow direction %s arcsin(1/M))" % (s['name'], s['key'], s['head'], sg), at=assigned(s['key']))
        tail = entry(s['key'], s['tail'])
        want = b.mk('binop', sg, [cd, mach_angle(s['Ms'])])
        ob(ev.is_zero(ev.add(nf(tail), nf(want), -1)), setm, "%s fan: tail ray is the Mach line of the star state" % s['name'],
           "set_starstate_values: the last ray of the %s fan, angles['%s'][%d], is not the Mach line of the star state (slip-line "
           "direction %s arcsin(1/M*)): the code rotates the head ray by the turning of the flow, which keeps the Mach angle of the "
           "incoming state; between the true and the coded tail ray the returned state is not the one a simple wave has there, so "
           "the steady Euler equations are not satisfied" % (s['name'], s['key'], s['tail'], sg), at=assigned(s['key']))
    # interior: the equation solved for the pressure on the ray at polar angle phi
    loops = [st for st in runm.node.body if isinstance(st, ast.For)]
    if len(loops) != 1:
        raise AnalysisError('assign_lineout_vals no longer has one loop over the points')
    loop = loops[0]
    pro = runm.node.body[:runm.node.body.index(loop)]
    b.frame = Frame(runm, ctx.mod, {'self': inst, 'xs': b.mk('param', 'xs'), 'ys': b.mk('param', 'ys')}, self_obj=inst, cls=ctx.ci)
    for st in pro:
        try:
            b.exec_stmt(st)
        except AnalysisError:
            raise
        except Exception:
            continue            # array bookkeeping of the prologue that the branches below do not read
    phi = b.mk('param', 'phi')
    b.frame.locals['vals'] = b.mk('list', args=[b.mk('param', 'x'), b.mk('param', 'y'), phi])
    exp = ctx.method('expansion_states')
    found = 0
    for node in ast.walk(loop):
        if not (isinstance(node, ast.If) and node.body and isinstance(node.body[0], ast.Assign)):
            continue
        solve = None
        for st in node.body[:3]:
            for x in ast.walk(st):
                if isinstance(x, ast.Call) and isinstance(x.func, ast.Name) and x.func.id == 'fsolve' and x.args \
                        and isinstance(x.args[0], ast.Lambda):
                    solve = x
        if solve is None:
            continue
        key = None
        for x in ast.walk(node.test):
            if isinstance(x, ast.Subscript) and isinstance(x.slice, ast.Constant) and x.slice.value in ('BR', 'TR'):
                key = x.slice.value
        if key is None:
            continue
        s = sides[key[0]]
        for st in node.body:
            if st is solve or any(y is solve for y in ast.walk(st)):
                break
            b.exec_stmt(st)
        clo = b.eval(solve.args[0])
        px = b.mk('param', 'px')
        lam = b.call_closure(clo.val, [px], {}, None)
        saved = b.frame
        b.frame = Frame(None, ctx.mod, {}, None)
        out = b.call_closure(Closure(exp, exp.node, None, self_node=inst, cls=ctx.ci, module=ctx.mod), [px, s['state']], {}, exp.node)
        b.frame = saved
        delta = b.mk('sub', args=[out, b.const(0)])
        Ms = b.mk('sub', args=[out, b.const(2)])
        if s['sign'] < 0:      # phi = thetaB - delta - mu
            exact = b.mk('binop', '-', [b.mk('binop', '-', [b.mk('binop', '-', [s['th'], delta]), mach_angle(Ms)]), phi])
        else:                  # phi = thetaT + delta + mu
            exact = b.mk('binop', '-', [b.mk('binop', '+', [b.mk('binop', '+', [s['th'], delta]), mach_angle(Ms)]), phi])
        nl, ne = nf(lam), nf(exact)
        ok = ev.is_zero(ev.add(nl, ne, -1)) or ev.is_zero(ev.add(nl, ne))
        found += 1
        ob(ok, runm, "%s fan: the state on the ray at polar angle phi has that ray as its Mach line" % s['name'],
           "assign_lineout_vals: inside the %s fan the pressure at polar angle phi is found from `%s` with this_angle = phi minus the "
           "head-ray angle, i.e. the flow is taken to have turned by exactly the rotation of the ray.  In a centred simple wave the "
           "ray is the Mach line of the local state, phi = theta %s arcsin(1/M) with theta = %s: the rotation of the ray is the "
           "turning of the flow plus the change of the Mach angle.  As coded every ray keeps the Mach angle of the incoming state, so "
           "the states are laid out at the wrong angles and the field inside the fan does not satisfy the steady Euler equations"
           % (s['name'], src_of(solve.args[0])[:80], '-' if s['sign'] < 0 else '+',
              'thetaB - deflection' if s['sign'] < 0 else 'thetaT + deflection'), at=solve)
    if found != 2:
        raise AnalysisError('assign_lineout_vals: %d fan branches analysed (confirmed: 2)' % found)
