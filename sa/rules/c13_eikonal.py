"""C13 clause: every arrival-time expression of the Kenamond programmed-burn solvers satisfies the eikonal equation
|grad t| = 1/D with one of the solver's detonation speeds, and a switch between expressions with different speeds
happens exactly on the material interface.

The burn time of a point is a min / max / if-selection over a few closed-form arrival-time expressions.  Each such
expression touches the point only through dot products: |P - c|^2 = (P - c).(P - c), P.P, P.c.  These are taken as
the independent variables w_j of the expression; the Gram matrix of their gradients is known from vector algebra
alone,  grad(a.b) = sa b + sb a  for arguments  a = sa P + ca, b = sb P + cb,  and every inner product that appears in
it is again one of the w_j, |c|^2 (written with numpy.linalg.norm where the code does) or an opaque constant.  With
F_j = dt/dw_j (normal-form differentiation, through sqrt and arccos),
        |grad t|^2 = sum_jk F_j F_k G_jk
must equal 1/D^2 identically (radical normal form).  This holds in any dimension, so it covers geometry 2 and 3 at
once.  For max(a, b) / min(a, b) over expressions with different speeds (Kenamond2: inner sphere D1, outside D2)
        b - a == (1/D_b - 1/D_a) (|P - c| - R)
must hold with R the radius parameter: the faster expression is selected exactly inside the sphere, and the burn time
is continuous across it.  Not decided: that the minimum over detonators is the first arrival for every layout
(causality needs the documented ordering conditions), Kenamond3 inside the inert region.
"""
from fractions import Fraction

from ..model import AnalysisError, src_of
from ..report import Finding
from ..vg import Builder
from .c05 import phi_leaves
from ..nf import NFEval, NAN, Mono, Sum, PW, Struct, DiffUnsupported
from ..ratnf import NFSym, is_zero
from ..radnf import RadNF, Unsupported

PROP = 'C13'
CLASSES = ['exactpack.solvers.kenamond.kenamond1:Kenamond1', 'exactpack.solvers.kenamond.kenamond2:Kenamond2',
           'exactpack.solvers.kenamond.kenamond3:Kenamond3', 'exactpack.solvers.dsd.cylexpansion:CylindricalExpansion']
SPEEDS = ('D', 'D1', 'D2')
SELECT = ('builtins.max', 'builtins.min', 'numpy.maximum', 'numpy.minimum', 'numpy.fmax', 'numpy.fmin')


def _walk(n):
    seen, todo = set(), [n]
    while todo:
        x = todo.pop()
        if x is None or not hasattr(x, 'nid') or x.nid in seen:
            continue
        seen.add(x.nid)
        yield x
        todo.extend(a for a in x.args if hasattr(a, 'nid'))
        todo.extend(a for a in (x.kw or {}).values() if hasattr(a, 'nid'))


def _depends(n, inputs):
    return any(m in inputs for m in _walk(n))


def dot_args(m, inputs):
    """(a, b, is_norm) if the node is a dot product of two vectors (one of the idioms of the code base and their
    vectorised forms), else None: np.dot(a, b); np.sum(a * b, axis=1); np.linalg.norm(a[, axis=1]) = sqrt(a.a)."""
    if m.kind != 'call' or not _depends(m, inputs):
        return None
    if m.val in ('numpy.dot', 'numpy.inner', 'numpy.vdot') and len(m.args) == 2:
        return m.args[0], m.args[1], False
    if m.val == 'numpy.sum' and m.args and m.args[0].kind == 'binop' and m.args[0].val in ('*', '**'):
        ax = (m.kw or {}).get('axis') or (m.args[1] if len(m.args) > 1 else None)
        if ax is not None and ax.kind == 'const' and ax.val in (1, -1):
            x = m.args[0]
            if x.val == '*':
                return x.args[0], x.args[1], False
            if x.args[1].kind == 'const' and x.args[1].val == 2:
                return x.args[0], x.args[0], False
    if m.val == 'numpy.linalg.norm' and m.args:
        return m.args[0], m.args[0], True
    return None


def terms_of(field, inputs):
    """Arrival-time expressions flowing into a field through stores, loops, min/max and if-selection; and the
    (op, a, b) selections between them."""
    terms, selects, seen = [], [], set()

    def go(n):
        if n is None or not hasattr(n, 'nid') or n.nid in seen:
            return
        seen.add(n.nid)
        k = n.kind
        if k == 'store':
            go(n.args[0])
            go(n.args[2])
        elif k in ('mu', 'elem', 'arrayof'):
            for a in n.args:
                go(a)
        elif k == 'sub':
            go(n.args[0])
        elif k == 'phi':
            go(n.args[1])
            go(n.args[2])
        elif k == 'call' and n.val in SELECT and len(n.args) == 2:
            selects.append(n)
            go(n.args[0])
            go(n.args[1])
        elif k == 'call' and n.val in ('numpy.zeros', 'numpy.empty', 'numpy.zeros_like', 'numpy.empty_like', 'numpy.ones'):
            return
        elif _depends(n, inputs):
            terms.append(n)
    go(field)
    return terms, selects


def affine(n, inputs):
    """Node as  s * P + g * c  with P the point, c a point-independent vector node: (s, g, c) (c None: no constant
    part), or None if it is not of that form."""
    while n.kind in ('elem', 'arrayof') or (n.kind == 'call' and n.val in ('numpy.array', 'numpy.asarray') and n.args):
        n = n.args[0]
    if n.kind == 'mu':
        for a in n.args:
            if a is not None and hasattr(a, 'nid'):
                r = affine(a, inputs)
                if r is not None:
                    return r
        return None
    if n in inputs or (n.kind == 'sub' and n.args[0] in inputs):
        return (1, 0, None)
    if not _depends(n, inputs):
        return (0, 1, n)
    if n.kind == 'binop' and n.val in ('-', '+'):
        a, b = affine(n.args[0], inputs), affine(n.args[1], inputs)
        if a is None or b is None:
            return None
        sg = 1 if n.val == '+' else -1
        s = a[0] + sg * b[0]
        if a[2] is not None and b[2] is not None:
            return None                       # two constant parts: not needed by the code base
        if a[2] is not None:
            return (s, a[1], a[2])
        if b[2] is not None:
            return (s, sg * b[1], b[2])
        return (s, 0, None)
    if n.kind == 'unop' and n.val == '-':
        a = affine(n.args[0], inputs)
        if a is not None:
            return (-a[0], -a[1], a[2])
    return None


def check_class(model, cname, res):
    cls = model.get_class(cname)
    runm = cls.find_method('_run')
    b = Builder(model)
    objn, ret = b.run_solver(cls)
    inputs = {n for n in b.trace if n.kind == 'input' and str(n.val).startswith('r')}
    if not inputs:
        raise AnalysisError('%s: point input not found' % cls.name)
    sols = [l for l in phi_leaves(ret) if l.kind == 'call' and l.val == 'exactpack.base.ExactSolution']
    if not sols:
        raise AnalysisError('%s returns no ExactSolution' % cls.name)
    sol = sols[0]
    data, names = sol.args[0], (sol.args[1] if len(sol.args) > 1 else sol.kw.get('names'))
    field = None
    for a, d in zip(names.args, data.args):
        if a.val == 'burntime':
            field = d
    if field is None:
        raise AnalysisError('%s: no burntime field' % cls.name)
    terms, selects = terms_of(field, inputs)
    if not terms:
        raise AnalysisError('%s: no arrival-time expression found' % cls.name)
    keys = list(model.parameters_keys(cls) or [])
    speed_of = {}
    for t in terms:
        ev = NFEval(keys)
        ev.interior_clamps = True      # a clamped cosine is the cosine away from the (anti)parallel ray
        # dot products of the term
        dots = [m for m in _walk(t) if dot_args(m, inputs) is not None]
        var = {}            # variable atom key -> (affine a, affine b)
        pairkey = {}

        def vec_key(af):
            return '%d*P%+d*%s' % (af[0], af[1], 'NONE' if af[2] is None else ev.nf(af[2]).key())
        ok_term = True
        for m in dots:
            da, db, is_norm = dot_args(m, inputs)
            a, bb = affine(da, inputs), affine(db, inputs)
            if a is None or bb is None:
                ok_term = False
                break
            k = tuple(sorted((vec_key(a), vec_key(bb))))
            if k not in pairkey:
                pairkey[k] = 'param:w%d' % len(pairkey)
                var[pairkey[k]] = (a, bb)
            ev.memo[m.nid] = ev.power(ev.atom(pairkey[k]), ev.S.F(Fraction(1, 2))) if is_norm else ev.atom(pairkey[k])
        label = '%s: |grad t| == 1/D for `%s`' % (cls.name, t.src[:70])
        res.obligations += 1
        res.evaluations += 1
        res.nontrivial += 1
        if not ok_term or not var:
            res.add(Finding(PROP, 'C13.eikonal', runm.module.relpath, runm.qualname, label,
                            "%s: the arrival-time expression `%s` does not depend on the point through dot products of vectors that "
                            "are affine in the point: its gradient cannot be formed" % (cls.name, t.src[:80]),
                            line=getattr(t.origin[1], 'lineno', 0) if t.origin else 0, construct=t.src))
            continue
        # norms of constants written with numpy.linalg.norm
        norms = {}
        for m in b.trace:
            if m.kind == 'call' and m.val == 'numpy.linalg.norm' and len(m.args) == 1 and not _depends(m, inputs):
                norms[ev.nf(m.args[0]).key()] = ev.nf(m)
        x = ev.nf(t)
        if x is NAN or isinstance(x, (PW, Struct)):
            raise AnalysisError('%s: arrival-time expression `%s` is not a closed form' % (cls.name, t.src[:60]))

        def dotnf(u, v):
            """(su P + cu).(sv P + cv) as a normal form over the variables, or None."""
            k = tuple(sorted((vec_key(u), vec_key(v))))
            if k in pairkey:
                return ev.atom(pairkey[k])
            if u[0] == 0 and v[0] == 0:
                if u[2] is None or v[2] is None:
                    return ev.num(0)
                ku, kv = ev.nf(u[2]).key(), ev.nf(v[2]).key()
                sg = ev.num(u[1] * v[1])
                if ku == kv and ku in norms:
                    return ev.mul(sg, ev.mul(norms[ku], norms[ku]))
                return ev.mul(sg, ev.atom('const:dot(%s,%s)' % tuple(sorted((ku, kv)))))
            return None
        names_ = sorted(var)
        try:
            F = {k: ev.diff(x, k) for k in names_}
        except DiffUnsupported as ex:
            raise AnalysisError('%s: `%s` cannot be differentiated: %s' % (cls.name, t.src[:60], ex))
        g2 = ev.num(0)
        undecided = False
        for j in names_:
            aj, bj = var[j]
            gj = [(aj[0], bj), (bj[0], aj)]                   # grad w_j = sa b + sb a
            for k in names_:
                ak, bk = var[k]
                gk = [(ak[0], bk), (bk[0], ak)]
                G = ev.num(0)
                for cu, u in gj:
                    for cv, v in gk:
                        if not cu or not cv:
                            continue
                        dn = dotnf(u, v)
                        if dn is None:
                            undecided = True
                            continue
                        G = ev.add(G, ev.mul(ev.num(cu * cv), dn))
                g2 = ev.add(g2, ev.mul(ev.mul(F[j], F[k]), G))
        if undecided:
            raise AnalysisError('%s: gradient inner products of `%s` are not closed over its dot products' % (cls.name, t.src[:60]))
        sy = NFSym(ev)

        def zero(y):
            if y is NAN or isinstance(y, (PW, Struct)):
                return False
            try:
                cx = sy.conv(y)
                if is_zero(cx):
                    return True
                try:
                    return RadNF(sy.units).is_zero(cx)
                except Unsupported:
                    return False
            except TypeError:
                return False
        hit = None
        cands = [(sname, ev.atom('param:%s' % sname)) for sname in SPEEDS if sname in keys]
        # curvature-dependent speed D_CJ - alpha / r (DSD), r = |P|
        rr = [k for k in names_ if var[k][0][:2] == (1, 0) and var[k][1][:2] == (1, 0)]
        if rr:
            r_ = ev.power(ev.atom(rr[0]), ev.S.F(Fraction(1, 2)))
            for i in ('_1', '_2', ''):
                if 'D_CJ' + i in keys and 'alpha' + i in keys:
                    cands.append(('D_CJ%s - alpha%s / r' % (i, i),
                                  ev.add(ev.atom('param:D_CJ' + i), ev.mul(ev.atom('param:alpha' + i), ev.power(r_, ev.S.F(-1))), -1)))
        for sname, D in cands:
            if zero(ev.add(g2, ev.power(D, ev.S.F(-2)), -1)):
                hit = sname
                break
        if hit:
            res.discharged += 1
            speed_of[t.nid] = hit
            res.sample({'class': cls.name, 'expression': t.src[:80], 'eikonal speed': hit}, limit=60)
        else:
            res.add(Finding(PROP, 'C13.eikonal', runm.module.relpath, runm.qualname, label,
                            "%s: the arrival-time expression `%s` does not satisfy |grad t| = 1/D for any of the solver's detonation "
                            "speeds: it is not the arrival time of a front moving at that speed" % (cls.name, t.src[:80]),
                            line=getattr(t.origin[1], 'lineno', 0) if t.origin else 0, construct=t.src))
    # selections between expressions with different speeds
    def resolve(n):
        # btime[index] read right after btime[index] = value
        for _ in range(6):
            if n.kind == 'sub' and n.args[0].kind == 'store' and n.args[0].args[1] is n.args[1]:
                n = n.args[0].args[2]
            else:
                break
        return n
    for s in selects:
        a, c = (resolve(x) for x in s.args)
        ta = [t for t in terms if t is a or any(m is t for m in _walk(a))]
        tc = [t for t in terms if t is c or any(m is t for m in _walk(c))]
        # only direct selections between two expressions
        if a not in terms or c not in terms:
            continue
        sa, sc = speed_of.get(a.nid), speed_of.get(c.nid)
        if sa is None or sc is None or sa == sc:
            continue
        res.obligations += 1
        res.evaluations += 1
        res.nontrivial += 1
        ev = NFEval(keys)
        ev.interior_clamps = True      # a clamped cosine is the cosine away from the (anti)parallel ray
        dots = [m for root in (a, c) for m in _walk(root) if dot_args(m, inputs) is not None]
        dk = {}
        for m in dots:
            da, db, is_norm = dot_args(m, inputs)
            k = tuple(sorted((ev.nf(da).key(), ev.nf(db).key())))
            dk.setdefault(k, 'param:w%d' % len(dk))
            ev.memo[m.nid] = ev.power(ev.atom(dk[k]), ev.S.F(Fraction(1, 2))) if is_norm else ev.atom(dk[k])
        ok = False
        if len(dk) == 1 and 'R' in keys:
            w = ev.atom(list(dk.values())[0])
            dist = ev.power(w, ev.S.F(Fraction(1, 2)))
            inv = lambda z: ev.power(z, ev.S.F(-1))
            want = ev.mul(ev.add(inv(ev.atom('param:%s' % sc)), inv(ev.atom('param:%s' % sa)), -1), ev.add(dist, ev.atom('param:R'), -1))
            dd = ev.add(ev.add(ev.nf(c), ev.nf(a), -1), want, -1)
            sy = NFSym(ev)
            try:
                cx = sy.conv(dd)
                ok = is_zero(cx) or RadNF(sy.units).is_zero(cx)
            except (TypeError, Unsupported):
                ok = False
        if ok:
            res.discharged += 1
            res.sample({'class': cls.name, 'selection': s.src[:80], 'switch': '|P - c| == R, speeds %s / %s' % (sa, sc)}, limit=60)
        else:
            res.add(Finding(PROP, 'C13.eikonal', runm.module.relpath, runm.qualname, '%s: material switch in `%s`' % (cls.name, s.src[:60]),
                            "%s: `%s` selects between arrival times of fronts with different speeds (%s, %s), but their difference is not "
                            "(1/%s - 1/%s)(|P - c| - R): the switch does not happen on the sphere of radius R, so next to the interface the "
                            "burn time has the gradient of the wrong material (and is discontinuous across it)"
                            % (cls.name, s.src[:80], sa, sc, sc, sa), line=getattr(s.origin[1], 'lineno', 0) if s.origin else 0, construct=s.src))
    return len(terms)


def eikonal(model, res, tier='quick'):
    n = 0
    for cname in CLASSES:
        n += check_class(model, cname, res)
    shadow_continuity(model, res)
    branch_continuity(model, res, tier)
    if n < 10:
        raise AnalysisError('only %d arrival-time expressions analysed (confirmed: 11)' % n)


def shadow_continuity(model, res):
    """Kenamond3: on the shadow boundary (where the code's own angle `theta` vanishes) the tangent-arc-tangent arrival time
    equals the line-of-sight arrival time.  theta = pi - A +- B +- C with arccos terms; theta = 0 is (necessarily)
    cos A = -cos(+-B +- C) = -(cos B cos C -+ sin B sin C), with cos(arccos u) = u, sin(arccos u) = sqrt(1 - u^2); the argument
    of A is linear in P.x_d, which gives the boundary value q* of P.x_d; there  |P - x_d|^2 = P.P - 2 q* + |x_d|^2  must be
    the square of the arc-free part of the shadow path (l_da + l_bp)."""
    cls = model.get_class(CLASSES[2])
    runm = cls.find_method('_run')
    b = Builder(model)
    objn, ret = b.run_solver(cls)
    inputs = {n for n in b.trace if n.kind == 'input' and str(n.val).startswith('r')}
    keys = list(model.parameters_keys(cls) or [])
    phis = [n for n in b.trace if n.kind == 'phi' and n.args[0].kind == 'cmp' and n.args[0].val in ('>', '>=', '<', '<=')
            and n.origin and n.origin[0] is runm and _depends(n.args[1], inputs) and _depends(n.args[2], inputs)
            and any(m.kind == 'call' and m.val == 'numpy.arccos' for m in _walk(n.args[0]))]
    if not phis:
        raise AnalysisError('Kenamond3: the shadow test `theta > 0` vanished')
    ph = phis[-1]
    cmpn = ph.args[0]
    has_arc = lambda n: any(m.kind == 'call' and m.val == 'numpy.arccos' for m in _walk(n))
    ti = 0 if has_arc(cmpn.args[0]) else 1
    theta_n = cmpn.args[ti]
    positive_when_true = (cmpn.val in ('>', '>=')) == (ti == 0)
    shadow_n, los_n = (ph.args[1], ph.args[2]) if positive_when_true else (ph.args[2], ph.args[1])
    # resolve stores: the branch values are arrays after `btime[index] = value`
    def val(n):
        for _ in range(4):
            if n.kind == 'store':
                n = n.args[2]
            else:
                break
        return n
    shadow_n, los_n = val(shadow_n), val(los_n)
    ev = NFEval(keys)
    ev.interior_clamps = True
    # base variables
    S_, Q_, N_ = ev.atom('param:PP'), ev.atom('param:Pc'), None
    consts = {}
    for m in b.trace:
        if m.kind == 'call' and m.val == 'numpy.linalg.norm' and len(m.args) == 1 and not _depends(m, inputs):
            consts[ev.nf(m.args[0]).key()] = ev.nf(m)
    for m in b.trace:
        if dot_args(m, inputs) is not None:
            da, db, is_norm = dot_args(m, inputs)
            a, c = affine(da, inputs), affine(db, inputs)
            if a is None or c is None:
                raise AnalysisError('Kenamond3: a dot product is not between vectors affine in the point')
            cs = [x[2] for x in (a, c) if x[2] is not None]
            ck = {ev.nf(x).key() for x in cs}
            if len(ck) > 1:
                raise AnalysisError('Kenamond3: dot product with two different constant vectors')
            nn = ev.num(0)
            if ck:
                k0 = next(iter(ck))
                if k0 not in consts:
                    raise AnalysisError('Kenamond3: |x_d| is no longer written with numpy.linalg.norm')
                nn = ev.mul(consts[k0], consts[k0])
            expr = ev.add(ev.add(ev.mul(ev.num(a[0] * c[0]), S_), ev.mul(ev.num(a[0] * c[1] + c[0] * a[1]), Q_)),
                          ev.mul(ev.num(a[1] * c[1]), nn))
            ev.memo[m.nid] = ev.power(expr, ev.S.F(Fraction(1, 2))) if is_norm else expr
    theta = ev.nf(theta_n)
    res.obligations += 1
    res.evaluations += 1
    res.nontrivial += 1

    def fail(msg):
        res.add(Finding(PROP, 'C13.eikonal', runm.module.relpath, runm.qualname, 'Kenamond3: continuity at the shadow boundary', msg,
                        line=getattr(ph.origin[1], 'lineno', 0), construct=src_of(ph.origin[1])[:160] if ph.origin else 'theta > 0'))
    terms = theta.terms if isinstance(theta, Sum) else [theta]
    pi_c, arcs = Fraction(0), []
    for t in terms:
        if not isinstance(t, Mono) or len(t.f) != 1:
            return fail('Kenamond3: `theta` is no longer a combination of pi and arccos terms')
        (k, e), = t.f.items()
        if e != ev.one:
            return fail('Kenamond3: `theta` is no longer a combination of pi and arccos terms')
        if k == 'pi':
            pi_c = t.coef
        elif k in ev.funcs and ev.funcs[k][0] in ('arccos', 'acos'):
            arcs.append((t.coef, ev.funcs[k][1]))
        else:
            return fail('Kenamond3: `theta` is no longer a combination of pi and arccos terms')
    A = [(c, a) for c, a in arcs if 'param:Pc' in a.key()]
    rest = [(c, a) for c, a in arcs if 'param:Pc' not in a.key()]
    if pi_c != 1 or len(A) != 1 or A[0][0] != -1 or len(rest) != 2 or any(abs(c) != 1 for c, _ in rest):
        return fail('Kenamond3: `theta` is not pi - arccos(point term) +- arccos +- arccos')
    # theta = 0  <=>  A = pi + e1 B1 + e2 B2  =>  cos A = -cos(e1 B1 + e2 B2) = -(b1 b2 - e1 e2 s1 s2)
    (e1, b1), (e2, b2) = rest
    one = ev.num(1)
    half = ev.S.F(Fraction(1, 2))
    s1 = ev.power(ev.add(one, ev.mul(b1, b1), -1), half)
    s2 = ev.power(ev.add(one, ev.mul(b2, b2), -1), half)
    cosA = ev.mul(ev.num(-1), ev.add(ev.mul(b1, b2), ev.mul(ev.num(e1 * e2), ev.mul(s1, s2)), -1))
    a_arg = A[0][1]
    try:
        slope = ev.diff(a_arg, 'param:Pc')
        if not ev.is_zero(ev.diff(slope, 'param:Pc')):
            return fail('Kenamond3: the argument of the point-dependent arccos is not linear in P.x_d')
    except DiffUnsupported:
        return fail('Kenamond3: the argument of the point-dependent arccos cannot be differentiated')
    # a_arg = slope * q  (no constant part is checked below)
    qstar = ev.mul(cosA, ev.power(slope, ev.S.F(-1)))
    # evaluate with q := q*
    ev2 = NFEval(keys)
    ev2.interior_clamps = True
    ev2.memo.update({})
    # rebuild the same substitutions in a fresh evaluator, with Pc replaced
    sy = NFSym(ev)
    conv = lambda y: sy.conv(y)
    import sympy as sp
    try:
        q_sym = conv(Q_)
        los2 = conv(ev.add(ev.add(S_, ev.mul(ev.num(-2), Q_)), ev.mul(consts[next(iter(consts))], consts[next(iter(consts))]))) \
            if consts else None
        # arc-free part of the shadow expression: shadow - los structure is not assumed; use d(shadow)/d(theta-free) by
        # setting the arc length to zero: the shadow value at theta = 0 is obtained by substituting the arccos(point) atom
        shadow = ev.nf(shadow_n)
        los = ev.nf(los_n)
        Akey = [k for k in ev.funcs if ev.funcs[k][0] in ('arccos', 'acos') and ev.funcs[k][1].key() == a_arg.key()][0]
        # arccos(point) at the boundary:  A = pi + e1 B1 + e2 B2
        Bk = []
        for c, a in rest:
            kk = [k for k in ev.funcs if ev.funcs[k][0] in ('arccos', 'acos') and ev.funcs[k][1].key() == a.key()][0]
            Bk.append((c, kk))
        A_at = sy.atom('pi') + sum(sp.Integer(int(c)) * sy.atom(kk) for c, kk in Bk)
        sh = conv(shadow).subs(sy.atom(Akey), A_at)
        ls = conv(los)
        qs = conv(qstar)
        sh = sh.subs(q_sym, qs)
        ls = ls.subs(q_sym, qs)
        from .c19 import zero as rad_zero
        ok = rad_zero(sp.expand(sh - ls), sy)
        if not ok:
            # compare squares of the travelled lengths (both non-negative)
            t_d = sy.atom('param:t_d')
            D = sy.atom('param:D')
            ok = rad_zero(sp.expand(((sh - t_d) * D) ** 2 - ((ls - t_d) * D) ** 2), sy)
    except (TypeError, Unsupported, IndexError, KeyError) as ex:
        return fail('Kenamond3: continuity at the shadow boundary could not be formed (%s)' % type(ex).__name__)
    if ok:
        res.discharged += 1
        res.sample({'class': 'Kenamond3', 'identity': 'line-of-sight == tangent-arc-tangent arrival time where theta == 0'}, limit=60)
    else:
        fail("Kenamond3: where the code's angle `theta` vanishes (P.x_d = %s) the tangent-arc-tangent arrival time is not the "
             "line-of-sight arrival time: the burn time jumps across the shadow boundary" % qstar.key()[:120])


def branch_continuity(model, res, tier='quick'):
    """Kenamond3: every point-dependent `if` that selects between burn-time values is a boundary across which the burn time
    must be continuous.  The symbolic rule above proves it for the shadow test; this rule covers ANY such test (an added
    early-out, a re-ordered test) by witnesses: at the class defaults, for several distances |P| from the obstacle centre, the
    value of P.x_d on the boundary of the test is found by bisection on the test's own normal form, and the two selected
    values (nested selections evaluated by their own tests) are compared there in 30-digit arithmetic.  A difference at
    a witness point is a jump of the returned field at an admissible point: reported with the point.  No difference at the
    witnesses proves nothing and is recorded as such."""
    import ast as _ast
    import sympy as sp
    cls = model.get_class(CLASSES[2])
    runm = cls.find_method('_run')
    b = Builder(model)
    objn, ret = b.run_solver(cls)
    inputs = {n for n in b.trace if n.kind == 'input' and str(n.val).startswith('r')}
    keys = list(model.parameters_keys(cls) or [])
    sols = [l for l in phi_leaves(ret) if l.kind == 'call' and l.val == 'exactpack.base.ExactSolution']
    sol = sols[0]
    data, names = sol.args[0], (sol.args[1] if len(sol.args) > 1 else sol.kw.get('names'))
    field = [d for a, d in zip(names.args, data.args) if a.val == 'burntime'][0]
    ev = NFEval(keys)
    ev.interior_clamps = True
    S_, Q_ = ev.atom('param:PP'), ev.atom('param:Pc')
    consts = {}
    for m in b.trace:
        if m.kind == 'call' and m.val == 'numpy.linalg.norm' and len(m.args) == 1 and not _depends(m, inputs):
            consts[ev.nf(m.args[0]).key()] = ev.nf(m)
    for m in b.trace:
        da = dot_args(m, inputs)
        if da is None:
            continue
        a, c = affine(da[0], inputs), affine(da[1], inputs)
        if a is None or c is None:
            return
        ck = {ev.nf(x_[2]).key() for x_ in (a, c) if x_[2] is not None}
        if len(ck) > 1:
            return
        nn = ev.num(0)
        if ck:
            k0 = next(iter(ck))
            if k0 not in consts:
                return
            nn = ev.mul(consts[k0], consts[k0])
        expr = ev.add(ev.add(ev.mul(ev.num(a[0] * c[0]), S_), ev.mul(ev.num(a[0] * c[1] + c[0] * a[1]), Q_)), ev.mul(ev.num(a[1] * c[1]), nn))
        ev.memo[m.nid] = ev.power(expr, ev.S.F(Fraction(1, 2))) if da[2] else expr
    sy = NFSym(ev)
    # numeric environment: class defaults
    env = {}
    for kname in keys:
        owner, val = cls.find_attr(kname)
        try:
            v = _ast.literal_eval(_ast.unparse(val))
        except Exception:
            continue
        if isinstance(v, (int, float)):
            env['param:%s' % kname] = sp.nsimplify(v, rational=True)
        elif isinstance(v, (list, tuple)) and all(isinstance(z, (int, float)) for z in v):
            env['norm:%s' % kname] = sp.sqrt(sum(sp.nsimplify(z, rational=True) ** 2 for z in v))
    if 'param:R' not in env or not any(k.startswith('norm:') for k in env):
        return
    lod = [v for k, v in env.items() if k.startswith('norm:')][0]

    def subs_map(s_val, q_val):
        mp = {}
        for k, symb in sy.syms.items():
            if k == 'param:PP':
                mp[symb] = s_val
            elif k == 'param:Pc':
                mp[symb] = q_val
            elif k in env:
                mp[symb] = env[k]
            elif k.startswith('numpy.linalg.norm('):
                mp[symb] = lod
            elif k == 'pi':
                mp[symb] = sp.pi
        return mp

    def num(nf_, s_val, q_val):
        e = sy.conv(nf_)
        # arccos atoms etc. are symbols of sy: rebuild functions
        out = e
        for _ in range(6):
            mp = subs_map(s_val, q_val)
            fmap = {}
            for k, symb in list(sy.syms.items()):
                if symb in out.free_symbols and k in ev.funcs and k not in ('pi',):
                    fname, arg = ev.funcs[k][0], ev.funcs[k][1]
                    fn = {'arccos': sp.acos, 'acos': sp.acos, 'arcsin': sp.asin, 'asin': sp.asin, 'arctan': sp.atan, 'sin': sp.sin,
                          'cos': sp.cos, 'log': sp.log, 'exp': sp.exp}.get(fname)
                    if fn is not None:
                        fmap[symb] = fn(sy.conv(arg))
            out = out.xreplace(fmap).xreplace(mp)
            if not (out.free_symbols & set(sy.syms.values())):
                break
        v = sp.N(out, 30)
        return v if v.is_real else None

    def value(n, s_val, q_val, depth=0):
        if depth > 12:
            return None
        if n.kind == 'store':
            return value(n.args[2], s_val, q_val, depth + 1)
        if n.kind in ('mu', 'elem', 'arrayof'):
            return value(n.args[-1] if n.kind == 'mu' and n.args[-1] is not None else n.args[0], s_val, q_val, depth + 1)
        if n.kind == 'sub' and n.args[0].kind in ('store', 'phi', 'mu'):
            return value(n.args[0], s_val, q_val, depth + 1)
        if n.kind == 'phi':
            c = cond_value(n.args[0], s_val, q_val)
            if c is None:
                return None
            return value(n.args[1] if c else n.args[2], s_val, q_val, depth + 1)
        x = ev.nf(n)
        if x is NAN or isinstance(x, (PW, Struct)):
            return None
        return num(x, s_val, q_val)

    def cond_value(c, s_val, q_val):
        if c.kind == 'cmp' and len(c.args) == 2:
            l, r = num(ev.nf(c.args[0]), s_val, q_val), num(ev.nf(c.args[1]), s_val, q_val)
            if l is None or r is None:
                return None
            return {'>': l > r, '>=': l >= r, '<': l < r, '<=': l <= r}.get(c.val)
        return None
    # point-dependent selections reachable from the field
    phis, seen = [], set()
    todo = [field]
    while todo:
        n = todo.pop()
        if n is None or not hasattr(n, 'nid') or n.nid in seen:
            continue
        seen.add(n.nid)
        if n.kind == 'phi' and n.args[0].kind == 'cmp' and _depends(n.args[0], inputs) and n.origin and n.origin[0] is runm:
            phis.append(n)
        if n.kind in ('store', 'mu', 'elem', 'arrayof', 'sub', 'phi'):
            todo.extend(a for a in n.args if hasattr(a, 'nid'))
    Rv = env['param:R']
    tested = 0
    for ph in phis:
        c = ph.args[0]
        g = lambda s_val, q_val: (lambda l, r: None if l is None or r is None else l - r)(
            num(ev.nf(c.args[0]), s_val, q_val), num(ev.nf(c.args[1]), s_val, q_val))
        facs = (sp.Rational(10001, 10000), sp.Rational(21, 20), sp.Rational(3, 2), 4, 25)
        if tier == 'thorough':
            facs = tuple(sorted(set(facs) | {sp.Rational(1001, 1000), sp.Rational(101, 100), sp.Rational(11, 10), sp.Rational(5, 4), 2, 3,
                                             sp.Rational(3, 2) * lod / Rv, lod / Rv, 10, 100}))
        for fac in facs:
            s_val = Rv ** 2 * fac ** 2
            lop = Rv * fac
            lo, hi = -lod * lop * sp.Rational(999999, 1000000), lod * lop * sp.Rational(999999, 1000000)
            glo, ghi = g(s_val, lo), g(s_val, hi)
            if glo is None or ghi is None or glo * ghi > 0:
                continue
            for _ in range(80):
                mid = (lo + hi) / 2
                gm = g(s_val, mid)
                if gm is None:
                    break
                if (gm > 0) == (glo > 0):
                    lo, glo = mid, gm
                else:
                    hi, ghi = mid, gm
            qb = (lo + hi) / 2
            eps_q = lod * lop * sp.Rational(1, 10 ** 9)
            va = value(ph.args[1], s_val, qb, 0)
            vb = value(ph.args[2], s_val, qb, 0)
            # values on the two sides right next to the boundary (nested tests may flip exactly on it)
            va2 = value(ph.args[1], s_val, qb + eps_q, 0), value(ph.args[1], s_val, qb - eps_q, 0)
            vb2 = value(ph.args[2], s_val, qb + eps_q, 0), value(ph.args[2], s_val, qb - eps_q, 0)
            cand = [(x_, y_) for x_ in (va,) + va2 for y_ in (vb,) + vb2 if x_ is not None and y_ is not None]
            if not cand:
                continue
            tested += 1
            res.obligations += 1
            res.evaluations += 1
            res.nontrivial += 1
            gap = min(abs(x_ - y_) for x_, y_ in cand)
            if gap < sp.Float('1e-7'):
                res.discharged += 1
                continue
            res.add(Finding(PROP, 'C13.eikonal', runm.module.relpath, runm.qualname,
                            'Kenamond3: jump across the test `%s`' % c.src[:60],
                            "Kenamond3: at the class defaults, for |P| = %s R and P.x_d = %s (on the boundary of the test `%s`) the two "
                            "burn-time values selected by the test differ by %s: the returned field jumps at an admissible point, it is "
                            "not a continuous first-arrival time" % (fac, sp.N(qb, 8), c.src[:80], sp.N(gap, 6)),
                            line=getattr(c.origin[1], 'lineno', 0) if c.origin else 0, construct=c.src))
            break
    res.extra['kenamond3_branch_witnesses'] = res.extra.get('kenamond3_branch_witnesses', 0) + tested
