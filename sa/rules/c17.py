"""C17 -- admissibility: the one structural clause (Mader transition cell; DESIGN 3, C17)."""
import ast
from fractions import Fraction

from ..model import AnalysisError, src_of
from ..report import Result, Finding
from ..vg import Builder, Frame
from ..nf import NFEval, NAN

LEVEL = 'other'
PROP = 'C17'
FN = 'exactpack.solvers.mader.rarefaction:rare'
QUANT = ['u', 'p', 'c', 'rho']


def run(model, tier):
    res = Result(PROP)
    res.explanation = (
        "Clause 'values reported for a cell between two constant states lie between those states', at the one site "
        "that computes such a value: Mader's cell straddling the tail of the Taylor wave (rarefaction.rare, branch "
        "`dist <= tol`). For each averaged quantity X in (u, p, c, rho) the normal form of the value returned by that "
        "branch must be the convex combination  Xc + (Xp - Xc) * w  with the SAME weight w = 2h/dx for all four, Xp "
        "the partial-cell fan average computed at the top of the branch and Xc the constant-state value, i.e. the "
        "expression the `else:` (constant state) branch assigns to the same quantity. With 0 <= w <= 1 this form is "
        "between Xc and Xp for every input; any other affine form extrapolates. Sedov (sa/rules/c17_sedov.py): every base of a "
        "power with a parameter-dependent exponent in the similarity functions is positive on the range of v that is used -- clamped, a "
        "positive multiple of v, or identically (vstar - v)/(vstar - v2) with v and v2 on the same side of vstar by the constructor's "
        "choice of range -- so density and pressure are positive products and no fractional power of a negative number occurs. "
        "Riemann solvers (sa/rules/c17_pattern.py): every shock is compressive for all inputs because each wave-pattern threshold of "
        "RiemannIGEOS.driver makes the root equations of both neighbouring patterns vanish identically at the initial pressure of the "
        "side whose wave changes kind, the pattern with the shock on that side is selected for the smaller ur, and each branch solves "
        "the root equation of the pattern its soln_type names, and each of the four root equations is strictly monotone in p with d root/d p and "
        "d root/d ur of one common definite sign for all positive states and adiabatic indices > 1 (symbolic derivative of the normal form; "
        "unique root, star pressure falls as ur grows); RiemannGenEOS.driver reads isentrope tables for px < p_side and Hugoniot "
        "tables for px > p_side of the same side. "
        "Guderley (sa/rules/c17_guderley.py): in every shocked branch of state() the density is the density ahead of the converging shock "
        "times the similarity variable y[2] alone, and y[2] starts at the shock from a value > 1 for every gamma > 1, so the jump is "
        "compressive for every rho0. "
        "Shocks of other solvers, monotone fans and the Su-Olson ordering are numeric and not decided.")
    res.rule_text = 'instance = one averaged quantity of the transition cell'
    res.trusted_base = ['CPython ast', 'NF engine']
    fi = model.get_func(FN)
    # locate the three branches
    chain = None
    for st in fi.node.body:
        if isinstance(st, ast.If) and st.orelse and isinstance(st.orelse[0], ast.If) and st.orelse[0].orelse:
            chain = st
    if chain is None:
        raise AnalysisError('fan / transition / constant-state branch chain vanished from rare()')
    trans = chain.orelse[0]
    const_body = trans.orelse
    first, last = {}, {}
    for st in trans.body:
        if isinstance(st, ast.Assign) and len(st.targets) == 1 and isinstance(st.targets[0], ast.Name):
            nm = st.targets[0].id
            first.setdefault(nm, st.targets[0])
            last[nm] = st.targets[0]
    cst = {}
    for st in const_body:
        if isinstance(st, ast.Assign) and len(st.targets) == 1 and isinstance(st.targets[0], ast.Name):
            cst[st.targets[0].id] = st.targets[0]
    for q in QUANT:
        if q not in first or q not in cst or first[q] is last[q]:
            raise AnalysisError("quantity '%s' is not averaged in the transition branch / not set in the constant-state branch" % q)
    b = Builder(model)
    b.frame = Frame(None, fi.module, {}, None)
    args = [b.mk('input', a.arg) for a in fi.node.args.args]
    b.run_function(fi, args)
    val = {}
    for func, tnode, vnode in b.assign_log:
        val[id(tnode)] = vnode
    ev = NFEval([])
    names = {a.arg for a in fi.node.args.args}
    # weight: 2*h/dx as written in the branch (h, dx are locals / arguments)
    h = val.get(id(last.get('h'))) if 'h' in last else None
    dxn = [a for a in args if a.val == 'dx']
    if h is None or not dxn:
        raise AnalysisError('partial-cell half width h / cell width dx vanished from rare()')
    w = ev.mul(ev.mul(ev.num(2), ev.nf(h)), ev.power(ev.nf(dxn[0]), ev.S.F(-1)))
    for q in QUANT:
        res.obligations += 1
        res.evaluations += 1
        res.nontrivial += 1
        xp = ev.nf(val[id(first[q])])
        xc = ev.nf(val[id(cst[q])])
        got = ev.nf(val[id(last[q])])
        want = ev.add(xc, ev.mul(ev.add(xp, xc, -1), w))
        if got is not NAN and want is not NAN and ev.equal(got, want):
            res.discharged += 1
            res.sample({'quantity': q, 'average': src_of(last[q]) + ' = Xc + (Xp - Xc)*2h/dx', 'Xc': xc.key()[:100]})
            continue
        # diagnose
        alt = ev.add(xp, ev.mul(ev.add(xp, xc, -1), w))
        why = 'it is not Xc + (Xp - Xc)*w with Xc the constant-state value and w = 2h/dx'
        if got is not NAN and ev.equal(got, alt):
            why = 'it is Xp + (Xp - Xc)*w: the average starts from the partial-cell value instead of the constant state and extrapolates beyond it'
        res.add(Finding(PROP, 'C17.convex-average', fi.module.relpath, fi.qualname, "transition cell: '%s'" % q,
                        "Mader transition cell: the value returned for '%s' is not a convex combination of the partial-cell "
                        "fan average and the constant state: %s (constant-state branch assigns %s)"
                        % (q, why, xc.key()[:160]), line=last[q].lineno, construct=src_of(last[q])))
    # ---- the fan meets the constant state continuously: at the tail x = xp the fan's velocity and sound
    # speed are the constant-state values (otherwise cells next to the tail are extrapolated beyond, or cut
    # short of, the piston state: values outside the two constant states, a non-monotone profile)
    fan_first = {}
    for st in chain.body:
        if isinstance(st, ast.Assign) and len(st.targets) == 1 and isinstance(st.targets[0], ast.Name):
            fan_first.setdefault(st.targets[0].id, st.targets[0])
    xp_t = None
    for func, tnode, vnode in b.assign_log:
        if func is fi and tnode.id == 'xp':
            xp_t = vnode
    xlab = [a for a in args if a.val == 'xlab']
    tim = [a for a in args if a.val == 'time']
    dcj = [a for a in args if a.val == 'd_cj']
    if xp_t is None or not xlab or not tim or not dcj or 'u' not in fan_first or 'c' not in fan_first:
        raise AnalysisError('fan tail xp / fan values vanished from rare()')
    ev2 = NFEval([])
    ev2.memo[xlab[0].nid] = ev2.add(ev2.mul(ev2.nf(dcj[0]), ev2.nf(tim[0])), ev2.nf(xp_t), -1)     # xdet == xp
    from ..ratnf import NFSym
    sy = NFSym(ev2)
    for q in ('u', 'c'):
        res.obligations += 1
        res.evaluations += 1
        res.nontrivial += 1
        fv = ev2.nf(val[id(fan_first[q])])
        cv = ev2.nf(val[id(cst[q])])
        ok = fv is not NAN and cv is not NAN
        if ok:
            try:
                ok = sy.equal(fv, cv)
            except TypeError:
                ok = False
        if ok:
            res.discharged += 1
            res.sample({'quantity': q, 'continuity': "fan value of '%s' at the tail xdet = xp equals the constant state" % q})
        else:
            res.add(Finding(PROP, 'C17.fan-tail', fi.module.relpath, fi.qualname, "fan tail: '%s' at xdet = xp" % q,
                            "Mader: at the tail of the Taylor wave (xdet = xp = %s) the fan value of '%s' is not the "
                            "constant-state value: the fan is extrapolated beyond (or cut short of) the state in front of "
                            "the piston, so cells near the tail get values outside the two constant states"
                            % (src_of(xp_t.origin[1])[:70] if xp_t.origin and xp_t.origin[1] is not None else 'xp', q),
                            line=getattr(xp_t.origin[1], 'lineno', 0) if xp_t.origin else 0,
                            construct=src_of(xp_t.origin[1]) if xp_t.origin and xp_t.origin[1] is not None else 'xp'))
    # ---- the partial-cell fan values of the transition branch are the fan-branch formulas with the cell
    # [x1, x1 + dx] replaced by the part of the cell the fan occupies, [xp, x2]
    locs = {}
    for func, tnode, vnode in b.assign_log:
        if func is fi and tnode.id in ('x1', 'half', 'x2') and tnode.id not in locs:
            locs[tnode.id] = vnode
    x2_t = None
    for func, tnode, vnode in b.assign_log:
        if func is fi and tnode.id == 'x2':
            x2_t = vnode
    if 'x1' not in locs or 'half' not in locs or x2_t is None or not dxn:
        raise AnalysisError('cell geometry locals x1 / half / x2 vanished from rare()')
    ev3 = NFEval([])
    nxp, nx2 = ev3.nf(xp_t), ev3.nf(x2_t)
    width = ev3.add(nx2, nxp, -1)
    ev3.memo[locs['x1'].nid] = nxp
    ev3.memo[dxn[0].nid] = width
    ev3.memo[locs['half'].nid] = ev3.mul(ev3.num(Fraction(1, 2)), width)
    ev4 = NFEval([])
    ev4.sums = ev3.sums               # one table of sum atoms for both evaluators
    sy3 = NFSym(ev3)
    for q in QUANT:
        res.obligations += 1
        res.evaluations += 1
        res.nontrivial += 1
        want = ev3.nf(val[id(fan_first[q])])           # fan formula on [xp, x2]
        got = ev4.nf(val[id(first[q])])                # what the transition branch computes
        ok = want is not NAN and got is not NAN
        if ok:
            try:
                ok = sy3.equal(want, got)
            except TypeError:
                ok = False
        if ok:
            res.discharged += 1
            res.sample({'quantity': q, 'partial_cell': "partial-cell value of '%s' is the fan formula on [xp, x2]" % q})
        else:
            res.add(Finding(PROP, 'C17.partial-cell', fi.module.relpath, fi.qualname, "transition cell: partial-cell '%s'" % q,
                            "Mader transition cell: the partial-cell fan value of '%s' is not the fan-branch formula taken over "
                            "[xp, x2], the part of the cell that the fan occupies (it is `%s`): the fan is evaluated outside "
                            "its range, so the cell value can leave the interval spanned by the two neighbouring states"
                            % (q, src_of(first[q])[:40] + ' = ...'), line=first[q].lineno, construct=src_of(first[q])))
    from . import c17_sedov
    c17_sedov.sedov_bases(model, res)
    from . import c17_pattern
    c17_pattern.boundaries(model, res)
    c17_pattern.geneos_branches(model, res)
    from . import c17_guderley
    c17_guderley.check(model, res)
    return res
