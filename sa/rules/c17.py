"""C17 -- admissibility: the one structural clause (Mader transition cell; DESIGN 3, C17)."""
import ast

from ..model import AnalysisError, src_of
from ..report import Result, Finding
from ..vg import Builder, Frame
from ..nf import NFEval, NAN

LEVEL = 'other'
PROP = 'C17'
FN = 'exactpack.solvers.mader.rarefaction:rare'
QUANT = ['u', 'p', 'c', 'rho']


def run(model, tier):
    res = Result(PROP)
    res.explanation = (
        "Clause 'values reported for a cell between two constant states lie between those states', at the one site "
        "that computes such a value: Mader's cell straddling the tail of the Taylor wave (rarefaction.rare, branch "
        "`dist <= tol`). For each averaged quantity X in (u, p, c, rho) the normal form of the value returned by that "
        "branch must be the convex combination  Xc + (Xp - Xc) * w  with the SAME weight w = 2h/dx for all four, Xp "
        "the partial-cell fan average computed at the top of the branch and Xc the constant-state value, i.e. the "
        "expression the `else:` (constant state) branch assigns to the same quantity. With 0 <= w <= 1 this form is "
        "between Xc and Xp for every input; any other affine form extrapolates. Positivity, compressive shocks, "
        "monotone fans and the Su-Olson ordering are numeric and not decided.")
    res.rule_text = 'instance = one averaged quantity of the transition cell'
    res.trusted_base = ['CPython ast', 'NF engine']
    fi = model.get_func(FN)
    # locate the three branches
    chain = None
    for st in fi.node.body:
        if isinstance(st, ast.If) and st.orelse and isinstance(st.orelse[0], ast.If) and st.orelse[0].orelse:
            chain = st
    if chain is None:
        raise AnalysisError('fan / transition / constant-state branch chain vanished from rare()')
    trans = chain.orelse[0]
    const_body = trans.orelse
    first, last = {}, {}
    for st in trans.body:
        if isinstance(st, ast.Assign) and len(st.targets) == 1 and isinstance(st.targets[0], ast.Name):
            nm = st.targets[0].id
            first.setdefault(nm, st.targets[0])
            last[nm] = st.targets[0]
    cst = {}
    for st in const_body:
        if isinstance(st, ast.Assign) and len(st.targets) == 1 and isinstance(st.targets[0], ast.Name):
            cst[st.targets[0].id] = st.targets[0]
    for q in QUANT:
        if q not in first or q not in cst or first[q] is last[q]:
            raise AnalysisError("quantity '%s' is not averaged in the transition branch / not set in the constant-state branch" % q)
    b = Builder(model)
    b.frame = Frame(None, fi.module, {}, None)
    args = [b.mk('input', a.arg) for a in fi.node.args.args]
    b.run_function(fi, args)
    val = {}
    for func, tnode, vnode in b.assign_log:
        val[id(tnode)] = vnode
    ev = NFEval([])
    names = {a.arg for a in fi.node.args.args}
    # weight: 2*h/dx as written in the branch (h, dx are locals / arguments)
    h = val.get(id(last.get('h'))) if 'h' in last else None
    dxn = [a for a in args if a.val == 'dx']
    if h is None or not dxn:
        raise AnalysisError('partial-cell half width h / cell width dx vanished from rare()')
    w = ev.mul(ev.mul(ev.num(2), ev.nf(h)), ev.power(ev.nf(dxn[0]), ev.S.F(-1)))
    for q in QUANT:
        res.obligations += 1
        res.evaluations += 1
        res.nontrivial += 1
        xp = ev.nf(val[id(first[q])])
        xc = ev.nf(val[id(cst[q])])
        got = ev.nf(val[id(last[q])])
        want = ev.add(xc, ev.mul(ev.add(xp, xc, -1), w))
        if got is not NAN and want is not NAN and ev.equal(got, want):
            res.discharged += 1
            res.sample({'quantity': q, 'average': src_of(last[q]) + ' = Xc + (Xp - Xc)*2h/dx', 'Xc': xc.key()[:100]})
            continue
        # diagnose
        alt = ev.add(xp, ev.mul(ev.add(xp, xc, -1), w))
        why = 'it is not Xc + (Xp - Xc)*w with Xc the constant-state value and w = 2h/dx'
        if got is not NAN and ev.equal(got, alt):
            why = 'it is Xp + (Xp - Xc)*w: the average starts from the partial-cell value instead of the constant state and extrapolates beyond it'
        res.add(Finding(PROP, 'C17.convex-average', fi.module.relpath, fi.qualname, "transition cell: '%s'" % q,
                        "Mader transition cell: the value returned for '%s' is not a convex combination of the partial-cell "
                        "fan average and the constant state: %s (constant-state branch assigns %s)"
                        % (q, why, xc.key()[:160]), line=last[q].lineno, construct=src_of(last[q])))
    return res
