"""D_sym -- symmetry typing on the value graph (DESIGN 2.4; C09 R9.2, R9.3).

R9.2  Galilean covariance: every value v gets a *shift weight* a(v) such that a
boost by U maps v to v + a(v) U exactly.  Sums add weights, a product is
affine only if one factor is invariant, non-linear functions and powers need
invariant arguments, comparisons need equal weights on both sides, a root
solve is invariant if its residual is.  Weights are normal forms (D_nf), e.g.
a(x) = t, a(u) = 1, a(u - (x - xd0)/t) = 0.

R9.3  Rigid invariance of burn times: values are typed Inv / Vec / Pt (and
arrays of them); Pt - Pt -> Vec, dot/norm of Vec -> Inv, everything else that
touches a Vec or Pt (component access, abs, comparison, ...) is a
non-equivariant use.  The burn time must be Inv.
"""
import ast

from ..model import AnalysisError
from ..report import Finding
from ..vg import Builder, Frame, walk
from ..nf import NFEval, NAN, Mono, Sum, PW, Struct, leaves
from .c05 import phi_leaves

PROP = 'C09'
UTILS = 'exactpack.solvers.riemann.utils'
RIEMANN = 'exactpack.solvers.riemann.riemann:RiemannIGEOS'

NONLINEAR = {'numpy.sqrt', 'math.sqrt', 'numpy.exp', 'numpy.log', 'numpy.abs', 'builtins.abs', 'numpy.sign',
             'numpy.sin', 'numpy.cos', 'numpy.tan', 'numpy.arccos', 'numpy.arcsin', 'numpy.arctan', 'math.exp',
             'math.log', 'numpy.square', 'numpy.log10'}
SAME_WEIGHT = {'builtins.min', 'builtins.max', 'numpy.minimum', 'numpy.maximum', 'numpy.append', 'numpy.linspace',
               'numpy.amin', 'numpy.amax', 'numpy.min', 'numpy.max'}
PASS = {'numpy.array', 'numpy.asarray', 'builtins.float', 'numpy.copy', 'numpy.sort', 'numpy.flip', 'builtins.list',
        'builtins.tuple'}


class Violation:
    def __init__(self, node, what):
        self.node = node
        self.what = what


class ShiftEval:
    def __init__(self, ev, seeds):
        self.ev = ev                   # NFEval
        self.seeds = seeds             # atom key ('param:ul', 'input:x', ...) -> NF weight
        self.memo = {}
        self.violations = []
        self.top = 0
        self.checked = 0

    def zero(self):
        return self.ev.num(0)

    def is_zero(self, a):
        return isinstance(a, Mono) and a.coef == 0

    def eq(self, a, b):
        if a is None or b is None:
            return True
        if isinstance(a, Struct) or isinstance(b, Struct):
            if isinstance(a, Struct) and isinstance(b, Struct) and len(a.items) == len(b.items):
                return all(self.eq(x, y) for x, y in zip(a.items, b.items))
            s, o = (a, b) if isinstance(a, Struct) else (b, a)
            return all(self.eq(x, o) for x in s.items)
        return a.key() == b.key()

    def viol(self, n, what):
        self.violations.append(Violation(n, what))

    def w(self, n):
        if n is None:
            return None
        if n.nid in self.memo:
            return self.memo[n.nid]
        self.memo[n.nid] = None
        r = self._w(n)
        self.memo[n.nid] = r
        return r

    def _w(self, n):
        ev = self.ev
        k = n.kind
        if k == 'const':
            return self.zero()
        if k == 'param':
            return self.seeds.get('param:%s' % n.val, self.zero())
        if k in ('input', 'hoarg'):
            return self.seeds.get('input:%s' % n.val, self.zero())
        if k in ('extfunc', 'index'):
            return self.zero()
        if k == 'binop':
            a, b = self.w(n.args[0]), self.w(n.args[1])
            op = n.val
            if a is None or b is None:
                self.top += 1
                return None
            if isinstance(a, Struct) or isinstance(b, Struct):
                return self.struct_binop(n, a, b)
            if op in ('+', '-'):
                self.checked += 1
                return ev.add(a, b, 1 if op == '+' else -1)
            if op == '*':
                self.checked += 1
                if self.is_zero(a) and self.is_zero(b):
                    return self.zero()
                if self.is_zero(a):
                    return ev.mul(ev.nf(n.args[0]), b)
                if self.is_zero(b):
                    return ev.mul(a, ev.nf(n.args[1]))
                self.viol(n, 'product of two boost-dependent values is not affine in the boost velocity')
                return None
            if op == '/':
                self.checked += 1
                if not self.is_zero(b):
                    self.viol(n, 'division by a boost-dependent value')
                    return None
                if self.is_zero(a):
                    return self.zero()
                return ev.mul(a, ev.power(ev.nf(n.args[1]), ev.S.F(-1)))
            if op == '**':
                self.checked += 1
                if not self.is_zero(a) or not self.is_zero(b):
                    self.viol(n, 'power of a boost-dependent value')
                    return None
                return self.zero()
            self.top += 1
            return None
        if k == 'unop':
            a = self.w(n.args[0])
            if a is None:
                return None
            if n.val == '-':
                return ev.mul(ev.num(-1), a) if not isinstance(a, Struct) else Struct([ev.mul(ev.num(-1), x) for x in a.items])
            if n.val == '+':
                return a
            return self.zero()
        if k == 'cmp':
            a, b = self.w(n.args[0]), self.w(n.args[1])
            if a is not None and b is not None:
                self.checked += 1
                if not self.eq(a, b):
                    self.viol(n, 'comparison of values with different boost weights (%s vs %s)'
                              % (self.show(a), self.show(b)))
            return self.zero()
        if k == 'bool':
            for a in n.args:
                self.w(a)
            return self.zero()
        if k == 'phi':
            self.w(n.args[0])
            a, b = self.w(n.args[1]), self.w(n.args[2])
            if a is None:
                return b
            if b is None:
                return a
            if n.args[1].kind == 'undef':
                return b
            if n.args[2].kind == 'undef':
                return a
            self.checked += 1
            if self.eq(a, b):
                return a
            if isinstance(a, Struct) or isinstance(b, Struct):
                return None
            return ev.pw(ev.ckey(n.args[0]), a, b, n.args[0])
        if k in ('tuple', 'list'):
            return Struct([self.w(a) if self.w(a) is not None else None for a in n.args]) \
                if all(self.w(a) is not None for a in n.args) else None
        if k == 'sub':
            base = self.w(n.args[0])
            idx = n.args[1]
            if isinstance(base, Struct):
                if idx.kind == 'const' and isinstance(idx.val, int) and -len(base.items) <= idx.val < len(base.items):
                    return base.items[idx.val]
                first = base.items[0] if base.items else None
                if all(self.eq(first, x) for x in base.items):
                    return first
                return None
            return base
        if k == 'call':
            return self.w_call(n)
        if k in ('elem', 'arrayof'):
            return self.w(n.args[0])
        if k == 'attr' and n.val in ('T', 'shape', 'size'):
            return self.w(n.args[0]) if n.val == 'T' else self.zero()
        self.top += 1
        return None

    def struct_binop(self, n, a, b):
        ev = self.ev
        op = n.val
        if op in ('+', '-'):
            def f(x, y):
                return ev.add(x, y, 1 if op == '+' else -1)
            if isinstance(a, Struct) and isinstance(b, Struct):
                if len(a.items) != len(b.items):
                    return None
                return Struct([f(x, y) for x, y in zip(a.items, b.items)])
            if isinstance(a, Struct):
                return Struct([f(x, b) for x in a.items])
            return Struct([f(a, y) for y in b.items])
        if op == '*':
            s, o, on, sn = (a, b, n.args[1], n.args[0]) if isinstance(a, Struct) else (b, a, n.args[0], n.args[1])
            if isinstance(o, Struct):
                return None
            if self.is_zero(o):
                # invariant scalar times a vector of weighted values
                return Struct([ev.mul(ev.nf(on), x) for x in s.items])
            if all(self.is_zero(x) for x in s.items):
                return None
            self.viol(n, 'product of two boost-dependent values is not affine in the boost velocity')
            return None
        return None

    def w_call(self, n):
        ev = self.ev
        name = n.val
        ws = [self.w(a) for a in n.args]
        if name == 'numpy.where' and len(ws) == 3:
            a, b = ws[1], ws[2]
            if a is None or b is None:
                return a if b is None else b
            self.checked += 1
            if self.eq(a, b):
                return a
            return ev.pw(ev.ckey(n.args[0]), a, b, n.args[0])
        if name in NONLINEAR:
            if ws and ws[0] is not None:
                self.checked += 1
                a = ws[0]
                bad = (not self.is_zero(a)) if not isinstance(a, Struct) else any(not self.is_zero(x) for x in a.items)
                if bad:
                    self.viol(n, 'non-linear function %s of a boost-dependent value (weight %s)'
                              % (name.split('.')[-1], self.show(a)))
                    return None
            return self.zero()
        if name in SAME_WEIGHT:
            flat = []
            for x in ws:
                if isinstance(x, Struct):
                    flat.extend(x.items)
                else:
                    flat.append(x)
            flat = [x for x in flat if x is not None]
            if name == 'numpy.linspace':
                flat = flat[:2]
            if not flat:
                return None
            self.checked += 1
            if not all(self.eq(flat[0], x) for x in flat[1:]):
                self.viol(n, 'arguments of %s have different boost weights (%s)'
                          % (name.split('.')[-1], ', '.join(self.show(x) for x in flat)))
                return None
            return flat[0]
        if name in PASS and ws:
            return ws[0]
        if n.ho is not None and n.ho.get('mode') == 'root1':
            ph = n.ho['placeholders'][0]
            self.memo[ph.nid] = self.zero()
            r = self.w(n.ho['result']) if n.ho.get('result') is not None else None
            if r is not None:
                self.checked += 1
                if not self.is_zero(r):
                    self.viol(n, 'residual handed to %s is not boost invariant (weight %s): the root changes with '
                                 'the frame' % (name.split('.')[-1], self.show(r)))
                    return None
            return self.zero()
        if name in ('numpy.ones', 'numpy.zeros', 'builtins.len', 'numpy.ones_like', 'numpy.zeros_like'):
            return self.zero()
        self.top += 1
        return None

    def show(self, a):
        if a is None:
            return 'TOP'
        if isinstance(a, Struct):
            return '[' + ', '.join(self.show(x) for x in a.items) + ']'
        k = a.key()
        return k if len(k) < 80 else k[:77] + '...'


# ---------------------------------------------------------------------------

STATE = ['rl', 'pl', 'ul', 'gl', 'rr', 'pr', 'ur', 'gr']
OTHER = ['A', 'B', 'R1', 'R2', 'r0', 'e0', 'problem', 'num_int_pts', 'num_x_pts', 'int_tol', 'xmin', 'xd0', 'xmax',
         't', 'pmax', 'al', 'ar', 'ul_tilde']

# function -> (argument names with weight 1 / weight t, required weight(s) of the result)
GALILEAN_FUNCS = {
    'shock': ({'u': '1'}, '1'),
    'rarefaction': ({'u': '1'}, '1'),
    'RCS_call': ({}, '0'), 'SCR_call': ({}, '0'), 'RCR_call': ({}, '0'), 'SCS_call': ({}, '0'),
    'rho_star_shock': ({}, '0'), 'rho_star_rarefaction': ({}, '0'),
    'rho_p_u_rarefaction': ({'u': '1', 'x': 't'}, ['0', '0', '1']),
    'shock_velocity': ({'u': '1'}, '1'),
    'u_SCN': ({}, '1'), 'u_NCS': ({}, '1'), 'u_NCR': ({}, '1'), 'u_RCN': ({}, '1'), 'u_a': ({}, '1'),
    'u_RCVR': ({}, '1'),
    'sie': ({}, '0'), 'sound_speed': ({}, '0'),
}


def weight_nf(ev, w, targ):
    if w == '0':
        return ev.num(0)
    if w == '1':
        return ev.num(1)
    if w == 't':
        return targ
    raise AnalysisError('bad weight %r' % w)


def galilean(model, res):
    cls = model.get_class(RIEMANN)
    mod = model.modules[UTILS]
    n_funcs = 0
    for fname, (argw, want) in GALILEAN_FUNCS.items():
        fi = model.get_func('%s:%s' % (UTILS, fname))
        b = Builder(model)
        b.frame = Frame(None, mod, {}, None)
        inst = b.symbolic_obj(cls, STATE + OTHER)
        args = []
        names = [a.arg for a in fi.node.args.args]
        for nm in names:
            if nm == 'inst':
                args.append(inst)
            else:
                args.append(b.mk('input', nm))
        ret = b.run_function(fi, args)
        ev = NFEval(STATE + OTHER)
        targ = ev.atom('input:t') if 't' in names else ev.atom('param:t')
        seeds = {'param:ul': ev.num(1), 'param:ur': ev.num(1), 'param:ul_tilde': ev.num(1)}
        for nm, w in argw.items():
            if nm not in names:
                raise AnalysisError('argument %s vanished from %s' % (nm, fname))
            seeds['input:%s' % nm] = weight_nf(ev, w, targ)
        sh = ShiftEval(ev, seeds)
        got = sh.w(ret)
        res.obligations += 1
        res.evaluations += 1
        n_funcs += 1
        if sh.checked:
            res.nontrivial += 1
        ok = True
        for v in sh.violations:
            f2, q2, line = v.node.where
            res.add(Finding(PROP, 'C09.galilean', f2, q2, '%s: %s' % (fname, v.what.split(' (')[0]),
                            'Galilean covariance of %s: %s' % (fname, v.what), line=line, construct=v.node.src))
            ok = False
        wants = want if isinstance(want, list) else [want]
        gots = got.items if isinstance(got, Struct) else [got]
        if got is None or len(gots) != len(wants):
            if ok and got is None:
                raise AnalysisError('boost weight of the result of %s did not resolve' % fname)
        else:
            for i, (g, wv) in enumerate(zip(gots, wants)):
                if g is None:
                    raise AnalysisError('boost weight of result %d of %s did not resolve' % (i, fname))
                for conds, leaf in leaves(g):
                    if leaf is NAN:
                        continue
                    if leaf.key() != weight_nf(ev, wv, targ).key():
                        res.add(Finding(PROP, 'C09.galilean', fi.module.relpath, fi.qualname,
                                        '%s: result %d has boost weight %s, required %s' % (fname, i, leaf.key()[:60], wv),
                                        'Galilean covariance: under a boost by U the %s result of %s must change by '
                                        '%s*U but changes by (%s)*U' % (['', 'first', 'second', 'third'][i + 1] if len(wants) > 1 else '',
                                                                        fname, wv, leaf.key()[:120]),
                                        line=fi.node.lineno, construct='def %s' % fname))
                        ok = False
                        break
        if ok:
            res.discharged += 1
            res.sample({'rule': 'C09.galilean', 'function': fname, 'result_weight': sh.show(got),
                        'sites_checked': sh.checked}, limit=30)
    # driver level
    galilean_driver(model, res)
    return n_funcs


DRIVER_WEIGHTS = {'ux': '1', 'Vs': '1', 'Vsl': '1', 'Vsr': '1', 'Vregs': '1', 'Xregs': 't', 'px': '0',
                  'rx1': '0', 'rx2': '0', 'ax1': '0', 'ax2': '0', 'ex1': '0', 'ex2': '0',
                  'u_SCN_val': '1', 'u_NCR_val': '1', 'u_NCS_val': '1', 'u_RCN_val': '1', 'u_RCVR_val': '1'}


def galilean_driver(model, res):
    cls = model.get_class(RIEMANN)
    fi = cls.methods.get('driver')
    if fi is None:
        raise AnalysisError('RiemannIGEOS.driver vanished')
    b = Builder(model)
    b.frame = Frame(None, cls.module, {}, None)
    inst = b.symbolic_obj(cls, STATE + OTHER)
    xu = b.mk('input', 'x_user')
    from ..vg import Closure
    clo = Closure(fi, fi.node, None, self_node=inst, cls=cls, module=cls.module)
    b.call_closure(clo, [xu], {}, fi.node)
    ev = NFEval(STATE + OTHER)
    targ = ev.atom('param:t')
    seeds = {'param:ul': ev.num(1), 'param:ur': ev.num(1), 'param:ul_tilde': ev.num(1), 'input:x_user': targ}
    sh = ShiftEval(ev, seeds)
    seen = set()
    for func, tnode, vnode in b.assign_log:
        if func is fi and tnode.id in DRIVER_WEIGHTS:
            got = sh.w(vnode)
            res.obligations += 1
            res.evaluations += 1
            seen.add(tnode.id)
            want = weight_nf(ev, DRIVER_WEIGHTS[tnode.id], targ)
            ok = True
            if got is not None:
                gots = got.items if isinstance(got, Struct) else [got]
                for g in gots:
                    if g is None:
                        continue
                    for conds, leaf in leaves(g):
                        if leaf is not NAN and leaf.key() != want.key():
                            ok = False
                            res.add(Finding(PROP, 'C09.galilean', fi.module.relpath, fi.qualname,
                                            'driver: %s has boost weight %s, required %s'
                                            % (tnode.id, leaf.key()[:60], DRIVER_WEIGHTS[tnode.id]),
                                            'Galilean covariance: in RiemannIGEOS.driver `%s` must change by %s*U under a '
                                            'boost but changes by (%s)*U' % (tnode.id, DRIVER_WEIGHTS[tnode.id], leaf.key()[:120]),
                                            line=tnode.lineno, construct=tnode.id))
                            break
                    if not ok:
                        break
            if ok:
                res.discharged += 1
    # classification tests: both sides of every comparison carry the same weight
    for st in ast.walk(fi.node):
        if isinstance(st, ast.If) and any(isinstance(s2, ast.Assign) and any(
                isinstance(t, ast.Name) and t.id == 'soln_type' or
                (isinstance(t, ast.Tuple) and any(isinstance(e, ast.Name) and e.id == 'soln_type' for e in t.elts))
                for t in s2.targets) for s2 in st.body):
            ids = {id(x) for x in ast.walk(st.test)}
            for n in b.trace:
                if n.kind == 'cmp' and n.origin and id(n.origin[1]) in ids:
                    sh.w(n)
    for v in sh.violations:
        f2, q2, line = v.node.where
        res.add(Finding(PROP, 'C09.galilean', f2, q2, 'driver: %s' % v.what.split(' (')[0],
                        'Galilean covariance in RiemannIGEOS.driver: %s' % v.what, line=line, construct=v.node.src))
    missing = {'ux', 'Vregs', 'Xregs', 'px'} - seen
    if missing:
        raise AnalysisError('driver locals %s vanished' % sorted(missing))
    res.nontrivial += 1
    res.extra['galilean_driver_sites'] = sh.checked


# ---------------------------------------------------------------------------
# R9.3 rotation / translation typing

INV, VEC, PT, VECS, PTS = 'Inv', 'Vec', 'Pt', 'Vec[]', 'Pt[]'
VV, VVS = 'Vec*Vec', 'Vec*Vec[]'      # component-wise product of two vectors: only its sum over the components is invariant


class RotEval:
    def __init__(self, translation, attr_types):
        self.translation = translation      # True: full affine group (Pt and Vec differ)
        self.attr_types = attr_types        # param name -> type
        self.memo = {}
        self.violations = []
        self.checked = 0
        self.top = 0

    def pt(self, arr=False):
        if self.translation:
            return PTS if arr else PT
        return VECS if arr else VEC

    def viol(self, n, what):
        self.violations.append(Violation(n, what))

    def t(self, n):
        if n is None:
            return None
        if n.nid in self.memo:
            return self.memo[n.nid]
        self.memo[n.nid] = INV if n.kind == 'mu' else None
        r = self._t(n)
        self.memo[n.nid] = r
        return r

    def geom(self, x):
        return x in (VEC, PT, VECS, PTS, VV, VVS)

    def _t(self, n):
        k = n.kind
        if k in ('const', 'extfunc', 'index'):
            return INV
        if k == 'param':
            ty = self.attr_types.get(n.val, INV)
            if ty == 'Pt':
                return self.pt()
            if ty == 'Pt[]':
                return self.pt(True)
            return ty
        if k == 'input':
            return self.pt(True) if n.val == 'r' else INV
        if k == 'elem':
            a = self.t(n.args[0])
            return {VECS: VEC, PTS: PT}.get(a, a)
        if k == 'sub':
            a = self.t(n.args[0])
            self.t(n.args[1])
            if a in (VECS, PTS):
                idx = n.args[1]
                row = idx.kind in ('const', 'index') or (idx.kind == 'tuple' and len(idx.args) == 1)
                if row:
                    return VEC if a == VECS else PT
                if idx.kind == 'slice':
                    return a
                self.checked += 1
                self.viol(n, 'component access on an array of points/vectors')
                return None
            if a in (VEC, PT):
                self.checked += 1
                self.viol(n, 'component access on a %s (not invariant under rotation)' % a)
                return None
            return a
        if k == 'binop':
            a, b = self.t(n.args[0]), self.t(n.args[1])
            op = n.val
            if a is None or b is None:
                self.top += 1
                return None
            if not self.geom(a) and not self.geom(b):
                return INV
            self.checked += 1
            if op == '-':
                if a in (PT, PTS) and b in (PT, PTS):
                    return VECS if PTS in (a, b) else VEC
                if a in (VEC, VECS) and b in (VEC, VECS):
                    return VECS if VECS in (a, b) else VEC
                if a in (PT, PTS) and b in (VEC, VECS):
                    return a
            if op == '+':
                if a in (VEC, VECS) and b in (VEC, VECS):
                    return VECS if VECS in (a, b) else VEC
                if (a in (PT, PTS) and b in (VEC, VECS)) or (b in (PT, PTS) and a in (VEC, VECS)):
                    return PTS if PTS in (a, b) else PT
            if op in ('*',) and ((a == INV and b in (VEC, VECS)) or (b == INV and a in (VEC, VECS))):
                return b if a == INV else a
            if op == '*' and a in (VEC, VECS) and b in (VEC, VECS):
                return VVS if VECS in (a, b) else VV        # dot product in two steps: sum(u * v)
            if op == '**' and a in (VEC, VECS) and n.args[1].kind == 'const' and n.args[1].val in (2, 2.0):
                return VVS if a == VECS else VV
            if op in ('*', '/') and b == INV and a in (VV, VVS):
                return a
            if op == '*' and a == INV and b in (VV, VVS):
                return b
            if op in ('+', '-') and a in (VV, VVS) and b in (VV, VVS):
                return VVS if VVS in (a, b) else VV
            if op == '/' and b == INV and a in (VEC, VECS):
                return a
            self.viol(n, 'operation %s %s %s is not equivariant' % (a, op, b))
            return None
        if k == 'unop':
            a = self.t(n.args[0])
            if n.val == '-' and a in (VEC, VECS):
                return a
            if self.geom(a):
                self.checked += 1
                self.viol(n, 'operation %s on a %s' % (n.val, a))
                return None
            return a
        if k in ('cmp', 'bool'):
            for x in n.args:
                a = self.t(x)
                if self.geom(a):
                    self.checked += 1
                    self.viol(n, 'comparison involving a %s' % a)
            return INV
        if k == 'phi':
            self.t(n.args[0])
            a, b = self.t(n.args[1]), self.t(n.args[2])
            if a is None or n.args[1].kind == 'undef':
                return b
            if b is None or n.args[2].kind == 'undef':
                return a
            if a != b:
                self.checked += 1
                self.viol(n, 'branches of different symmetry type (%s / %s)' % (a, b))
                return None
            return a
        if k == 'mu':
            a = self.t(n.args[0])
            self.memo[n.nid] = a
            if n.args[1] is not None and n.args[1] is not n:
                b = self.t(n.args[1])
                if a is not None and b is not None and a != b:
                    self.viol(n, 'loop-carried value changes symmetry type (%s / %s)' % (a, b))
            return a
        if k == 'store':
            a = self.t(n.args[0])
            self.t(n.args[1])
            v = self.t(n.args[2])
            if self.geom(v) and a == INV:
                self.checked += 1
                self.viol(n, 'a %s is stored into an array of invariants' % v)
                return None
            return a if a is not None else v
        if k == 'call':
            name = n.val
            ts = [self.t(a) for a in n.args]
            for kw in n.kw.values():
                self.t(kw)
            if name in ('numpy.dot', 'numpy.inner', 'numpy.vdot') and len(ts) == 2:
                self.checked += 1
                if ts[0] == VEC and ts[1] == VEC:
                    return INV
                if not self.geom(ts[0]) and not self.geom(ts[1]):
                    return INV
                self.viol(n, 'dot(%s, %s) is not invariant under the symmetry group' % (ts[0], ts[1]))
                return None
            if name in ('numpy.linalg.norm',) and ts:
                self.checked += 1
                if ts[0] == VEC:
                    return INV
                if ts[0] == VECS and 'axis' in n.kw:
                    return INV
                if not self.geom(ts[0]):
                    return INV
                self.viol(n, 'norm(%s) is not invariant under the symmetry group' % ts[0])
                return None
            if name in ('numpy.sum', 'builtins.sum', 'math.fsum', 'numpy.add.reduce') and ts and ts[0] in (VV, VVS):
                self.checked += 1
                ax = n.kw.get('axis') or (n.args[1] if len(n.args) > 1 else None)
                if ts[0] == VV and ax is None:
                    return INV                      # sum over the components of u * v
                if ts[0] == VVS and ax is not None and ax.kind == 'const' and ax.val in (1, -1):
                    return INV                      # row-wise dot products
                self.viol(n, 'sum of a component-wise product of vectors over the wrong axis')
                return None
            if name in ('numpy.square',) and ts and ts[0] in (VEC, VECS):
                return VVS if ts[0] == VECS else VV
            if name in ('numpy.einsum',) and len(ts) == 3 and n.args[0].kind == 'const' and \
                    n.args[0].val.replace(' ', '') in ('ij,ij->i', 'i,i->', 'i,i') and ts[1] in (VEC, VECS) and ts[2] in (VEC, VECS):
                self.checked += 1
                return INV
            if name in ('numpy.array', 'numpy.asarray', 'numpy.copy') and ts:
                return ts[0]
            if name in ('numpy.zeros', 'numpy.empty', 'numpy.ones', 'builtins.len', 'builtins.range'):
                return INV
            if any(self.geom(x) for x in ts):
                self.checked += 1
                self.viol(n, '%s applied to a %s is not equivariant' % (name.split('.')[-1],
                                                                       [x for x in ts if self.geom(x)][0]))
                return None
            if any(x is None for x in ts):
                self.top += 1
                return None
            return INV
        if k in ('tuple', 'list'):
            ts = [self.t(a) for a in n.args]
            if any(self.geom(x) for x in ts):
                return None
            return INV
        if k == 'attr':
            a = self.t(n.args[0])
            if n.val in ('shape', 'size', 'ndim'):
                return INV
            if self.geom(a):
                return a if n.val in ('T',) else None
            return a
        if k == 'mcall':
            a = self.t(n.args[0])
            for x in n.args[1:]:
                self.t(x)
            if self.geom(a):
                self.checked += 1
                self.viol(n, 'method %s() on a %s is not equivariant' % (n.val, a))
                return None
            return a
        self.top += 1
        return None


ROT_SPEC = {
    'exactpack.solvers.kenamond.kenamond1:Kenamond1': {'translation': True, 'attrs': {'x_d': 'Pt'}},
    'exactpack.solvers.kenamond.kenamond2:Kenamond2': {'translation': False, 'attrs': {'dets': 'Vec[]'}},
    'exactpack.solvers.kenamond.kenamond3:Kenamond3': {'translation': False, 'attrs': {'x_d': 'Vec'}},
    'exactpack.solvers.dsd.cylexpansion:CylindricalExpansion': {'translation': False, 'attrs': {}},
}


def rotations(model, res):
    for cname, opts in ROT_SPEC.items():
        cls = model.get_class(cname)
        b = Builder(model)
        objn, ret = b.run_solver(cls)
        # attributes typed by the spec are read from the constructed object: type the heap values
        rt = RotEval(opts['translation'], opts['attrs'])
        h = b.heap.get(objn.val.oid, {})
        for nm, ty in opts['attrs'].items():
            if nm not in (model.parameters_keys(cls) or []):
                raise AnalysisError('attribute %s is no longer a parameter of %s' % (nm, cname))
            v = h.get(nm)
            if v is not None:
                for leaf in phi_leaves(v):
                    rt.memo[leaf.nid] = {'Pt': rt.pt(), 'Pt[]': rt.pt(True)}.get(ty, ty)
                rt.memo[v.nid] = {'Pt': rt.pt(), 'Pt[]': rt.pt(True)}.get(ty, ty)
        found = 0
        for sol in phi_leaves(ret):
            if not (sol.kind == 'call' and sol.val == 'exactpack.base.ExactSolution'):
                continue
            data = sol.args[0]
            names = sol.args[1] if len(sol.args) > 1 else sol.kw.get('names')
            for a, d in zip(names.args, data.args):
                if a.val == 'burntime':
                    found += 1
                    res.obligations += 1
                    res.evaluations += 1
                    ty = rt.t(d)
                    runm = cls.find_method('_run')
                    if ty is None and not rt.violations:
                        raise AnalysisError('symmetry type of burntime in %s did not resolve' % cname)
                    if ty is not None and ty != INV:
                        res.add(Finding(PROP, 'C09.equivariance', runm.module.relpath, runm.qualname,
                                        '%s: burntime has type %s' % (cls.name, ty),
                                        '%s: the burn time is not an invariant (%s)' % (cls.name, ty),
                                        line=runm.node.lineno, construct='burntime'))
                    elif not rt.violations:
                        res.discharged += 1
        if not found:
            raise AnalysisError('no burntime field found in %s' % cname)
        for v in rt.violations:
            f2, q2, line = v.node.where
            res.add(Finding(PROP, 'C09.equivariance', f2, q2, '%s: %s' % (cls.name, v.what),
                            '%s: the burn time uses coordinates in a way that is not invariant under %s: %s'
                            % (cls.name, 'rotations, reflections and translations' if opts['translation'] else
                               'rotations/reflections about the symmetry axis', v.what), line=line, construct=v.node.src))
        res.nontrivial += 1
        res.analysed.append(cname + ' (symmetry types, %d sites)' % rt.checked)
        res.sample({'rule': 'C09.equivariance', 'class': cname, 'sites_checked': rt.checked, 'unresolved': rt.top}, limit=30)


def check(model, res, tier):
    n = galilean(model, res)
    rotations(model, res)
    res.extra['galilean_functions'] = n
