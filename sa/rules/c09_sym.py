def check(model, res, tier):
    res.notes.append('symmetry typing (R9.2, R9.3) not yet built')
