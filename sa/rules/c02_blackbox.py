"""C02 clause for the black-box Noh solver: the fields `_run` returns on either side of the shock are the two
states the jump conditions are solved for.

`NohBlackBoxEos` hands `initial_conditions` to a residual object whose root (Newton) is the shocked state; that
F(x) = 0 IS the three jump conditions between x and the undisturbed Noh state built from the residual object's
(rho_0, u_0, P_0, symmetry) at r = D t is decided by c02.blackbox_sites.  The jump between the *returned* fields
satisfies them only if `_run`

  * returns ahead of the shock exactly that undisturbed state -- density rho_0 (1 - u_0 t / r)**symmetry, velocity
    u_0, pressure P_0, specific internal energy the residual object's e_0 -- with rho_0, u_0, P_0, symmetry THE values
    the residual object holds (not a second copy with its own default),
  * returns behind it the components of the Newton solution in the order the residual function unpacks them
    (density, second thermodynamic unknown, shock speed), the other thermodynamic variable through the EOS closure
    of those two, velocity 0,
  * and switches between them at r = D t with D the third component.

Decided on the value graph of constructor + `_run` with a symbolic EOS object and a symbolic initial-conditions
mapping (so the identities hold for every mapping the constructor accepts).
"""
from ..model import AnalysisError, src_of
from ..report import Finding
from ..vg import Builder, Frame, Closure
from ..nf import NFEval, NAN, PW, Struct

PROP = 'C02'
RULE = 'C02.returned-states'
CLS = 'exactpack.solvers.nohblackboxeos.blackboxnoh:NohBlackBoxEos'
FIELDS = ('density', 'pressure', 'specific_internal_energy', 'velocity')


def _names_kw(call):
    names = call.kw.get('names')
    if names is None or names.kind not in ('list', 'tuple') or not all(a.kind == 'const' for a in names.args):
        raise AnalysisError('NohBlackBoxEos._run: field names of the returned solution are not literal')
    return [a.val for a in names.args]


IC_KEYS = ('density', 'velocity', 'pressure', 'symmetry')


class Scenario:
    """One way of calling the constructor: which of the solver's parameters are given explicitly.  Tests `'<name>' in kwargs`
    are decided, dictionary copies / stores / lookups with literal keys are resolved, so that every attribute is a plain
    expression in the parameters and in the four entries of the initial-conditions mapping."""

    def __init__(self, b, keys, given):
        self.b, self.keys, self.given, self.memo = b, set(keys), set(given), {}

    def __call__(self, n):
        if n is None:
            return None
        if n.nid in self.memo:
            return self.memo[n.nid]
        self.memo[n.nid] = n            # cycles (loop-carried values) resolve to themselves
        r = self._res(n)
        self.memo[n.nid] = r
        return r

    def truth(self, c, depth=0):
        """Truth of a test built from `'<parameter>' in kwargs` (None: something else)."""
        if c is None or depth > 6:
            return None
        if c.kind == 'cmp' and c.val in ('in', 'not in') and len(c.args) == 2 and c.args[0].kind == 'const' \
                and c.args[0].val in self.keys:
            return (c.args[0].val in self.given) == (c.val == 'in')
        if c.kind == 'unop' and c.val == 'not' and c.args:
            t = self.truth(c.args[0], depth + 1)
            return None if t is None else not t
        if c.kind == 'bool' and c.args:
            ts = [self.truth(a, depth + 1) for a in c.args]
            if c.val == 'and':
                return False if any(t is False for t in ts) else (True if all(t is True for t in ts) else None)
            if c.val == 'or':
                return True if any(t is True for t in ts) else (False if all(t is False for t in ts) else None)
        if c.kind == 'mcall' and c.val in ('__contains__', 'has_key') and len(c.args) == 2 and c.args[1].kind == 'const' \
                and c.args[1].val in self.keys:
            return c.args[1].val in self.given
        return None

    def _res(self, n):
        b = self.b
        if n.kind == 'phi' and len(n.args) == 3:
            t = self.truth(n.args[0])
            if t is not None:
                return self(n.args[1] if t else n.args[2])
        if n.kind == 'sub' and len(n.args) == 2 and n.args[1].kind == 'const':
            base, k = self(n.args[0]), n.args[1].val
            for _ in range(40):
                if base.kind == 'store' and base.args[1].kind == 'const':
                    if base.args[1].val == k:
                        return self(base.args[2])
                    base = self(base.args[0])
                    continue
                if base.kind == 'call' and base.val in ('builtins.dict', 'copy.copy', 'copy.deepcopy') and len(base.args) == 1:
                    base = self(base.args[0])
                    continue
                if base.kind == 'mcall' and base.val == 'copy' and base.args:
                    base = self(base.args[0])
                    continue
                if base.kind == 'dict' and k in list(base.val):
                    return self(base.args[list(base.val).index(k)])
                break
            return b.mk('sub', args=[base, n.args[1]])
        if n.kind in ('param', 'const', 'input', 'obj', 'closure', 'kwargs') or not n.args and not n.kw:
            return n
        args = [self(a) for a in n.args]
        kw = {k: self(v) for k, v in n.kw.items()} if n.kw else None
        if all(a is o for a, o in zip(args, n.args)) and (not n.kw or all(kw[k] is n.kw[k] for k in kw)):
            return n
        m = b.mk(n.kind, n.val, args, kw)
        m.origin = n.origin
        return m


def fields(model, res, prop=PROP, rule=RULE):
    cls = model.get_class(CLS)
    names = [k for k in (model.parameters_keys(cls) or []) if k in ('rho0', 'u0', 'geometry')]
    import itertools
    scenarios = [g for r in range(len(names) + 1) for g in itertools.combinations(names, r)]
    if len(scenarios) < 2:
        raise AnalysisError('NohBlackBoxEos no longer documents rho0 / u0 / geometry as parameters')
    for given in scenarios:
        _fields_for(model, res, cls, given, prop, rule)


def _fields_for(model, res, cls, given, prop, rule):
    runm = cls.find_method('_run')
    if runm is None:
        raise AnalysisError('NohBlackBoxEos._run vanished')
    b = Builder(model)
    b.frame = Frame(None, cls.module, {}, None)
    eos = b.mk('input', 'eos')
    ic = b.mk('dict', list(IC_KEYS), [b.mk('param', 'ic:' + k) for k in IC_KEYS])
    objn = b.instantiate(cls, args=[eos, ic], symbolic=True, kw={k: b.mk('param', k) for k in given})
    sc = Scenario(b, model.parameters_keys(cls) or [], given)
    tag = 'explicit: %s' % (', '.join(given) or 'none')
    h = b.heap[objn.val.oid]
    rfs = [v for k, v in h.items() if v is not None and v.kind == 'obj' and getattr(v.val, 'cls', None) is not None
           and v.val.cls.find_method('F') is not None and v.val.cls.find_method('F_prime') is not None]
    if len(rfs) != 1:
        raise AnalysisError('NohBlackBoxEos.__init__: expected one residual-function object, found %d' % len(rfs))
    rf = rfs[0]
    rcls = rf.val.cls
    rh = b.heap[rf.val.oid]
    for k in ('rho_0', 'u_0', 'P_0', 'symmetry', 'e_0'):
        if k not in rh:
            raise AnalysisError('%s no longer stores %s' % (rcls.name, k))
    r, t = b.make_input('r'), b.make_input('t')
    b.frame = Frame(None, cls.module, {}, None)
    out = b.call_closure(Closure(runm, runm.node, None, self_node=objn, cls=runm.cls, module=runm.module), [r, t], {}, runm.node)
    if out.kind != 'call' or not out.args or out.args[0].kind != 'list':
        raise AnalysisError('NohBlackBoxEos._run: unexpected return shape')
    names = _names_kw(out)
    arrs = out.args[0].args
    if len(names) != len(arrs):
        raise AnalysisError('NohBlackBoxEos._run: names and arrays differ in number')
    byname = dict(zip(names, arrs))
    missing = [f for f in FIELDS if f not in byname]
    if missing:
        raise AnalysisError('NohBlackBoxEos._run: fields %s not returned' % missing)
    rh = b.heap[rf.val.oid]
    ev = NFEval(list(model.parameters_keys(cls) or []))

    def key(n):
        v = ev.nf(sc(n))
        if v is NAN or isinstance(v, (PW, Struct)):
            return None, v
        return v.key(), v

    def same(a, c):
        ka, va = key(a)
        kc, vc = key(c)
        if ka is None or kc is None:
            return False
        return ka == kc or ev.is_zero(ev.add(va, vc, -1))

    # second unknown of the residual function: e (closure P(rho, e)) or P (closure e(rho, P))
    fm = rcls.find_method('F')
    xs = [b.mk('param', 'x%d' % i) for i in range(3)]
    bb = Builder(model)
    bb.frame = Frame(None, rcls.module, {}, None)
    rinst = bb.symbolic_obj(rcls, ['u_0', 'rho_0', 'P_0', 'symmetry', 'e_0'], {'equation_of_state': bb.mk('input', 'eos')})
    st = bb.mk('tuple', args=[bb.mk('param', 'x%d' % i) for i in range(3)])
    bb.frame = Frame(None, rcls.module, {}, None)
    fo = bb.call_closure(Closure(fm, fm.node, None, self_node=rinst, cls=rcls, module=rcls.module), [st], {}, fm.node)
    closures = set()
    evr = NFEval(['x0', 'x1', 'x2'])
    for i in range(3):
        k = evr.nf(bb.mk('sub', args=[fo, bb.const(i)])).key()
        for m in ('m:P(', 'm:e('):
            if m in k and 'param:x1' in k.split(m, 1)[1].split(')', 1)[0] + k:
                closures.add(m[2])
    if len(closures) != 1:
        raise AnalysisError('%s.F: cannot tell which EOS closure closes the system (%s)' % (rcls.name, sorted(closures)))
    second = 'specific_internal_energy' if closures == {'P'} else 'pressure'     # unknown no. 1 of the Newton solution
    closed = 'pressure' if second == 'specific_internal_energy' else 'specific_internal_energy'
    method = 'P' if closed == 'pressure' else 'e'

    where = {}
    for f in FIELDS:
        a = byname[f]
        if a.kind != 'call' or a.val != 'numpy.where' or len(a.args) != 3:
            raise AnalysisError("NohBlackBoxEos._run: field '%s' is not a numpy.where of the two states" % f)
        where[f] = [sc(x) for x in a.args]

    def ob(ok, detail, msg, at=None, sample=None):
        res.obligations += 1
        res.evaluations += 1
        res.nontrivial += 1
        if ok:
            res.discharged += 1
            res.sample({'rule': rule, 'site': 'black-box Noh returned states (%s)' % tag, 'identity': sample or detail}, limit=60)
        else:
            o = at.origin[1] if at is not None and at.origin else None
            res.add(Finding(prop, rule, runm.module.relpath, runm.qualname, '%s [%s]' % (detail, tag), msg + ' [constructor called with %s]' % tag,
                            line=getattr(o, 'lineno', runm.node.lineno), construct=src_of(o)[:120] if o is not None else 'def _run'))

    # -- a parameter given explicitly is the value the solver uses
    for nm in given:
        v = sc(h.get(nm))
        ob(v is not None and v.kind == 'param' and v.val == nm, "explicit parameter '%s' is the value used" % nm,
           "NohBlackBoxEos.__init__: the documented parameter %s, given explicitly, is not the value the solver ends up with (it is "
           "`%s`): the keyword is accepted and silently ignored" % (nm, (key(h.get(nm))[0] or '?')[:60]))
    # -- ahead of the shock
    one = b.const(1)
    base = b.mk('binop', '-', [one, b.mk('binop', '*', [rh['u_0'], b.mk('binop', '/', [t, r])])])
    expect = {
        'density': b.mk('binop', '*', [rh['rho_0'], b.mk('binop', '**', [base, rh['symmetry']])]),
        'velocity': rh['u_0'],
        'pressure': rh['P_0'],
        'specific_internal_energy': rh['e_0'],
    }
    text = {'density': 'rho_0 (1 - u_0 t/r)**symmetry', 'velocity': 'u_0', 'pressure': 'P_0',
            'specific_internal_energy': 'e_0 = eos.e(rho_0, P_0)'}
    for f in FIELDS:
        got = where[f][2]
        ok = same(got, expect[f])
        ob(ok, "ahead of the shock: '%s'" % f,
           "NohBlackBoxEos._run returns ahead of the shock %s = `%s`, which is not %s of the initial conditions the jump "
           "conditions are solved for (the %s object holds them as %s): whenever the two differ -- e.g. "
           "initial_conditions given without repeating them as rho0 / u0, or any non-zero initial pressure -- the states "
           "returned on the two sides of the shock do not satisfy the jump conditions"
           % (f, src_of(got.origin[1])[:70] if got.origin and got.origin[1] is not None else '?', text[f], rcls.name,
              ', '.join('%s = %s' % (k, (key(rh[k])[0] or '?')[:40]) for k in ('rho_0', 'u_0', 'P_0'))),
           at=byname[f], sample="pre-shock '%s' == %s of the residual object" % (f, text[f]))

    # -- behind the shock: components of one Newton solution, in the residual function's order
    kd, _ = key(where['density'][1])
    k2, _ = key(where[second][1])
    sol = None
    if kd and kd.startswith('1*sub(') and kd.endswith(',0)^(1)'):
        sol = kd[len('1*sub('):-len(',0)^(1)')]
    ob(sol is not None, 'behind the shock: density is component 0',
       "NohBlackBoxEos._run: the density behind the shock is not component 0 of the Newton solution (the residual function "
       "%s.F unpacks its unknowns as density, %s, shock speed)" % (rcls.name, 'energy' if method == 'P' else 'pressure'),
       at=byname['density'])
    ob(sol is not None and k2 == '1*sub(%s,1)^(1)' % sol, "behind the shock: '%s' is component 1" % second,
       "NohBlackBoxEos._run: '%s' behind the shock is not component 1 of the same Newton solution the density is taken from"
       % second, at=byname[second])
    post_closed = where[closed][1]
    okc = post_closed.kind == 'mcall' and post_closed.val == method and len(post_closed.args) == 3 \
        and same(post_closed.args[0], rh['equation_of_state']) \
        and same(post_closed.args[1], where['density'][1]) and same(post_closed.args[2], where[second][1])
    ob(okc, "behind the shock: '%s' through the EOS" % closed,
       "NohBlackBoxEos._run: '%s' behind the shock is not eos.%s(shocked density, shocked %s) with the EOS object the "
       "residual function uses" % (closed, method, 'energy' if method == 'P' else 'pressure'), at=byname[closed])
    kv, vv = key(where['velocity'][1])
    ob(kv is not None and ev.is_zero(vv), 'behind the shock: velocity 0',
       "NohBlackBoxEos._run: the velocity behind the shock is not 0 (the jump conditions are solved for gas at rest)",
       at=byname['velocity'])
    # -- the switch is at r = D t
    conds = {f: where[f][0] for f in FIELDS}
    okp = True
    for f, c in conds.items():
        if c.kind != 'cmp' or len(c.args) != 2:
            okp = False
            continue
        l, rr = c.args
        if c.val in ('>', '>='):
            l, rr = rr, l
        elif c.val not in ('<', '<='):
            okp = False
            continue
        kl, _ = key(l)
        kr, vr = key(rr)
        kt, vt = key(t)
        want = None if sol is None else ev.mul(ev.nf(sc(b.mk('sub', args=[_find_solution(where['density'][1]), b.const(2)]))), vt)
        if kl != key(r)[0] or want is None or not ev.is_zero(ev.add(vr, want, -1)):
            okp = False
    ob(okp, 'shock position is D t', "NohBlackBoxEos._run: the two states are not switched at r = D t with D component 2 of "
       "the Newton solution (`r < shock_location` selecting the shocked state)", at=byname['density'])


def _find_solution(n):
    """X of sub(X, 0)."""
    if n.kind == 'sub':
        return n.args[0]
    raise AnalysisError('NohBlackBoxEos._run: shocked density is not a component of the Newton solution')


def geometry_link(model, res, prop='C07', rule='C07.blackbox-geometry'):
    """C07: "the general class with that geometry" -- whatever way the constructor is called, the symmetry exponent the
    jump conditions and the pre-shock profile use is the documented `geometry` parameter minus one."""
    import itertools
    cls = model.get_class(CLS)
    names = [k for k in (model.parameters_keys(cls) or []) if k in ('rho0', 'u0', 'geometry')]
    if 'geometry' not in names:
        raise AnalysisError('NohBlackBoxEos no longer documents geometry as a parameter')
    init = cls.find_method('__init__')
    for given in [g for r in range(len(names) + 1) for g in itertools.combinations(names, r)]:
        b = Builder(model)
        b.frame = Frame(None, cls.module, {}, None)
        eos = b.mk('input', 'eos')
        ic = b.mk('dict', list(IC_KEYS), [b.mk('param', 'ic:' + k) for k in IC_KEYS])
        objn = b.instantiate(cls, args=[eos, ic], symbolic=True, kw={k: b.mk('param', k) for k in given})
        sc = Scenario(b, model.parameters_keys(cls) or [], given)
        h = b.heap[objn.val.oid]
        rfs = [v for v in h.values() if v is not None and v.kind == 'obj' and getattr(v.val, 'cls', None) is not None
               and v.val.cls.find_method('F') is not None]
        if len(rfs) != 1 or 'symmetry' not in b.heap[rfs[0].val.oid]:
            raise AnalysisError('NohBlackBoxEos.__init__: residual-function object with a symmetry attribute not found')
        ev = NFEval(list(model.parameters_keys(cls) or []))
        lhs = ev.nf(sc(b.mk('binop', '+', [b.heap[rfs[0].val.oid]['symmetry'], b.const(1)])))
        rhs = ev.nf(sc(h.get('geometry')))
        lhs2 = ev.nf(sc(b.mk('binop', '+', [h.get('symmetry'), b.const(1)])))
        res.obligations += 1
        res.evaluations += 1
        res.nontrivial += 1
        ok = not any(x is NAN or isinstance(x, (PW, Struct)) for x in (lhs, rhs, lhs2)) \
            and ev.is_zero(ev.add(lhs, rhs, -1)) and ev.is_zero(ev.add(lhs2, rhs, -1))
        tag = ', '.join(given) or 'none'
        if ok:
            res.discharged += 1
            res.sample({'rule': rule, 'class': 'NohBlackBoxEos', 'explicit parameters': tag, 'identity': 'symmetry + 1 == geometry'}, limit=20)
        else:
            res.add(Finding(prop, rule, init.module.relpath, init.qualname, 'symmetry + 1 == geometry [explicit: %s]' % tag,
                            "NohBlackBoxEos.__init__ (constructor called with explicit %s): the symmetry exponent used by the jump "
                            "conditions and by the pre-shock density (%s) is not the documented parameter geometry minus one (%s): the general "
                            "class with geometry = g does not solve the same problem as the wrapper class of that geometry"
                            % (tag or 'no parameters', getattr(lhs, 'key', lambda: '?')()[:60], getattr(rhs, 'key', lambda: '?')()[:60]),
                            line=init.node.lineno, construct='def __init__'))
