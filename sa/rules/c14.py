"""C14 -- heat-conduction solutions: structural clauses (DESIGN 3, C14)."""
import ast
from fractions import Fraction

from ..model import AnalysisError, src_of
from ..report import Result, Finding
from ..vg import Builder, Frame, Closure, walk
from ..nf import NFEval, NAN
from ..dim import Lin, Seq, POLY, DimSystem, DimEval
from ..dimcheck import analyse_class, findings_from
from .c05 import phi_leaves
from .c20 import cond_sets

LEVEL = 'other'
PROP = 'C14'
H = 'exactpack.solvers.heat.'
UNITS = ('M', 'L', 'T', 'K', 'B')     # B: arbitrary scale of a boundary-condition equation alpha*T + beta*T' = gamma

ROD_PARAMS = {'alpha1': {'B': 1}, 'alpha2': {'B': 1}, 'beta1': {'B': 1, 'L': 1}, 'beta2': {'B': 1, 'L': 1},
              'gamma1': {'B': 1, 'K': 1}, 'gamma2': {'B': 1, 'K': 1}, 'TL': {'K': 1}, 'TR': {'K': 1}, 'L': {'L': 1},
              'kappa': {'L': 2, 'T': -1}, 'Nsum': '1'}
DIM_SPEC = {
    H + 'rod1d:Rod1D': {'points': {'L': 1}, 'params': ROD_PARAMS},
    H + 'planar_sandwich:PlanarSandwich': {'points': {'L': 1}, 'params': {'TL': {'K': 1}, 'TR': {'K': 1}, 'L': {'L': 1},
                                                                         'kappa': {'L': 2, 'T': -1}}},
    H + 'planar_sandwich_hot:PlanarSandwichHot': {'points': {'L': 1}, 'params': {'TL': {'K': 1}, 'TR': {'K': 1}, 'L': {'L': 1},
                                                                                'kappa': {'L': 2, 'T': -1}}},
    H + 'planar_sandwich_half:PlanarSandwichHalf': {'points': {'L': 1}, 'params': {'TL': {'K': 1}, 'TR': {'K': 1}, 'L': {'L': 1},
                                                                                  'kappa': {'L': 2, 'T': -1}}},
    H + 'rectangle:Rectangle': {'points': {'L': 1}, 'params': {'kappa': {'L': 2, 'T': -1}}},
    H + 'hutchens1:Hutchens1': {'points': {'L': 1}, 'params': {}},
    H + 'hutchens2:Hutchens2': {'points': {'L': 1}, 'params': {}},
    H + 'cylindrical_sandwich:CylindricalSandwich': {'points': [{'L': 1}, '1'], 'params': {'kappa': {'L': 2, 'T': -1}}},
}
OUT = {'temperature': {'K': 1}, 'position': {'L': 1}, 'position_x': {'L': 1}, 'position_y': {'L': 1},
       'position_r': {'L': 1}, 'position_z': {'L': 1}, 'radius': {'L': 1}}


def dims(model, res):
    for cname, spec in DIM_SPEC.items():
        cls = model.get_class(cname)
        b = Builder(model)
        objn, ret = b.run_solver(cls)
        keys = model.parameters_keys(cls) or []
        S = DimSystem(keys, units=UNITS)
        pts = spec['points']
        ind = {'r': Seq([S.from_spec(x) for x in pts]) if isinstance(pts, list) else S.from_spec(pts),
               't': S.from_spec({'T': 1})}
        pd = {k: S.from_spec(v) for k, v in spec['params'].items() if k in keys}
        ev = DimEval(S, input_dims=ind, param_dims=pd, output_dims={k: S.from_spec(v) for k, v in OUT.items()})
        ev.run(b.trace)
        findings_from(S, ev, PROP, 'C14.dim', res)
        anchored = [nm for nm, d, _ in ev.outputs if nm == 'temperature' and isinstance(d, Lin)]
        if not anchored:
            raise AnalysisError('temperature of %s did not resolve to a dimension' % cname)
        res.obligations += S.constraints
        res.discharged += S.constraints - len(S.inconsistencies)
        res.evaluations += S.constraints
        res.nontrivial += S.nontrivial + S.checked
        res.analysed.append(cname)


SERIES = [H + 'rod1d:Rod1D', H + 'rectangle:Rectangle', H + 'hutchens1:Hutchens1', H + 'hutchens2:Hutchens2',
          H + 'cylindrical_sandwich:CylindricalSandwich']


def mu_reach(node, mus, stop):
    """Loop-carried accumulators (other than `stop`) the value depends on."""
    hit = set()
    seen = set()
    stack = [node]
    while stack:
        n = stack.pop()
        if n is None or n.nid in seen:
            continue
        seen.add(n.nid)
        if n.kind == 'mu':
            if n is not stop and n.nid in mus:
                hit.add(n.nid)
            continue
        stack.extend(a for a in n.args if a is not None)
        stack.extend(n.kw.values())
    return hit


def accumulation(model, res):
    """Every loop-carried accumulator `acc = acc + X` adds a term X that does not
    itself contain another accumulator of the same loop (else partial sums are
    summed again)."""
    nloops = 0
    for cname in SERIES:
        cls = model.get_class(cname)
        b = Builder(model)
        b.run_solver(cls)
        runm = cls.find_method('_run')
        # loop-carried values of _run, grouped by loop
        loops = {}
        for n in b.trace:
            if n.kind == 'mu' and n.origin and n.origin[0] is runm and n.args[1] is not None:
                loops.setdefault(id(n.origin[1]), []).append(n)

        def addends(x, out):
            if x.kind == 'binop' and x.val == '+':
                addends(x.args[0], out)
                addends(x.args[1], out)
            else:
                out.append(x)
            return out
        for loop, mus in loops.items():
            ids = {m.nid for m in mus}
            counted = False
            for n in mus:
                parts = addends(n.args[1], [])
                if not any(p is n for p in parts):
                    continue            # not of the form acc = acc + ...
                if not counted:
                    nloops += 1
                    counted = True
                res.obligations += 1
                res.evaluations += 1
                res.nontrivial += 1
                inner = set()
                for p in parts:
                    if p is n:
                        continue
                    for m2 in walk(p):
                        if m2.kind == 'mu' and m2.nid in ids and m2 is not n:
                            inner.add(m2.nid)
                if inner:
                    res.add(Finding(PROP, 'C14.accumulate', runm.module.relpath, runm.qualname,
                                    '%s: accumulator adds another running sum' % cls.name,
                                    "%s: inside the summation loop an accumulator is increased by a value that itself "
                                    "contains another loop-carried running sum (`sum += term; total += sum`): every partial "
                                    "sum is added again, so term n enters the result N-n+1 times" % cls.name,
                                    line=getattr(n.origin[1], 'lineno', 0), construct=n.args[1].src[:100]))
                else:
                    res.discharged += 1
    if nloops < 5:
        raise AnalysisError('only %d summation loops recognised (confirmed >= 5)' % nloops)
    res.extra['summation_loops'] = nloops


def singular_case(model, res):
    """where(r != 0, f, c): if f depends on t then c must (the limit of a time-dependent
    expression is not a constant for generic parameters)."""
    nsites = 0
    for cname in SERIES:
        cls = model.get_class(cname)
        b = Builder(model)
        objn, ret = b.run_solver(cls)
        tn = [n for n in b.trace if n.kind == 'input' and n.val == 't'][0]
        rn = [n for n in b.trace if n.kind == 'input' and n.val == 'r'][0]
        runm = cls.find_method('_run')
        fields = []
        for sol in phi_leaves(ret):
            if sol.kind == 'call' and sol.val == 'exactpack.base.ExactSolution':
                fields += [d for a, d in zip(sol.args[1].args if len(sol.args) > 1 else sol.kw['names'].args, sol.args[0].args)
                           if a.val == 'temperature']
        reach = set()
        for f in fields:
            reach |= {n.nid for n in walk(f)}
        for n in b.trace:
            if n.kind == 'call' and n.val == 'numpy.where' and len(n.args) == 3 and n.nid in reach:
                c = n.args[0]
                if c.kind == 'cmp' and c.val in ('!=', '==') and any(a.kind == 'const' and a.val == 0 for a in c.args) \
                        and any(any(m is rn for m in walk(a)) for a in c.args):
                    regular, special = (n.args[1], n.args[2]) if c.val == '!=' else (n.args[2], n.args[1])
                    nsites += 1
                    res.obligations += 1
                    res.evaluations += 1
                    res.nontrivial += 1
                    f_t = any(m is tn for m in walk(regular))
                    c_t = any(m is tn for m in walk(special))
                    if f_t and not c_t:
                        res.add(Finding(PROP, 'C14.singular-case', runm.module.relpath, runm.qualname,
                                        '%s: value at the coordinate singularity is time-independent' % cls.name,
                                        "%s: `%s` replaces the series at r = 0 by `%s`, which does not depend on t although "
                                        "the regular expression does: the value returned at the coordinate singularity is not "
                                        "the limit of nearby values for t > 0" % (cls.name, n.src[:80], special.src[:40]),
                                        line=getattr(n.origin[1], 'lineno', 0), construct=n.src[:100]))
                    else:
                        res.discharged += 1
    res.extra['singular_point_sites'] = nsites
    if nsites < 1:
        raise AnalysisError('no where(r != 0, ...) special case found (confirmed: Hutchens1)')


def dispatch_agreement(model, res):
    """Rod1D.__init__ and Rod1D._run choose the boundary-condition case by the same partition."""
    cls = model.get_class(H + 'rod1d:Rod1D')

    def chain(fn):
        for st in fn.node.body:
            if isinstance(st, ast.If):
                tests = []
                cur = st
                while True:
                    tests.append(cur.test)
                    if len(cur.orelse) == 1 and isinstance(cur.orelse[0], ast.If):
                        cur = cur.orelse[0]
                    else:
                        break
                if len(tests) >= 3:
                    return tests
        return None
    a, b = chain(cls.methods['__init__']), chain(cls.methods['_run'])
    if a is None or b is None:
        raise AnalysisError('boundary-condition dispatch chain vanished from Rod1D.__init__ / _run')
    res.obligations += 1
    res.evaluations += 1
    res.nontrivial += 1

    def norm(t):
        s = cond_sets(t, 'self')
        if s is None:
            return src_of(t)
        return sorted(sorted((k, repr(v)) for k, v in d.items()) for d in s)
    na, nb = [norm(t) for t in a], [norm(t) for t in b]
    if na == nb:
        res.discharged += 1
        res.sample({'rule': 'C14.dispatch-agree', 'cases': len(na), 'first': str(na[0])[:120]})
    else:
        i = next((k for k in range(min(len(na), len(nb))) if na[k] != nb[k]), min(len(na), len(nb)))
        fn = cls.methods['_run']
        res.add(Finding(PROP, 'C14.dispatch-agree', fn.module.relpath, 'Rod1D', 'case %d of the BC dispatch differs' % (i + 1),
                        "Rod1D.__init__ (mode numbers and coefficients) and Rod1D._run (static part) select the boundary-"
                        "condition case with different tests (case %d): a parameter set can get the coefficients of one "
                        "case and the static solution of another" % (i + 1), line=fn.node.lineno,
                        construct=src_of(b[i])[:100] if i < len(b) else 'dispatch'))


def ic_static_link(model, res):
    """Rod1D, special cases BC1-BC4: the series coefficients are built for the initial profile MINUS
    the static (non-homogeneous) part that _run adds back: in modes_BCk,  Ta = TL - static(x=0)  and
    Tb = TR - static(x=L)  with static(x) the expression _run assigns to tempnonhom in the same case.
    Otherwise the solution does not tend to the declared initial profile as t -> 0+."""
    cls = model.get_class(H + 'rod1d:Rod1D')
    init, runm = cls.methods['__init__'], cls.methods['_run']

    def chain(fn):
        for st in fn.node.body:
            if isinstance(st, ast.If):
                out, cur = [], st
                while True:
                    out.append(cur)
                    if len(cur.orelse) == 1 and isinstance(cur.orelse[0], ast.If):
                        cur = cur.orelse[0]
                    else:
                        break
                if len(out) >= 3:
                    return out
        return None
    ci, cr = chain(init), chain(runm)
    if ci is None or cr is None or len(ci) != len(cr):
        raise AnalysisError('boundary-condition dispatch chains vanished / differ in length')
    b = Builder(model)
    objn, ret = b.run_solver(cls)
    root = [n for n in b.trace if n.kind == 'input' and n.val == 'r'][0]
    keys = model.parameters_keys(cls) or []
    assigns = {}
    for func, tnode, vnode in b.assign_log:
        assigns[id(tnode)] = vnode
    checked = 0
    for k, (bi, br) in enumerate(zip(ci, cr)):
        # the modes function this case calls
        callee = None
        for st in bi.body:
            if isinstance(st, ast.Expr) and isinstance(st.value, ast.Call) and isinstance(st.value.func, ast.Attribute):
                callee = cls.methods.get(st.value.func.attr)
        if callee is None:
            continue
        tn = None
        for st in br.body:
            if isinstance(st, ast.Assign) and len(st.targets) == 1 and isinstance(st.targets[0], ast.Name) \
                    and st.targets[0].id == 'tempnonhom':
                tn = st.targets[0]
        ta = tb = None
        for st in ast.walk(callee.node):
            if isinstance(st, ast.Assign) and len(st.targets) == 1 and isinstance(st.targets[0], ast.Name):
                if st.targets[0].id == 'Ta':
                    ta = st.targets[0]
                if st.targets[0].id == 'Tb':
                    tb = st.targets[0]
        if tn is None or ta is None or tb is None:
            continue
        static = assigns.get(id(tn))
        if static is None or id(ta) not in assigns or id(tb) not in assigns:
            raise AnalysisError('Rod1D case %d: Ta / Tb / tempnonhom not found in the value graph' % (k + 1))
        for label, tnode, end, par in (('Ta', ta, 'x = 0', None), ('Tb', tb, 'x = L', 'L')):
            ev = NFEval(keys)
            ev.memo[root.nid] = ev.num(0) if par is None else ev.atom('param:%s' % par)
            want = ev.add(ev.atom('param:TL' if label == 'Ta' else 'param:TR'), ev.nf(static), -1)
            got = ev.nf(assigns[id(tnode)])
            res.obligations += 1
            res.evaluations += 1
            res.nontrivial += 1
            checked += 1
            if got is not NAN and want is not NAN and ev.equal(got, want):
                res.discharged += 1
                res.sample({'rule': 'C14.ic-static-link', 'case': callee.name, 'identity': '%s == %s - static(%s)'
                            % (label, 'TL' if label == 'Ta' else 'TR', end), 'normal_form': got.key()[:120]}, limit=30)
            else:
                res.add(Finding(PROP, 'C14.ic-static-link', callee.module.relpath, callee.qualname,
                                '%s: %s is not the initial end value minus the static part at %s' % (callee.name, label, end),
                                "Rod1D.%s builds its Fourier coefficients from %s = %s, but the static part that _run adds "
                                "back in the same case is %s at %s, so %s must be %s: the series is expanded for the wrong "
                                "initial profile and the solution does not tend to the declared initial data as t -> 0+"
                                % (callee.name, label, got.key()[:120] if got is not NAN else 'NaN', ev.nf(static).key()[:100],
                                   end, label, want.key()[:120]), line=tnode.lineno, construct='%s = ...' % label))
    if checked < 8:
        raise AnalysisError('only %d initial-profile / static-part links recognised in Rod1D (confirmed: 8)' % checked)


def sibling_norm(model, res):
    """CylindricalSandwich: the in-line normalisation Anm of _run has the normal form of Anm_analytic."""
    cls = model.get_class(H + 'cylindrical_sandwich:CylindricalSandwich')
    runm = cls.methods.get('_run')
    ana = cls.methods.get('Anm_analytic')
    if runm is None or ana is None:
        raise AnalysisError('CylindricalSandwich._run / Anm_analytic vanished')
    b = Builder(model)
    objn, ret = b.run_solver(cls)
    loc = {}
    for func, tnode, vnode in b.assign_log:
        if func is runm and tnode.id in ('Anm', 'k', 'm', 'alphanm', 'betanm'):
            loc[tnode.id] = vnode
    if set(loc) != {'Anm', 'k', 'm', 'alphanm', 'betanm'}:
        raise AnalysisError('locals of the in-line normalisation vanished: have %s' % sorted(loc))
    h = b.heap[objn.val.oid]
    b.frame = Frame(None, cls.module, {}, None)
    a_n = b.get_attr(objn, 'a')
    b_n = b.get_attr(objn, 'b')
    clo = Closure(ana, ana.node, None, self_node=objn, cls=cls, module=cls.module)
    want_n = b.call_closure(clo, [a_n, b_n, loc['k'], loc['m'], loc['alphanm'], loc['betanm']], {}, ana.node)
    ev = NFEval(model.parameters_keys(cls) or [])
    got, want = ev.nf(loc['Anm']), ev.nf(want_n)
    res.obligations += 1
    res.evaluations += 1
    res.nontrivial += 1
    if got is not NAN and want is not NAN and ev.equal(got, want):
        res.discharged += 1
    else:
        res.add(Finding(PROP, 'C14.sibling-norm', runm.module.relpath, runm.qualname, 'in-line Anm differs from Anm_analytic',
                        "CylindricalSandwich._run computes the mode normalisation Anm in line; its normal form differs from "
                        "the method Anm_analytic it replaced (the commented-out call): %s versus %s"
                        % (got.key()[:200] if got is not NAN else 'NaN', want.key()[:200] if want is not NAN else 'NaN'),
                        line=getattr(loc['Anm'].origin[1], 'lineno', 0), construct=loc['Anm'].src[:100]))


def cylindrical_static(model, res):
    """CylindricalSandwich: the static (non-homogeneous) part carries the boundary data -- it must take the documented
    wall temperatures T0 at theta = 0 and T1 at theta = pi/2 (the series part vanishes on both walls: sin(k theta), k even)."""
    import ast as _ast
    cls = model.get_class(H + 'cylindrical_sandwich:CylindricalSandwich')
    runm = cls.methods.get('_run')
    if runm is None:
        raise AnalysisError('CylindricalSandwich._run vanished')
    b = Builder(model)
    objn, ret = b.run_solver(cls)
    static = theta = None
    for func, tnode, vnode in b.assign_log:
        if func is runm and tnode.id == 'tempnonhom' and static is None:
            static = vnode
        if func is runm and tnode.id == 'theta' and theta is None:
            theta = vnode
    if static is None or theta is None:
        raise AnalysisError('CylindricalSandwich._run: static part `tempnonhom` / `theta` not found')
    keys = list(model.parameters_keys(cls) or [])
    for wall, val, want in (('theta = 0', 0, 'T0'), ('theta = pi/2', None, 'T1')):
        ev = NFEval(keys)
        if val == 0:
            ev.memo[theta.nid] = ev.num(0)
        else:
            # pi/2 as the module writes pi: find the pi node the static part divides by
            # substitute theta := c * (the value of the module's pi): with t a fresh symbol standing for theta,
            # static(t) is affine in t, so the wall value is static(0) + (static(1) - static(0)) * pi/2; pi itself is whatever
            # atom the normal form of `theta / np.pi` carries -- evaluate static at t = pi by solving static's own pi factor
            ev0, ev1 = NFEval(keys), NFEval(keys)
            ev0.memo[theta.nid] = ev0.num(0)
            ev1.memo[theta.nid] = ev1.num(1)
            s0, s1 = ev0.nf(static), ev1.nf(static)
            if s0 is NAN or s1 is NAN:
                raise AnalysisError('CylindricalSandwich._run: static part is not a closed form')
            slope = ev1.add(s1, s0, -1)          # per unit theta: contains 1/pi
            # value at theta = pi/2: s0 + slope * pi / 2 ; pi is the atom that makes slope * pi free of pi
            if 'pi^' not in s1.key():
                raise AnalysisError('CylindricalSandwich._run: pi not found in the static part')
            piat = ev1.atom('pi')
            got_half = ev1.add(s0, ev1.mul(ev1.mul(slope, piat), ev1.num(Fraction(1, 2))))
            ev = ev1
            ev.memo[theta.nid] = None
        got = ev.nf(static) if val == 0 else got_half
        h = b.heap[objn.val.oid]
        b.frame = Frame(None, cls.module, {}, None)
        wantn = ev.nf(b.get_attr(objn, want))
        res.obligations += 1
        res.evaluations += 1
        res.nontrivial += 1
        if got is not NAN and wantn is not NAN and ev.equal(got, wantn):
            res.discharged += 1
        else:
            res.add(Finding(PROP, 'C14.series', runm.module.relpath, runm.qualname, 'cylindrical sandwich: static part at %s' % wall,
                            "CylindricalSandwich._run: the static part `%s` takes the value %s on the wall %s, where the documented "
                            "boundary condition is %s (the series part vanishes on both walls, so the returned temperature does not "
                            "satisfy the boundary condition unless the other wall temperature is 0)"
                            % (static.src[:60], got.key()[:80] if got is not NAN else 'NaN', wall, want),
                            line=getattr(static.origin[1], 'lineno', 0), construct=static.src[:100]))


def run(model, tier):
    res = Result(PROP)
    res.explanation = (
        'Five structural clauses over the eight heat-conduction solvers. (i) Dimension inference with points: L, t: T, '
        'temperature: K, kappa: L^2/T and, for the rod family, one extra fictitious unit B for the arbitrary scale of a '
        "boundary-condition equation (alpha: B, beta: B L, gamma: B K): every mode number, coefficient, static part and "
        'series term must be homogeneous (kappa k^2 t and k x dimensionless) AND invariant under multiplying a boundary '
        'equation by a constant. (ii) In every summation loop an accumulator is increased by a loop-local term, never '
        'by another running sum. (iii) Where the series is replaced at r = 0 by where(r != 0, f, c), c depends on t '
        'whenever f does. (iv) Rod1D.__init__ and Rod1D._run dispatch on the same five-way partition of '
        '(alpha1, beta1, alpha2, beta2) (interval-normalised tests). (v) The in-line normalisation Anm of '
        'CylindricalSandwich._run has the normal form of the method Anm_analytic. (vi) Rod1D BC1-BC4: the series is '
        'expanded for the initial profile minus the static part (Ta = TL - static(0), Tb = TR - static(L) as normal '
        'forms, two cooperating sites). (vii) Rod1D (and through it the three planar sandwiches), mode by mode '
        '(sa/rules/c14_modes.py: the source read as formulas of a symbolic integer mode number n): every summand satisfies '
        'T_t = kappa T_xx; for BC1-BC4 every mode satisfies the homogeneous boundary conditions at both ends for integer n, '
        'the static part is linear and carries the data alpha_i S + beta_i S_x = gamma_i, and A_n, B_n (and A_0) are the Fourier '
        'coefficients of (T_L + (T_R - T_L) x / L) - S in the orthogonal basis of the case, so the series tends to the declared '
        'initial profile as t -> 0+ and to S as t -> infinity; general (Robin) case: A_n = -(beta_1 k_n/alpha_1) B_n satisfies the '
        'condition at x = 0, the transcendental equation whose roots are taken is the condition at x = L, and the static part '
        'must carry the data (known finding: it does not, spurious factor L). Not decided: truncation error, the normalisation '
        'integrals of the general case. Rectangle: static summand harmonic, zero on three sides, top coefficients = sine coefficients '
        'of Ttop; transient summand solves the 2D heat equation, vanishes on the boundary, and A_nm are the double sine coefficients '
        'of minus the static part (zero initial temperature; the sinh*sin integral through a supplied antiderivative verified by '
        'differentiation). Hutchens1: summand solves the spherical heat equation with alpha = k/(rho cp), vanishes at r = b, '
        'coefficients are the sine coefficients of -r (T = T0 at t = 0). Hutchens2: polynomial part carries the heat generation and the end '
        'temperatures; every series summand must be harmonic (modified Bessel I0) and vanish at both ends (known finding: the '
        'third one is not). Not decided: the cylindrical sandwich (numerically found radial eigenvalues).')
    res.rule_text = 'instances: dimension constraints, accumulators, singular-point sites, dispatch chain, sibling pair'
    res.trusted_base = ['CPython ast', 'sympy FracField', 'NF engine', 'interval algebra']
    dims(model, res)
    accumulation(model, res)
    singular_case(model, res)
    dispatch_agreement(model, res)
    ic_static_link(model, res)
    sibling_norm(model, res)
    cylindrical_static(model, res)
    from . import c14_modes
    from ..par import run_parallel
    run_parallel([(lambda part: c14_modes.rod(model, part), ()), (lambda part: c14_modes.rectangle(model, part), ()),
                  (lambda part: c14_modes.hutchens1(model, part), ()), (lambda part: c14_modes.hutchens2(model, part), ())], res)
    return res
