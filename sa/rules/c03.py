"""C03 -- returned thermodynamic fields are linked through the declared EOS by
construction (DESIGN 3, C03)."""
import ast
from fractions import Fraction

from ..model import AnalysisError
from ..report import Result, Finding
from ..vg import Builder
from ..nf import NFEval, NAN, Mono, Sum, PW, Struct, leaves
from ..dimcheck import load_spec
from .c05 import phi_leaves

LEVEL = 'other'
PROP = 'C03'


def expr_nf(ev, text, env):
    """Normal form of an identity expression over field names / parameters."""
    tree = ast.parse(text, mode='eval').body

    def go(n):
        if isinstance(n, ast.Constant):
            return ev.num(Fraction(repr(n.value)) if isinstance(n.value, float) else n.value)
        if isinstance(n, ast.Name):
            if n.id in env:
                return env[n.id]
            return ev.atom('param:%s' % n.id)
        if isinstance(n, ast.UnaryOp) and isinstance(n.op, ast.USub):
            return ev.mul(ev.num(-1), go(n.operand))
        if isinstance(n, ast.BinOp):
            a, b = go(n.left), go(n.right)
            if isinstance(n.op, ast.Add):
                return ev.add(a, b)
            if isinstance(n.op, ast.Sub):
                return ev.add(a, b, -1)
            if isinstance(n.op, ast.Mult):
                return ev.mul(a, b)
            if isinstance(n.op, ast.Div):
                return ev.mul(a, ev.power(b, ev.S.F(-1)))
            if isinstance(n.op, ast.Pow) and isinstance(n.right, ast.Constant):
                return ev.power(a, ev.S.F(Fraction(n.right.value)))
        raise AnalysisError('unsupported identity expression %r' % text)
    return go(tree)


def vacuum_leaf(conds, density_key):
    """The piece is selected by `density == 0` (documented vacuum: e = 0 there)."""
    for ckey, pol, cnode in conds:
        if density_key is None:
            continue
        if (ckey == '(%s != 0)' % density_key and not pol) or (ckey == '(%s == 0)' % density_key and pol):
            return True
        # densities are non-negative: `not (density > 0)` and `density <= 0` select the same vacuum piece
        if (ckey == '(%s > 0)' % density_key and not pol) or (ckey == '(%s <= 0)' % density_key and pol):
            return True
    return False


def check_solver(model, cname, opts, fams, res, per):
    cls = model.get_class(cname)
    if opts['family'] == 'none':
        return
    b = Builder(model)
    for f in (opts.get('opaque') or {}):
        model.get_func(f)
    b.opaque = dict(opts.get('opaque') or {})
    objn, ret = b.run_solver(cls)
    keys = (model.parameters_keys(cls) or []) + list((opts.get('opaque') or {}).values())
    ev = NFEval(keys)
    runm = cls.find_method('_run')
    sols = [l for l in phi_leaves(ret) if l.kind == 'call' and l.val == 'exactpack.base.ExactSolution']
    if not sols:
        raise AnalysisError('no ExactSolution returned by %s' % cname)
    n_ident = 0
    for sol in sols:
        data = sol.args[0] if sol.args else sol.kw.get('data')
        names = sol.args[1] if len(sol.args) > 1 else sol.kw.get('names')
        if data is None or names is None or data.kind not in ('list', 'tuple') or names.kind not in ('list', 'tuple'):
            raise AnalysisError('solution fields of %s not resolvable' % cname)
        env = {}
        for a, d in zip(names.args, data.args):
            env[a.val] = ev.nf(d)
        for k, v in (opts.get('let') or {}).items():
            env[k] = expr_nf(ev, v, {})
        dens = env.get('density')
        dkey = dens.key() if dens is not None and dens is not NAN and not isinstance(dens, PW) else None
        for ident in fams[opts['family']]:
            needed = {n.id for n in ast.walk(ast.parse(ident, mode='eval')) if isinstance(n, ast.Name)}
            fields_needed = [x for x in needed if x in ('pressure', 'density', 'specific_internal_energy', 'temperature',
                                                        'sound_speed', 'energy')]
            missing = [x for x in fields_needed if x not in env]
            if missing:
                raise AnalysisError('%s does not return field(s) %s needed by its EOS identity' % (cname, missing))
            d = expr_nf(ev, ident, env)
            res.obligations += 1
            res.evaluations += 1
            n_ident += 1
            bad = []
            pieces = leaves(d)
            for conds, leaf in pieces:
                if leaf is NAN:
                    continue
                if isinstance(leaf, Struct):
                    bad.append((conds, leaf))
                    continue
                if ev.is_zero(leaf):
                    continue
                # density-dependent vacuum pieces
                dk = None
                for nm in ('density',):
                    x = env.get(nm)
                    if x is not None:
                        for c2, l2 in leaves(x):
                            if c2 == conds[:len(c2)] and l2 is not NAN:
                                dk = l2.key()
                full = env.get('density')
                fk = full.key() if full is not None and full is not NAN else None
                if vacuum_leaf(conds, dk) or vacuum_leaf(conds, fk):
                    continue
                bad.append((conds, leaf))
            if len(pieces) > 1 or not ev.is_zero(d):
                res.nontrivial += 1
            if not bad:
                res.discharged += 1
                res.sample({'solver': cname, 'identity': ident + ' == 0', 'pieces': len(pieces)}, limit=30)
                continue
            conds, leaf = bad[0]
            where_txt = ' and '.join(('%s' if pol else 'not %s') % ck for ck, pol, _ in conds)[:200] or 'everywhere'
            fn = sol.origin[0] or runm
            res.add(Finding(PROP, 'C03.eos-link', fn.module.relpath, fn.qualname,
                            '%s: %s' % (cls.name, ident),
                            "%s: the returned fields are not linked by the declared EOS by construction: "
                            "`%s` does not normalise to 0 (%d of %d pieces; first: where %s the residual is %s). "
                            "Either a field is computed independently of the others with a formula that is not "
                            "the EOS for all parameters, or it is not derived from the returned fields at all."
                            % (cls.name, ident, len(bad), len(pieces), where_txt, leaf.key()[:300]),
                            line=getattr(sol.origin[1], 'lineno', 0), construct=ident))
    per[cname] = {'identities': n_ident, 'opaque_atoms': ev.opaque_count}
    res.analysed.append(cname)


def run(model, tier):
    res = Result(PROP)
    res.explanation = (
        'For every solver that declares an EOS the value-graph expressions returned under the names pressure, '
        'density, specific_internal_energy (temperature, sound_speed) are normalised to monomial normal forms '
        '(rational coefficients, exponents in Q(parameters), like terms merged, piecewise over where()/if with '
        'structurally identical conditions) and the EOS identity, e.g. pressure - (gamma-1)*density*energy, must '
        'normalise to 0 on every piece. Equal normal forms imply the identity for all points, times and '
        'parameters; this is the by-construction link (one field defined from the others through the EOS), '
        'which every in-scope solver uses.')
    res.rule_text = 'instance = one EOS identity of one returned solution; non-trivial = more than one piece or a non-literal cancellation'
    res.trusted_base = ['CPython ast', 'sympy FracField', 'spec/eos_families.json (EOS per package docstring)']
    spec = load_spec('eos_families.json')
    per = {}
    for cname, opts in spec['classes'].items():
        check_solver(model, cname, opts, spec['families'], res, per)
    res.extra['per_class'] = per
    from . import c03_riemann
    c03_riemann.check(model, res)
    from . import c03_mader
    c03_mader.check(model, res)
    from . import c03_radshock
    c03_radshock.wrappers(model, res)
    blackbox_eos(model, res)
    return res


def blackbox_eos(model, res):
    """Black-box Noh: the thermodynamic fields returned together are linked by the user's EOS object by construction --
    behind the shock the closed field is eos.P / eos.e of the two Newton unknowns, ahead of it the energy is
    eos.e(rho_0, P_0).  These are the EOS obligations of the returned-states rule of C02 (c02_blackbox.fields, every way
    of calling the constructor); the jump-condition obligations of that rule stay with C02."""
    from . import c02_blackbox
    class _All(Result):
        def sample(self, sm, limit=16):
            self.samples.append(sm)
    tmp = _All(PROP)
    c02_blackbox.fields(model, tmp, prop=PROP, rule='C03.blackbox-eos')

    def mine(text):
        return ('through the EOS' in text and text.startswith('behind the shock')) or \
            text.startswith("ahead of the shock: 'specific_internal_energy'")
    n = sum(1 for sm in tmp.samples if mine(str(sm.get('identity', ''))) or 'pre-shock \'specific_internal_energy\'' in str(sm.get('identity', '')))
    bad = [f for f in tmp.findings if mine(f.detail)]
    total = n + len(bad)
    if total < 2 and not bad:
        raise AnalysisError('black-box Noh: the EOS obligations of the returned-states rule vanished (confirmed: 2 per scenario)')
    res.obligations += total
    res.evaluations += total
    res.nontrivial += total
    res.discharged += n
    for f in bad:
        res.add(f)
    res.sample({'rule': 'C03.blackbox-eos', 'site': 'NohBlackBoxEos._run', 'obligations': total,
                'identity': "behind the shock the closed field is eos.P/eos.e(shocked density, shocked unknown); ahead e = eos.e(rho_0, P_0)"}, limit=60)
