"""C12 clause for the equilibrium-diffusion radiative shock: the fluxes are constant along the whole profile,
as identities in the temperature.

`make_ED_solution` integrates x(T) numerically (not decided) and then forms every profile quantity as a closed form
of the temperature grid: rho(T) (root of the momentum balance), speed = M0/rho, p = rho T/gamma,
e = T/(gamma (gamma-1)), and the radiation flux Fr = -(4 T^3/3)/sigma_t(T) / dxdT(T) + (4/3)(speed/C0) T^4.
Executed symbolically with T a symbol (the statements of make_ED_solution that form these quantities, the
functions of fnctn_ED they call), the property's flux statements are identities in T, M0, P0, C0, gamma and the
opacity coefficients / exponents:
    mass      rho u                                   == M0
    momentum  rho u^2 + p + P0 T^4 / 3                == M0^2 + 1/gamma + P0/3
    energy    (u/C0)(rho u^2/2 + rho e + p) + P0 Fr   == (M0/C0)(M0^2/2 + 1/(gamma-1) + 4 P0/3)
(non-dimensional form of radshock.py: upstream rho = T = 1, u = M0).  The energy identity ties the opacity used in
Fr to the one inside dxdT and the coded ODE to the energy balance.  Radical normal form (the density is
-(b + sqrt(b^2 - 4ac))/(2a)).  Not decided: the integration x(T), the end-point overrides (rhos[-1], Ms[-1]), the
non-equilibrium and Sn solvers.
"""
import ast
from fractions import Fraction

from ..model import AnalysisError, src_of
from ..report import Finding
from ..vg import Builder, Frame
from ..nf import NFEval, NAN, Mono, Sum, PW, Struct
from ..ratnf import NFSym, is_zero, staged_zero
from ..radnf import RadNF, Unsupported

PROP = 'C12'
UTILS = 'exactpack.solvers.radshocks.utils'
FN = 'exactpack.solvers.radshocks.fnctn_ED'
ATTRS = ['P0', 'M0', 'gamma', 'C0', 'sigA', 'sigS', 'expDensity_abs', 'expTemp_abs', 'expDensity_scat', 'expTemp_scat',
         'rho1', 'T1', 'M1', 'eps_precursor_equil', 'eps_relaxation_equil', 'left_pts', 'use_jac']


def ed_fluxes(model, res):
    mod = model.modules.get(UTILS)
    if mod is None or 'ED_ShockProfiles' not in mod.classes or FN not in model.modules:
        raise AnalysisError('radshocks.utils.ED_ShockProfiles / fnctn_ED vanished')
    ci = mod.classes['ED_ShockProfiles']
    m = ci.find_method('make_ED_solution')
    if m is None:
        raise AnalysisError('ED_ShockProfiles.make_ED_solution vanished')
    b = Builder(model)
    b.frame = Frame(None, mod, {}, None)
    inst = b.symbolic_obj(ci, ATTRS)
    T = b.mk('param', 'T')
    b.frame = Frame(m, mod, {'self': inst, 'fnctn': b.mk('module', FN), 'Ts': T}, self_obj=inst, cls=ci)
    want_locals = {'M0', 'rhos', 'speed', 'Fr'}
    attrs = {}
    for st in m.node.body:
        names = {n.id for n in ast.walk(st) if isinstance(n, ast.Name)}
        if 'xs' in names or 'x_shift' in names or 'Ms' in names:
            continue
        if isinstance(st, (ast.Assign, ast.AugAssign)):
            tg = st.targets[0] if isinstance(st, ast.Assign) else st.target
            if isinstance(tg, ast.Name) and tg.id in want_locals:
                b.exec_stmt(st)
            elif isinstance(tg, ast.Attribute) and isinstance(tg.value, ast.Name) and tg.value.id == 'self' and isinstance(st, ast.Assign) \
                    and tg.attr in ('Tm', 'Fr', 'Density', 'Speed', 'Pressure', 'SIE'):
                attrs[tg.attr] = (b.eval(st.value), st)
    need = ['Tm', 'Fr', 'Density', 'Speed', 'Pressure', 'SIE']
    if any(a not in attrs for a in need):
        raise AnalysisError('make_ED_solution no longer stores %s' % [a for a in need if a not in attrs])
    ev = NFEval(['expDensity_abs', 'expTemp_abs', 'expDensity_scat', 'expTemp_scat'])
    sy = NFSym(ev)
    v = {a: ev.nf(attrs[a][0]) for a in need}
    if any(x is NAN or isinstance(x, (PW, Struct)) for x in v.values()):
        raise AnalysisError('make_ED_solution: profile quantities are not closed forms of the temperature')
    if not ev.equal(v['Tm'], ev.atom('param:T')):
        raise AnalysisError('make_ED_solution: the stored temperature is no longer the temperature grid')

    def zero(x):
        if x is NAN or isinstance(x, (PW, Struct)):
            return False
        try:
            cx = sy.conv(x)
            if is_zero(cx):
                return True
            try:
                return RadNF(sy.units).is_zero(cx)
            except Unsupported:
                return False
        except TypeError:
            return False

    def oblige(label, ok, msg, st):
        res.obligations += 1
        res.evaluations += 1
        res.nontrivial += 1
        if ok:
            res.discharged += 1
            res.sample({'function': m.qualname, 'identity': label}, limit=80)
        else:
            res.add(Finding(PROP, 'C12.flux', m.module.relpath, m.qualname, label, msg, line=st.lineno, construct=src_of(st)))
    A = lambda k: ev.atom('param:%s' % k)
    Tn, M0, P0, C0, g = A('T'), A('M0'), A('P0'), A('C0'), A('gamma')
    rho, u, p, e, Fr = v['Density'], v['Speed'], v['Pressure'], v['SIE'], v['Fr']
    inv = lambda x: ev.power(x, ev.S.F(-1))
    half, third = ev.num(Fraction(1, 2)), ev.num(Fraction(1, 3))
    T4 = ev.power(Tn, ev.S.F(4))
    oblige('mass flux: Density * Speed == M0', zero(ev.add(ev.mul(rho, u), M0, -1)),
           'make_ED_solution: the mass flux rho u of the stored profile is not the upstream mass flux M0 at every temperature',
           attrs['Speed'][1])
    mom = ev.add(ev.add(ev.add(ev.mul(rho, ev.mul(u, u)), p), ev.mul(ev.mul(third, P0), T4)),
                 ev.add(ev.add(ev.mul(M0, M0), inv(g)), ev.mul(third, P0)), -1)
    oblige('momentum flux: rho u^2 + p + P0 T^4/3 == M0^2 + 1/gamma + P0/3', zero(mom),
           'make_ED_solution / fnctn_ED.rho: the total momentum flux (with radiation pressure P0 T^4/3) of the stored profile is not '
           'constant along the profile: the density is not the root of the momentum balance for the stored pressure and speed',
           attrs['Density'][1])
    gm1 = ev.add(g, ev.num(1), -1)
    beta = ev.mul(u, inv(C0))
    Em = ev.add(ev.add(ev.mul(half, ev.mul(rho, ev.mul(u, u))), ev.mul(rho, e)), p)
    up = ev.mul(ev.mul(M0, inv(C0)), ev.add(ev.add(ev.mul(half, ev.mul(M0, M0)), inv(gm1)), ev.mul(ev.num(Fraction(4, 3)), P0)))
    en = ev.add(ev.add(ev.mul(beta, Em), ev.mul(P0, Fr)), up, -1)
    oblige('energy flux: (u/C0)(rho u^2/2 + rho e + p) + P0 Fr == (M0/C0)(M0^2/2 + 1/(gamma-1) + 4 P0/3)', zero(en),
           'make_ED_solution: the total energy flux (material plus radiation flux Fr as stored) is not constant along the profile: '
           'the stored radiation flux is not the one the integrated ODE dxdT balances (opacity, exponent or coefficient differs '
           'between Fr and dxdT, or dxdT is not the energy balance)', attrs['Fr'][1])
    oblige('sie == T / (gamma (gamma - 1)) and p == rho T / gamma (ideal gas, non-dimensional)',
           zero(ev.add(e, ev.mul(Tn, inv(ev.mul(g, gm1))), -1)) and zero(ev.add(p, ev.mul(ev.mul(rho, Tn), inv(g)), -1)),
           'make_ED_solution: the stored pressure / specific internal energy are not the ideal-gas values of the stored density and '
           'temperature', attrs['SIE'][1])


NED = 'exactpack.solvers.radshocks.fnctn_nED'
NED_ATTRS = ['P0', 'M0', 'gamma', 'C0', 'sigA', 'sigS', 'expDensity_abs', 'expTemp_abs', 'expDensity_scat', 'expTemp_scat',
             'Pr0', 'Pr1', 'M1', 'T0', 'T1', 'rho0', 'rho1', 'epsilon', 'd_M', 'd_f']


def ned_fluxes(model, res, problems=('nED', 'LM_nED'), modname=None, var='P', eq=('Pr0', 'Pr1'), tag='fnctn_nED'):
    """Non-equilibrium diffusion (problem 'nED' and 'LM_nED'): every stored profile quantity is a closed form of the
    integration variables (radiation pressure P, Mach number M) through fnctn_nED.mat_density / mat_speed / mat_pres /
    mat_temp / rad_flux.  With P and M symbols:
        mass      rho u                              == M0
        momentum  rho u^2 + p + P0 P                 == M0^2 + 1/gamma + P0 Pr0
        energy    beta (Em) + P0 Fr                  == beta_eq (Em_eq + P0 F2_eq)   on each side of M = 1
    where the right-hand side of the last one is the constant the ODE dPdx is built around, evaluated with the same
    helper functions at the equilibrium state of that side (its equality on the two sides is the jump condition
    solved numerically by downstream_equilibrium, not decided)."""
    modname = modname or NED
    mod = model.modules.get(modname)
    umod = model.modules.get(UTILS)
    if mod is None or umod is None or 'nED_ShockProfiles' not in umod.classes:
        raise AnalysisError('radshocks.fnctn_nED / utils.nED_ShockProfiles vanished')
    ci = umod.classes['nED_ShockProfiles']
    for problem in problems:
        b = Builder(model)
        b.frame = Frame(None, mod, {}, None)
        inst = b.symbolic_obj(ci, NED_ATTRS + ['Er0', 'Er1', 'Lambda', 'R'], {'problem': None})
        b.heap[inst.val.oid]['problem'] = b.const(problem)
        b.heap[inst.val.oid]['__dict__'] = b.mk('dict', [], [])
        P, M = b.mk('param', var), b.mk('param', 'M')

        def call(fname, *args):
            fi = model.get_func('%s:%s' % (modname, fname))
            if fi is None:
                raise AnalysisError('%s.%s vanished' % (tag, fname))
            b.frame = Frame(None, mod, {}, None)
            return fi, b.run_function(fi, list(args) + [inst])
        f_rho, rho_n = call('mat_density', P, M)
        f_u, u_n = call('mat_speed', P, M)
        f_p, p_n = call('mat_pres', P, M)
        f_T, T_n = call('mat_temp', P, M)
        f_F, Fr_n = call('rad_flux', P, M)
        f_E, Em_n = call('mat_total_energy', P, M)
        ev = NFEval(['expDensity_abs', 'expTemp_abs', 'expDensity_scat', 'expTemp_scat'])
        sy = NFSym(ev)

        def zero(x):
            if x is NAN or isinstance(x, (PW, Struct)):
                return False
            # sums that do not depend on the integration variables (the equilibrium states) stay opaque
            def setup(sy_):
                sy_.opaque_pred = lambda k: ('param:%s^' % var) not in k and 'param:M^' not in k
            return staged_zero(ev, x, setup=setup)

        def oblige(fi, label, ok, msg):
            res.obligations += 1
            res.evaluations += 1
            res.nontrivial += 1
            if ok:
                res.discharged += 1
                res.sample({'function': fi.qualname, 'identity': '%s: %s' % (problem, label)}, limit=80)
            else:
                res.add(Finding(PROP, 'C12.flux', fi.module.relpath, fi.qualname, '%s: %s' % (problem, label), msg,
                                line=fi.node.lineno, construct='def %s' % fi.name))
        A = lambda k: ev.atom('param:%s' % k)
        M0, P0, C0, g, Pr0 = A('M0'), A('P0'), A('C0'), A('gamma'), A('Pr0')
        rho, u, p, T, Em = (ev.nf(n) for n in (rho_n, u_n, p_n, T_n, Em_n))
        if any(x is NAN or isinstance(x, (PW, Struct)) for x in (rho, u, p, T, Em)):
            raise AnalysisError(tag + ': material closures are not closed forms of (P, M)')
        inv = lambda x: ev.power(x, ev.S.F(-1))
        oblige(f_u, 'mass flux: mat_density * mat_speed == M0', zero(ev.add(ev.mul(rho, u), M0, -1)),
               tag + ': the mass flux rho u of the closures (mat_density, mat_speed) is not M0 for every (P, M)')
        if var == 'P':
            Prad = ev.nf(P)
        else:
            Lam, Rr = A('Lambda'), A('R')
            Prad = ev.mul(ev.add(Lam, ev.mul(ev.mul(Lam, Rr), ev.mul(Lam, Rr))), ev.nf(P))
        mom = ev.add(ev.add(ev.add(ev.mul(rho, ev.mul(u, u)), p), ev.mul(P0, Prad)),
                     ev.add(ev.add(ev.mul(M0, M0), inv(g)), ev.mul(P0, Pr0)), -1)
        oblige(f_rho, 'momentum flux: rho u^2 + p + P0 P == M0^2 + 1/gamma + P0 Pr0', zero(mom),
               tag + ': the total momentum flux (with the radiation pressure P0 P) of the closures is not the upstream value for '
               'every (P, M): mat_density / mat_speed / mat_pres are not the solution of the mass and momentum balances')
        oblige(f_T, 'Mach number: mat_speed^2 == M^2 mat_temp, mat_pres == rho T / gamma',
               zero(ev.add(ev.mul(u, u), ev.mul(ev.mul(ev.nf(M), ev.nf(M)), T), -1)) and zero(ev.add(p, ev.mul(ev.mul(rho, T), inv(g)), -1)),
               tag + ': the closures are not consistent with the integration variable M being the local Mach number u / sqrt(T) '
               '(non-dimensional sound speed sqrt(T)) and p = rho T / gamma')
        # energy: on each side of M = 1 (the equilibrium state of the side is selected the way dPdx selects it)
        from ..nf import leaves
        beta = ev.mul(u, inv(C0))
        Fr = ev.nf(Fr_n)
        tot = ev.add(ev.mul(beta, Em), ev.mul(P0, Fr))
        b.frame = Frame(f_F, mod, {var: P, 'M': M, 'self': inst}, None)
        want = b.eval(ast.parse(
            ("mat_beta(numpy.where(M > 1, self.%s, self.%s), numpy.where(M > 1, self.M0, self.M1), self) * "
             "(mat_total_energy(numpy.where(M > 1, self.%s, self.%s), numpy.where(M > 1, self.M0, self.M1), self) + self.P0 * "
             "rad_flux2(numpy.where(M > 1, self.%s, self.%s), numpy.where(M > 1, self.M0, self.M1), self))") % (eq * 3), mode='eval').body)
        dd = ev.add(tot, ev.nf(want), -1)
        ok = dd is not NAN
        sides = 0
        if ok:
            for conds, leaf in leaves(dd):
                if leaf is NAN or isinstance(leaf, Struct):
                    ok = False
                    break
                sides += 1
                if not zero(leaf):
                    ok = False
        oblige(f_F, 'energy flux: beta Em + P0 rad_flux == beta_eq (Em_eq + P0 rad_flux2_eq) on each side of M = 1', ok and sides >= 1,
               tag + ': the total energy flux (material energy flux plus P0 times the radiation flux returned by rad_flux) is not the '
               'constant the ODE dPdx is built around, for every (P, M): rad_flux, dPdx and the material closures are not one '
               'consistent energy balance (an opacity, a coefficient or the second moment differs between them)')
