"""C08 clause for the steady 2D Riemann solver: its pressure grids and root-finder guesses scale with the problem.

The solver documents no unit system, so the user's-guide promise applies: pressures and densities may be given in any
consistent units (Mach numbers, angles and gamma are pure numbers).  Two helper methods are typed with the dimension
engine for an incoming state [P, RHO, 1, 1, 1]: `setup_initial_arrays` (the table of expansion pressures must run between
limits of the dimension of a pressure) and the prologue of `assign_lineout_vals` (the starting guesses of the fan root
finder are pressures).  A literal added to a pressure, or a literal lower limit, ties the solver to one unit of pressure:
with p and rho scaled by 1e-6 the fan returned a negative pressure and NaN everywhere else (genuine defect, repaired).
"""
import ast

from ..model import AnalysisError
from ..vg import Builder, Frame, Closure
from ..dim import DimSystem, DimEval, Seq
from ..dimcheck import findings_from

PROP = 'C08'
MOD = 'exactpack.solvers.riemann2D_2section_steadystate.riemann2D_2section_steadystate'
CLS = MOD + ':SetupRiemannProblem'


def helpers(model, res, prop=PROP, rule='C08.dim'):
    cls = model.get_class(CLS)
    total = 0
    # (1) setup_initial_arrays(state)
    m = cls.find_method('setup_initial_arrays')
    if m is None:
        raise AnalysisError('SetupRiemannProblem.setup_initial_arrays vanished')
    b = Builder(model)
    b.frame = Frame(None, cls.module, {}, None)
    inst = b.symbolic_obj(cls, [])
    state = b.mk('input', 'state')
    b.frame = Frame(None, cls.module, {}, None)
    b.call_closure(Closure(m, m.node, None, self_node=inst, cls=cls, module=cls.module), [state], {}, m.node)
    S = DimSystem([])
    P, R = S.from_spec({'M': 1, 'L': -1, 'T': -2}), S.from_spec({'M': 1, 'L': -3})
    one = S.dimless()
    ev = DimEval(S, input_dims={'state': Seq([P, R, one, one, one])})
    ev.run(b.trace)
    findings_from(S, ev, prop, rule, res)
    res.obligations += S.constraints
    res.discharged += S.constraints - len(S.inconsistencies)
    res.evaluations += S.constraints
    res.nontrivial += S.nontrivial + S.checked
    total += S.constraints
    # (2) the prologue of assign_lineout_vals: the guesses p_low / p_high
    m = cls.find_method('assign_lineout_vals')
    if m is None:
        raise AnalysisError('SetupRiemannProblem.assign_lineout_vals vanished')
    b = Builder(model)
    b.frame = Frame(None, cls.module, {}, None)
    attrs = ['pressure_solution', 'rB_star', 'MB_star', 'uB_star', 'vB_star', 'rT_star', 'MT_star', 'uT_star', 'vT_star',
             'uB', 'vB', 'uT', 'vT', 'angles', 'morphology']
    inst = b.symbolic_obj(cls, attrs, {'bottom_state': b.mk('input', 'bottom_state'), 'top_state': b.mk('input', 'top_state')})
    xs, ys = b.mk('input', 'xs'), b.mk('input', 'ys')
    b.frame = Frame(m, cls.module, {'self': inst, 'xs': xs, 'ys': ys}, self_obj=inst, cls=cls)
    n_stmt = 0
    for st in m.node.body:
        if isinstance(st, ast.For):
            break
        try:
            b.exec_stmt(st)
            n_stmt += 1
        except AnalysisError:
            raise
        except Exception:
            continue
    if n_stmt < 10:
        raise AnalysisError('assign_lineout_vals: only %d prologue statements analysed (confirmed: 20)' % n_stmt)
    S = DimSystem(attrs)
    P, R, V = S.from_spec({'M': 1, 'L': -1, 'T': -2}), S.from_spec({'M': 1, 'L': -3}), S.from_spec({'L': 1, 'T': -1})
    one = S.dimless()
    pd = {'pressure_solution': P, 'rB_star': R, 'rT_star': R, 'MB_star': one, 'MT_star': one, 'uB_star': V, 'vB_star': V,
          'uT_star': V, 'vT_star': V, 'uB': V, 'vB': V, 'uT': V, 'vT': V, 'angles': one}
    L = S.from_spec({'L': 1})
    ev = DimEval(S, input_dims={'bottom_state': Seq([P, R, one, one, one]), 'top_state': Seq([P, R, one, one, one]),
                                'xs': L, 'ys': L}, param_dims=pd)
    ev.run(b.trace)
    findings_from(S, ev, prop, rule, res)
    res.obligations += S.constraints
    res.discharged += S.constraints - len(S.inconsistencies)
    res.evaluations += S.constraints
    res.nontrivial += S.nontrivial + S.checked
    total += S.constraints
    if total < 8:
        raise AnalysisError('2D Riemann helpers: only %d dimension constraints generated (confirmed: >= 12)' % total)
    res.analysed.append('%s.setup_initial_arrays / assign_lineout_vals prologue (state = [P, RHO, 1, 1, 1])' % CLS)
