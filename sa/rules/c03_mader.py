"""C03 for Mader's rarefaction (`mader.rarefaction.rare`): c^2 = gamma p / rho.

`rare()` returns (u, p, c, rho) per cell from three branches.  Pressure and density in
the fan are *cell averages* of a power law of the similarity variable S (linear in x),
sound speed is the power law itself at the cell centre, so the EOS cannot hold between
the returned numbers exactly; what the code shape decides is the underlying point law:

R1 (constant state)  the normal form of  c^2*rho - gam*p  is 0;
R2 (constant state)  each of p, rho, c is  A_X * Q^k_X  with one common base Q (the only
                     factor that contains the piston velocity);
R3 (fan, and the partial cell of the transition branch)  p and rho are the exact cell
                     average of the SAME point law with Q replaced by S:
                         X * (S_hi - S_lo) * K_X  ==  A_X * (S_hi^K_X - S_lo^K_X),  K_X = k_X + 1
                     where S_hi, S_lo are the bases of the two symbolic powers in X;
R4 (fan)             c is that point law at the cell centre:  2*c == A_c * (S_hi + S_lo).

R1+R2 give  A_c^2 A_rho = gam A_p  and  2 + k_rho = k_p ; with R3+R4 the fan's point law
satisfies the EOS for every gamma.  All identities are zero tests of normal forms with
exponents in Q(gam); nothing is evaluated.
"""
import ast

from ..model import AnalysisError, src_of
from ..report import Finding
from ..vg import Builder, Frame, walk
from ..nf import NFEval, NAN, Mono, Sum
from ..ratnf import NFSym

PROP = 'C03'
FN = 'exactpack.solvers.mader.rarefaction:rare'
GAM = 'gam'
PISTON = 'u_piston'


def _assigns(body):
    first, last = {}, {}
    for st in body:
        if isinstance(st, ast.Assign) and len(st.targets) == 1 and isinstance(st.targets[0], ast.Name):
            first.setdefault(st.targets[0].id, st.targets[0])
            last[st.targets[0].id] = st.targets[0]
    return first, last


def _sym_pows(ev, node):
    """`**` nodes under `node` whose exponent depends on gam (a non-constant field element)."""
    out = []
    seen = set()
    for n in walk(node):
        if n.kind == 'binop' and n.val == '**' and n.nid not in seen:
            seen.add(n.nid)
            e = ev.R.ratval(n.args[1])
            if e is None:
                continue
            try:
                ground = e.numer.is_ground and e.denom.is_ground
            except Exception:
                ground = False
            if not ground:
                out.append((n, e))
    return out


def check(model, res):
    fi = model.get_func(FN)
    argn = [a.arg for a in fi.node.args.args]
    if GAM not in argn or PISTON not in argn:
        raise AnalysisError('rare() no longer takes %s / %s' % (GAM, PISTON))
    chain = None
    for st in fi.node.body:
        if isinstance(st, ast.If) and st.orelse and isinstance(st.orelse[0], ast.If) and st.orelse[0].orelse:
            chain = st
    if chain is None:
        raise AnalysisError('fan / transition / constant-state branch chain vanished from rare()')
    fan_first, fan_last = _assigns(chain.body)
    tr_first, _ = _assigns(chain.orelse[0].body)
    c_first, c_last = _assigns(chain.orelse[0].orelse)
    b = Builder(model)
    b.frame = Frame(None, fi.module, {}, None)
    args = [b.mk('param', a) for a in argn]
    b.run_function(fi, args)
    val = {id(t): v for _, t, v in b.assign_log}
    ev = NFEval([GAM])
    gam = ev.atom('param:%s' % GAM)
    sy = NFSym(ev)

    def v(tbl, q, what):
        if q not in tbl or id(tbl[q]) not in val:
            raise AnalysisError("'%s' is not assigned in the %s branch of rare()" % (q, what))
        return val[id(tbl[q])]

    def report(rule, at, detail, msg):
        res.add(Finding(PROP, rule, fi.module.relpath, fi.qualname, detail, msg,
                        line=getattr(at, 'lineno', 0), construct=src_of(at)))

    # ---- R1: constant state ------------------------------------------------
    pc, rc, cc = (ev.nf(v(c_last, q, 'constant-state')) for q in ('p', 'rho', 'c'))
    res.obligations += 1
    res.evaluations += 1
    res.nontrivial += 1
    lhs = ev.mul(ev.mul(cc, cc), rc)
    rhs = ev.mul(gam, pc)
    if NAN in (pc, rc, cc) or not ev.equal(lhs, rhs):
        report('C03.mader-eos', c_last['rho'], 'constant state: c**2*rho - gam*p',
               "Mader constant state: c^2*rho - gam*p does not normalise to 0 (c^2*rho = %s ; gam*p = %s)"
               % (lhs.key()[:200] if lhs is not NAN else 'NAN', rhs.key()[:200] if rhs is not NAN else 'NAN'))
        return
    res.discharged += 1
    res.sample({'solver': FN, 'identity': 'constant state: c**2*rho - gam*p == 0'})

    # ---- R2: A_X * Q^k_X -----------------------------------------------------
    law = {}
    qkey = None
    for q, x in (('p', pc), ('rho', rc), ('c', cc)):
        if not isinstance(x, Mono):
            raise AnalysisError("constant-state '%s' is not a monomial in the piston-velocity factor" % q)
        qs = [k for k in x.f if PISTON in k]
        if len(qs) != 1 or (qkey is not None and qs[0] != qkey):
            raise AnalysisError("constant-state '%s': expected one common factor containing %s" % (q, PISTON))
        qkey = qs[0]
        amp = Mono(x.coef, {k: e for k, e in x.f.items() if k != qkey})
        law[q] = (amp, x.f[qkey])

    # ---- R3 / R4 ---------------------------------------------------------------
    def branch(name, tbl, with_c):
        bases = None
        for q in ('p', 'rho'):
            node = v(tbl, q, name)
            res.obligations += 1
            res.evaluations += 1
            res.nontrivial += 1
            pows = _sym_pows(ev, node)
            if len(pows) != 2:
                raise AnalysisError("%s branch: '%s' is not a difference of two gamma-dependent powers "
                                    "(found %d)" % (name, q, len(pows)))
            (n1, e1), (n2, e2) = pows
            amp, k = law[q]
            if e1 != e2 or e1 - ev.one != k:
                report('C03.mader-eos', tbl[q], "%s: exponent of the point law of '%s'" % (name, q),
                       "Mader %s: '%s' is the cell average of S^(%s) but the constant state (and the EOS "
                       "c^2 = gam*p/rho, with c linear in S) needs the point law S^(%s): density, pressure and "
                       "sound speed returned in the fan are not on one isentrope of the gamma-law gas"
                       % (name, q, e1 - ev.one, k))
                continue
            s1, s2 = ev.nf(n1.args[0]), ev.nf(n2.args[0])
            x = ev.nf(node)
            K = e1
            kform = ev.R.ratval(n1.args[1])
            # K as a normal form: the exponent node itself
            Knf = ev.nf(n1.args[1])
            lhs = ev.mul(ev.mul(x, ev.add(s1, s2, -1)), Knf)
            rhs = ev.mul(amp, ev.add(ev.power(s1, K), ev.power(s2, K), -1))
            ok = sy.equal(lhs, rhs)
            if not ok:
                # the two powers may appear in the other order
                lhs2 = ev.mul(ev.mul(x, ev.add(s2, s1, -1)), Knf)
                rhs2 = ev.mul(amp, ev.add(ev.power(s2, K), ev.power(s1, K), -1))
                ok = sy.equal(lhs2, rhs2)
            if not ok:
                report('C03.mader-eos', tbl[q], "%s: amplitude of the point law of '%s'" % (name, q),
                       "Mader %s: '%s' is not the cell average (S_hi^K - S_lo^K) * A / ((S_hi - S_lo) * K) of the "
                       "constant-state law A*S^(K-1) with A = %s" % (name, q, amp.key()[:160]))
                continue
            if bases is None:
                bases = (s1, s2)
            elif not ((sy.equal(bases[0], s1) and sy.equal(bases[1], s2)) or
                      (sy.equal(bases[0], s2) and sy.equal(bases[1], s1))):
                report('C03.mader-eos', tbl[q], '%s: similarity variable of p and rho' % name,
                       "Mader %s: pressure and density are averaged over different similarity variables" % name)
                continue
            res.discharged += 1
            res.sample({'solver': FN, 'identity': "%s: %s is the cell average of A*S^(%s)" % (name, q, k)})
        if with_c and bases is not None:
            res.obligations += 1
            res.evaluations += 1
            res.nontrivial += 1
            amp, k = law['c']
            cf = ev.nf(v(tbl, 'c', name))
            if k != ev.one or not sy.equal(ev.mul(ev.num(2), cf), ev.mul(amp, ev.add(bases[0], bases[1]))):
                report('C03.mader-eos', tbl['c'], '%s: sound speed vs similarity variable' % name,
                       "Mader %s: the sound speed is not A_c * S at the centre of the cell over which p and rho "
                       "are averaged (A_c = %s)" % (name, amp.key()[:120]))
            else:
                res.discharged += 1
                res.sample({'solver': FN, 'identity': '%s: c == A_c * (S_hi + S_lo)/2' % name})

    branch('rarefaction-fan', fan_last, True)
    branch('transition (partial cell)', tr_first, True)
    res.analysed.append(FN)
