"""C04 clause "the returned Riemann solution belongs to the initial data the user gave": the two public solvers
(`IGEOS_Solver`, `GenEOS_Solver`) hand their parameters to an inner problem object, run its driver and interpolate
the driver's arrays.  The conservation statement of C04 is about the user's left and right state, so

  (a) every attribute the inner object holds after construction is the wrapper's own parameter OF THE SAME NAME
      (`t`: the time of the call) -- decided on the value graph of wrapper constructor + the first part of `_run` +
      inner constructor, so keyword / positional passing, aliases and the inner constructor's own assignments are
      all followed;
  (b) each returned field interpolates, at the requested points, over the driver's own grid, the driver array of the
      quantity its standard name says (pressure: p, density: r, velocity: u, specific_internal_energy: e), and the
      driver stores under those attribute names its locals of the same name.

The driver itself is not executed here (its fans, shocks and wave table are C04's other rules).
"""
import ast

from ..model import AnalysisError, src_of
from ..report import Finding
from ..vg import Builder, Frame
from ..nf import NFEval

PROP = 'C04'
RULE = 'C04.delegation'
MOD = 'exactpack.solvers.riemann.ep_riemann'
FIELD_ATTR = {'pressure': 'p', 'density': 'r', 'velocity': 'u', 'specific_internal_energy': 'e'}
STATE = ('rl', 'ul', 'pl', 'gl', 'rr', 'ur', 'pr', 'gr')


def _driver_call(st, local_objs):
    if isinstance(st, ast.Expr) and isinstance(st.value, ast.Call) and isinstance(st.value.func, ast.Attribute) \
            and isinstance(st.value.func.value, ast.Name) and st.value.func.value.id in local_objs:
        return st.value.func.value.id, st.value.func.attr
    return None


def _tuple_quantities(fn, name, n):
    """`name` holds the running tuple of field arrays; it starts as (pl + 0*x, rl + 0*x, ul + 0*x, el + 0*x): the quantity
    at each position is named by the state variable it is initialised from."""
    for st in ast.walk(fn):
        if isinstance(st, ast.Assign) and len(st.targets) == 1 and isinstance(st.targets[0], ast.Name) \
                and st.targets[0].id == name.id and isinstance(st.value, ast.Tuple) and len(st.value.elts) == n:
            out = []
            for e in st.value.elts:
                ids = [x.id for x in ast.walk(e) if isinstance(x, ast.Name) and x.id in ('pl', 'rl', 'ul', 'el', 'pr', 'rr', 'ur', 'er')]
                if len(set(ids)) != 1:
                    break
                out.append(ast.copy_location(ast.Name(id=ids[0][0], ctx=ast.Load()), name))
            else:
                return out
    return [name] * n


def wrappers(model, res, prop=PROP, rule=RULE):
    done = 0
    for wname in ('IGEOS_Solver', 'GenEOS_Solver'):
        cls = model.get_class('%s:%s' % (MOD, wname))
        runm = cls.find_method('_run')
        if runm is None:
            raise AnalysisError('%s._run vanished' % wname)
        keys = list(model.parameters_keys(cls) or [])
        b = Builder(model)
        objn, _ = b.run_solver(cls, run=False)
        args = [a.arg for a in runm.node.args.args]
        if len(args) != 3:
            raise AnalysisError('%s._run no longer takes (self, x, t)' % wname)
        xn, tn = b.make_input('x'), b.make_input('t')
        b.frame = Frame(runm, cls.module, {args[0]: objn, args[1]: xn, args[2]: tn}, self_obj=objn, cls=cls)
        inner = None
        ret = None
        for st in runm.node.body:
            objs = {k for k, v in b.frame.locals.items() if v is not None and v.kind == 'obj' and v is not objn}
            dc = _driver_call(st, objs)
            if dc is not None:
                name, meth = dc
                inner = b.frame.locals[name]
                icls = inner.val.cls
                drv = icls.find_method(meth)
                if drv is None:
                    raise AnalysisError('%s has no method %s' % (icls.name, meth))
                # (0) the driver is handed the user's points: it appends them to its grid, so the values returned at those
                # points are evaluated there; without them every point is interpolated from a grid that does not follow the
                # waves, and the cell that holds a shock or the contact returns a blend of the two states
                dparams = [a.arg for a in drv.node.args.args][1:]
                if dparams:
                    handed = [b.eval(a) for a in st.value.args] + [b.eval(k.value) for k in st.value.keywords]
                    res.obligations += 1
                    res.evaluations += 1
                    res.nontrivial += 1
                    if any(v is xn for v in handed):
                        res.discharged += 1
                    else:
                        res.add(Finding(prop, rule, runm.module.relpath, runm.qualname, "%s: driver is not given the points" % wname,
                                        "%s._run calls `%s` without the requested points although %s.%s takes them (`%s`) and its sibling "
                                        "solver passes them: the fields are then interpolated from the driver's fixed grid, and a point in "
                                        "the grid cell that holds a shock or the contact gets a blend of the two states (at t = 0.0025 the "
                                        "default Sod problem returns density 0.134 just behind the shock instead of 0.266)"
                                        % (wname, src_of(st.value)[:40], icls.name, meth, dparams[0]),
                                        line=st.lineno, construct=src_of(st)[:100]))
                # (a) the problem object as constructed
                h = b.heap[inner.val.oid]
                for k in keys:
                    if k not in h or k == 't':
                        continue
                    res.obligations += 1
                    res.evaluations += 1
                    res.nontrivial += 1
                    v = h[k]
                    ok = v is not None and v.kind == 'param' and v.val == k
                    if ok:
                        res.discharged += 1
                        res.sample({'rule': rule, 'wrapper': wname, 'identity': '%s.%s is the parameter %s' % (icls.name, k, k)}, limit=50)
                    else:
                        o = v.origin[1] if v is not None and v.origin else None
                        res.add(Finding(prop, rule, runm.module.relpath, runm.qualname, "%s: inner attribute '%s'" % (wname, k),
                                        "%s._run: the %s problem object is set up with %s = %s instead of the solver's own parameter "
                                        "%s: the returned solution is the solution of a different Riemann problem than the one the user "
                                        "specified (its integrals are not those of the user's initial data)"
                                        % (wname, icls.name, k, ('the parameter ' + str(v.val)) if v is not None and v.kind == 'param'
                                           else ('`%s`' % src_of(o)[:60] if o is not None else 'another value'), k),
                                        line=getattr(o, 'lineno', st.lineno), construct=src_of(o)[:100] if o is not None else src_of(st)[:100]))
                if 'rl' not in h or sum(1 for k in STATE if k in h) != len(STATE):
                    raise AnalysisError('%s: the %s object does not hold the eight state attributes' % (wname, icls.name))
                res.obligations += 1
                res.evaluations += 1
                res.nontrivial += 1
                tv = h.get('t')
                if tv is tn:
                    res.discharged += 1
                else:
                    res.add(Finding(prop, rule, runm.module.relpath, runm.qualname, "%s: inner attribute 't'" % wname,
                                    "%s._run: the %s problem object is not given the time of the call" % (wname, icls.name),
                                    line=st.lineno, construct=src_of(st)[:100]))
                # the driver's results: opaque arrays, one per attribute it stores
                stored = {}
                for s2 in ast.walk(drv.node):
                    if isinstance(s2, ast.Assign):
                        for tg in s2.targets:
                            if isinstance(tg, ast.Tuple) and isinstance(s2.value, ast.Tuple) and len(tg.elts) == len(s2.value.elts):
                                pairs = list(zip(tg.elts, s2.value.elts))
                            elif isinstance(tg, ast.Tuple) and isinstance(s2.value, ast.Name):
                                pairs = list(zip(tg.elts, _tuple_quantities(drv.node, s2.value, len(tg.elts))))
                            else:
                                pairs = [(tg, s2.value)]
                            for a, v in pairs:
                                if isinstance(a, ast.Attribute) and isinstance(a.value, ast.Name) and a.value.id == 'self':
                                    stored.setdefault(a.attr, []).append(v)
                for a in ['x'] + sorted(FIELD_ATTR.values()):
                    if a not in stored:
                        raise AnalysisError('%s.%s no longer stores self.%s' % (icls.name, meth, a))
                    res.obligations += 1
                    res.evaluations += 1
                    res.nontrivial += 1
                    if all(isinstance(v, ast.Name) and v.id == a for v in stored[a]):
                        res.discharged += 1
                    else:
                        res.add(Finding(prop, rule, drv.module.relpath, drv.qualname, "%s.%s stores self.%s" % (icls.name, meth, a),
                                        "%s.%s stores `%s` as self.%s: the array the public solver interpolates as '%s' is another quantity"
                                        % (icls.name, meth, src_of(stored[a][0])[:40], a, a), line=stored[a][0].lineno,
                                        construct='self.%s = %s' % (a, src_of(stored[a][0])[:40])))
                hh = dict(b.heap[inner.val.oid])
                for a in stored:
                    hh[a] = b.mk('input', 'prob.%s' % a)
                b.heap[inner.val.oid] = hh
                continue
            if isinstance(st, ast.Return):
                ret = b.eval(st.value)
                break
            b.exec_stmt(st)
        if inner is None or ret is None:
            raise AnalysisError('%s._run: inner problem object / return not found' % wname)
        if ret.kind != 'call' or not ret.args or ret.args[0].kind != 'list':
            raise AnalysisError('%s._run: unexpected return shape' % wname)
        names = ret.kw.get('names')
        if names is None or not all(a.kind == 'const' for a in names.args):
            raise AnalysisError('%s._run: field names are not literal' % wname)
        byname = dict(zip([a.val for a in names.args], ret.args[0].args))
        hh = b.heap[inner.val.oid]
        for f, a in FIELD_ATTR.items():
            if f not in byname:
                raise AnalysisError("%s._run: field '%s' not returned" % (wname, f))
            v = byname[f]
            res.obligations += 1
            res.evaluations += 1
            res.nontrivial += 1
            ok = v.kind == 'call' and v.val == 'numpy.interp' and len(v.args) == 3 and v.args[0] is xn \
                and v.args[1] is hh['x'] and v.args[2] is hh[a]
            if ok:
                res.discharged += 1
                res.sample({'rule': rule, 'wrapper': wname, 'identity': "'%s' == interp(points, prob.x, prob.%s)" % (f, a)}, limit=50)
            else:
                o = v.origin[1] if v.origin else None
                res.add(Finding(prop, rule, runm.module.relpath, runm.qualname, "%s: field '%s'" % (wname, f),
                                "%s._run: the field '%s' is not the driver's array %s interpolated from the driver's grid to the "
                                "requested points (it is `%s`)" % (wname, f, a, src_of(o)[:70] if o is not None else '?'),
                                line=getattr(o, 'lineno', runm.node.lineno), construct=src_of(o)[:100] if o is not None else 'return'))
        done += 1
    if done != 2:
        raise AnalysisError('Riemann wrappers analysed: %d (confirmed: 2)' % done)
