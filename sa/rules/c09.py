"""C09 -- mirror, Galilean and rigid symmetry (DESIGN 3, C09)."""
from ..model import AnalysisError
from ..report import Result, Finding
from ..vg import Builder, Frame, Node
from ..nf import NFEval, NAN, leaves, Struct
from . import c09_sym

LEVEL = 'other'
PROP = 'C09'

STATE = ['rl', 'pl', 'ul', 'gl', 'rr', 'pr', 'ur', 'gr']
OTHER = ['A', 'B', 'R1', 'R2', 'r0', 'e0', 'problem', 'num_int_pts', 'num_x_pts', 'int_tol', 'xmin', 'xd0', 'xmax',
         't', 'pmax', 'al', 'ar']
UTILS = 'exactpack.solvers.riemann.utils'
RIEMANN = 'exactpack.solvers.riemann.riemann:RiemannIGEOS'


def mirrored_prefill(b):
    """Attribute values of the mirrored problem: l <-> r exchanged, velocities negated."""
    pre = {}
    for a in STATE:
        other = a[:-1] + ('r' if a.endswith('l') else 'l')
        n = b.mk('param', other)
        if a[0] == 'u':
            n = b.mk('unop', '-', [n])
        pre[a] = n
    return pre


def eval_fn(model, fname, mirrored, extra_args=()):
    b = Builder(model)
    b.frame = Frame(None, model.modules[UTILS], {}, None)
    cls = model.get_class(RIEMANN)
    pre = mirrored_prefill(b) if mirrored else None
    inst = b.symbolic_obj(cls, STATE + OTHER, pre)
    p = b.mk('input', 'p')
    fi = model.get_func('%s:%s' % (UTILS, fname))
    res = b.run_function(fi, [p, inst] + list(extra_args))
    return b, res


def zero_everywhere(ev, x):
    for conds, leaf in leaves(x):
        if leaf is NAN:
            continue
        if isinstance(leaf, Struct) or not ev.is_zero(leaf):
            return False, (conds, leaf)
    return True, None


def mirror_pairs(model, res):
    """M(RCS) == +-SCR, M(SCS) == +-SCS, M(RCR) == +-RCR as normal forms."""
    pairs = [('RCS_call', 'SCR_call'), ('SCS_call', 'SCS_call'), ('RCR_call', 'RCR_call')]
    for f, g in pairs:
        b1, r1 = eval_fn(model, f, True)       # M(f)
        b2, r2 = eval_fn(model, g, False)      # g
        ev = NFEval(STATE + OTHER)
        n1, n2 = ev.nf(r1), ev.nf(r2)
        res.obligations += 1
        res.evaluations += 1
        res.nontrivial += 1
        same, w1 = zero_everywhere(ev, ev.add(n1, n2, -1))
        opp, w2 = zero_everywhere(ev, ev.add(n1, n2))
        fi = model.get_func('%s:%s' % (UTILS, g))
        if same or opp:
            res.discharged += 1
            res.sample({'rule': 'C09.mirror', 'pair': 'M(%s) == %s%s' % (f, '' if same else '-', g),
                        'normal_form': n2.key()[:160]}, limit=8)
        else:
            conds, leaf = w1
            res.add(Finding(PROP, 'C09.mirror', fi.module.relpath, fi.qualname,
                            'M(%s) vs %s' % (f, g),
                            "star-state equation %s is not the mirror image of %s: exchanging the two states and "
                            "negating the velocities in %s gives neither %s nor its negative, so the mirrored "
                            "Riemann problem does not get the mirrored star pressure (difference: %s)"
                            % (g, f, f, g, leaf.key()[:240]),
                            line=fi.node.lineno, construct='def %s' % g))


def run(model, tier):
    res = Result(PROP)
    res.explanation = (
        'R9.1 mirror consistency of sibling implementations: each star-state equation (RCS, SCR, RCR, SCS) is '
        'interpreted on the value graph for a fully symbolic left/right state and for the mirrored state '
        '(l<->r exchanged, velocities negated); the monomial normal forms must satisfy M(RCS) = +-SCR, '
        'M(SCS) = +-SCS, M(RCR) = +-RCR (a root equation may change overall sign). A difference means that for '
        'some pair of states the mirrored problem does not yield the mirrored star state. '
        'R9.2/R9.3 symmetry typing (Galilean shift weights for the ideal-gas Riemann solver; rotation/translation '
        'types for the burn-time solvers): see c09_sym.')
    res.rule_text = 'instance = one sibling pair / one typed function; non-trivial = normal forms with at least two atoms'
    res.trusted_base = ['CPython ast', 'sympy FracField', 'builder inlining of the wave-curve helpers']
    mirror_pairs(model, res)
    classifier_mirror(model, res)
    side_consistency(model, res)
    side_tests(model, res)
    region_table_mirror(model, res)
    c09_sym.check(model, res, tier)
    return res


# ---------------------------------------------------------------------------
# R9.1b  left/right bookkeeping of the Riemann drivers

SIDE = {'rl': 'l', 'pl': 'l', 'ul': 'l', 'gl': 'l', 'al': 'l', 'el': 'l',
        'rr': 'r', 'pr': 'r', 'ur': 'r', 'gr': 'r', 'ar': 'r', 'er': 'r'}
STATE_ARGS = {'p', 'r', 'u', 'g', 'p0', 'r0', 'u0', 'g0'}


def data_side(node):
    """Sides (l / r) of the initial-state parameters the VALUE is computed from
    (index expressions and branch conditions are not followed: a right-going
    table selected by a star-state index is still a right-side quantity)."""
    sides, seen, stack = set(), set(), [node]
    while stack:
        n = stack.pop()
        if n is None or n.nid in seen:
            continue
        seen.add(n.nid)
        if n.kind == 'param' and n.val in SIDE:
            sides.add(SIDE[n.val])
            continue
        if n.ho is not None:
            continue            # star pressure etc.: depends on both sides by nature
        if n.kind == 'phi':
            stack.extend(n.args[1:])
        elif n.kind == 'sub':
            stack.append(n.args[0])
        elif n.kind == 'store':
            stack.extend([n.args[0], n.args[2]])
        elif n.kind == 'call' and n.val in ('numpy.where',) and len(n.args) == 3:
            stack.extend(n.args[1:])
        elif n.kind == 'call' and n.val in ('numpy.interp',) and len(n.args) >= 3:
            stack.append(n.args[2])
        else:
            stack.extend(a for a in n.args if a is not None)
            stack.extend(n.kw.values())
    return sides


def side_consistency(model, res, prop=PROP, rule='C09.side-consistency', callees=None, min_calls=20, why=None):
    """Every call of a wave-curve / state helper made by the two Riemann drivers
    receives its (p, r, u, g) state from ONE side: e.g. shock_velocity(px, pr, rr, ur, gr)."""
    from ..vg import Closure
    n_calls = 0
    why = why or ("the wave on one side is computed with the other gas's data, which breaks mirror symmetry (and the "
                  "EOS link / agreement with the other solver) whenever the two states differ in that component")
    for cname in ('exactpack.solvers.riemann.riemann:RiemannIGEOS', 'exactpack.solvers.riemann.riemann:RiemannGenEOS'):
        cls = model.get_class(cname)
        fi = cls.methods.get('driver')
        if fi is None:
            raise AnalysisError('%s.driver vanished' % cname)
        b = Builder(model)
        b.frame = Frame(None, cls.module, {}, None)
        inst = b.symbolic_obj(cls, STATE + OTHER)
        xu = b.mk('input', 'x_user')
        clo = Closure(fi, fi.node, None, self_node=inst, cls=cls, module=cls.module)
        b.call_closure(clo, [xu], {}, fi.node)
        for at, callee, args, caller in b.call_log:
            if callee.module.name != UTILS or caller is None:
                continue
            if callees is not None and callee.name not in callees:
                continue
            if caller is not fi and getattr(caller, 'parent', None) is not fi:
                continue
            names = [a.arg for a in callee.node.args.args]
            per_arg = {}
            for nm, a in zip(names, args):
                if nm in STATE_ARGS:
                    s = data_side(a)
                    if s:
                        per_arg[nm] = s
            if len(per_arg) < 2:
                continue
            n_calls += 1
            res.obligations += 1
            res.evaluations += 1
            res.nontrivial += 1
            pure = {nm: next(iter(s)) for nm, s in per_arg.items() if len(s) == 1}
            if len(set(pure.values())) > 1:
                res.add(Finding(prop, rule, fi.module.relpath, caller.qualname if caller.parent is None else fi.qualname,
                                '%s: %s(%s)' % (cls.name, callee.name, ', '.join('%s:%s' % (k, pure[k]) for k in sorted(pure))),
                                "%s.driver calls %s with a state whose components come from different sides (%s): %s"
                                % (cls.name, callee.name, ', '.join('%s from the %s state' % (k, {'l': 'left', 'r': 'right'}[v])
                                                                   for k, v in sorted(pure.items())), why),
                                line=getattr(at, 'lineno', 0), construct=src_of_call(at)))
            else:
                res.discharged += 1
    if n_calls < min_calls:
        raise AnalysisError('only %d helper calls with a one-sided state recognised in the Riemann drivers (confirmed >= %d)'
                            % (n_calls, min_calls))
    res.extra['riemann_helper_calls_checked_' + rule] = n_calls


def src_of_call(at):
    import ast as _ast
    try:
        return _ast.unparse(at)[:120]
    except Exception:
        return 'call'


def side_tests(model, res):
    """The repo's idiom for 'is this the left state?' compares pressure, density AND velocity with the
    stored left state (5 sites); a test that compares fewer components mistakes a right state with equal
    p and rho for the left one."""
    import ast as _ast
    mod = model.modules[UTILS]
    sites = 0
    for fi in mod.functions.values():
        for st in _ast.walk(fi.node):
            if isinstance(st, _ast.IfExp):
                comps = {}
                for c in _ast.walk(st.test):
                    if isinstance(c, _ast.Compare) and len(c.ops) == 1 and isinstance(c.ops[0], _ast.Eq):
                        r = c.comparators[0]
                        if isinstance(r, _ast.Attribute) and isinstance(r.value, _ast.Name) and r.value.id == 'inst' \
                                and r.attr in ('pl', 'rl', 'ul', 'pr', 'rr', 'ur'):
                            comps[r.attr] = c
                if not comps:
                    continue
                sites += 1
                res.obligations += 1
                res.evaluations += 1
                side = {a[-1] for a in comps}
                kinds = {a[0] for a in comps}
                # ... and value equality of (p, rho, u) cannot tell the sides apart when they differ in gamma only
                gam = any(isinstance(c, _ast.Compare) and len(c.ops) == 1 and isinstance(c.ops[0], _ast.Eq)
                          and isinstance(c.comparators[0], _ast.Attribute) and c.comparators[0].attr in ('gl', 'gr')
                          for c in _ast.walk(st.test))
                res.obligations += 1
                res.evaluations += 1
                if gam:
                    res.discharged += 1
                else:
                    res.add(Finding(PROP, 'C09.side-test', fi.module.relpath, fi.qualname,
                                    '%s: side inferred from (p, rho, u) only' % fi.name,
                                    "%s infers which side a state belongs to from value equality of pressure, density and velocity with "
                                    "the stored left state.  The two sides may differ in the adiabatic index alone (documented as "
                                    "allowed): the right state is then taken for the left one, its wave gets the sign of the other family "
                                    "and the solution is neither the exact one nor mirror-symmetric" % fi.name,
                                    line=st.lineno, construct=src_of_call(st.test)))
                if len(side) == 1 and kinds == {'p', 'r', 'u'}:
                    res.discharged += 1
                else:
                    res.add(Finding(PROP, 'C09.side-test', fi.module.relpath, fi.qualname,
                                    '%s: side test compares %s' % (fi.name, sorted(comps)),
                                    "%s decides whether a state is the %s one by comparing only %s with the stored state; "
                                    "every sibling compares pressure, density and velocity: two sides with equal %s are "
                                    "confused and the wave gets the wrong direction (mirror symmetry broken)"
                                    % (fi.name, 'left' if side == {'l'} else 'stored', sorted(comps),
                                       ' and '.join(sorted(kinds))), line=st.lineno, construct=src_of_call(st.test)))
    if sites < 5:
        raise AnalysisError('only %d side tests found in riemann/utils.py (confirmed: 5)' % sites)


MIRROR_NAMES = {'ul': ('ur', -1), 'ur': ('ul', -1), 'al': ('ar', 1), 'ar': ('al', 1), 'ux': ('ux', -1),
                'ax1': ('ax2', 1), 'ax2': ('ax1', 1), 'Vs': ('Vs', -1), 'Vsl': ('Vsr', -1), 'Vsr': ('Vsl', -1)}
MIRROR_TYPES = {'SCS': 'SCS', 'RCR': 'RCR', 'SCR': 'RCS', 'RCS': 'SCR'}


def region_table_mirror(model, res):
    """The table of wave speeds `Vregs` that bounds the regions of the ideal-gas solution: the table of
    the mirrored wave pattern, written in the mirrored quantities (ul <-> -ur, al <-> ar, ux -> -ux,
    ax1 <-> ax2, shock speeds negated and exchanged), is the negated table read backwards.
    A head or tail placed with a velocity of the wrong side breaks this for unequal velocities."""
    import ast as _ast
    import sympy as sp
    cls = model.get_class(RIEMANN)
    fi = cls.methods.get('driver')
    if fi is None:
        raise AnalysisError('RiemannIGEOS.driver vanished')
    tables = {}
    for st in _ast.walk(fi.node):
        if not isinstance(st, _ast.If):
            continue
        t = st.test
        if not (isinstance(t, _ast.Compare) and isinstance(t.left, _ast.Name) and t.left.id == 'soln_type'
                and len(t.ops) == 1 and isinstance(t.ops[0], _ast.Eq) and isinstance(t.comparators[0], _ast.Constant)):
            continue
        key = str(t.comparators[0].value).split('-')[-1]
        for s2 in st.body:
            if isinstance(s2, _ast.Assign) and len(s2.targets) == 1 and isinstance(s2.targets[0], _ast.Name) \
                    and s2.targets[0].id == 'Vregs' and isinstance(s2.value, _ast.Call) and s2.value.args \
                    and isinstance(s2.value.args[0], (_ast.List, _ast.Tuple)):
                tables[key] = (s2, s2.value.args[0].elts)
    if set(tables) != set(MIRROR_TYPES):
        raise AnalysisError('Vregs tables found for %s (expected SCS, SCR, RCS, RCR)' % sorted(tables))

    def conv(e, mirrored):
        if isinstance(e, _ast.Name):
            if mirrored:
                if e.id not in MIRROR_NAMES:
                    raise AnalysisError('Vregs uses %s: no mirror image known' % e.id)
                nm, sg = MIRROR_NAMES[e.id]
                return sg * sp.Symbol(nm)
            return sp.Symbol(e.id)
        if isinstance(e, _ast.Constant) and isinstance(e.value, (int, float)):
            return sp.nsimplify(e.value)
        if isinstance(e, _ast.UnaryOp) and isinstance(e.op, _ast.USub):
            return -conv(e.operand, mirrored)
        if isinstance(e, _ast.BinOp) and isinstance(e.op, (_ast.Add, _ast.Sub, _ast.Mult, _ast.Div)):
            a, b2 = conv(e.left, mirrored), conv(e.right, mirrored)
            return {_ast.Add: a + b2, _ast.Sub: a - b2, _ast.Mult: a * b2, _ast.Div: a / b2}[type(e.op)]
        raise AnalysisError('unsupported expression in a Vregs table: %s' % _ast.unparse(e))

    # each characteristic speed u -+ a takes velocity and sound speed from ONE state, minus for the
    # left-running family (left state / left star state), plus for the right-running one
    FAMILY = {('ul', 'al'): '-', ('ur', 'ar'): '+', ('ux', 'ax1'): '-', ('ux', 'ax2'): '+'}
    for key, (st, elts) in sorted(tables.items()):
        for e in elts:
            if isinstance(e, _ast.BinOp) and isinstance(e.op, (_ast.Add, _ast.Sub)) and isinstance(e.left, _ast.Name) \
                    and isinstance(e.right, _ast.Name) and e.right.id in ('al', 'ar', 'ax1', 'ax2'):
                res.obligations += 1
                res.evaluations += 1
                res.nontrivial += 1
                want = FAMILY.get((e.left.id, e.right.id))
                got = '+' if isinstance(e.op, _ast.Add) else '-'
                if want == got:
                    res.discharged += 1
                else:
                    res.add(Finding(PROP, 'C09.side-consistency', fi.module.relpath, fi.qualname,
                                    'Vregs[%s]: %s' % (key, _ast.unparse(e)),
                                    "RiemannIGEOS.driver: the characteristic speed `%s` in the %s table combines a velocity and "
                                    "a sound speed of different states, or with the sign of the other wave family (expected "
                                    "ul - al, ux - ax1, ux + ax2, ur + ar)" % (_ast.unparse(e), key),
                                    line=e.lineno, construct=_ast.unparse(e)))
    for key, other in MIRROR_TYPES.items():
        st, elts = tables[key]
        ost, oelts = tables[other]
        res.obligations += 1
        res.evaluations += 1
        res.nontrivial += 1
        bad = None
        if len(elts) != len(oelts):
            bad = 'tables of different length'
        else:
            n = len(elts)
            for i in range(n):
                if sp.expand(conv(elts[i], True) + conv(oelts[n - 1 - i], False)) != 0:
                    bad = "entry %d `%s` is not the mirror image of entry %d `%s` of the %s table" % (
                        i, _ast.unparse(elts[i]), n - 1 - i, _ast.unparse(oelts[n - 1 - i]), other)
                    break
        if bad is None:
            res.discharged += 1
            res.sample({'rule': 'C09.mirror', 'pair': 'M(Vregs[%s]) == -reversed(Vregs[%s])' % (key, other)}, limit=16)
        else:
            res.add(Finding(PROP, 'C09.mirror', fi.module.relpath, fi.qualname, 'Vregs[%s] vs Vregs[%s]' % (key, other),
                            "RiemannIGEOS.driver: the wave-speed table of the %s pattern is not the mirror image of the %s "
                            "table (%s): a problem and its mirror image place a wave front at positions that are not "
                            "reflections of each other" % (key, other, bad), line=st.lineno, construct=_ast.unparse(st)[:120]))


def classifier_mirror(model, res):
    """The wave-pattern boundaries u_NCS / u_NCR are the mirror images of u_SCN / u_RCN:
    (u_NCS(pr) - ul) of a problem equals (u_SCN(pr') - ul') of the mirrored problem."""
    pairs = [('u_SCN', 'u_NCS'), ('u_RCN', 'u_NCR')]
    cls = model.get_class(RIEMANN)
    mod = model.modules[UTILS]
    for fl, fr in pairs:
        vals = []
        for fname, mirrored in ((fr, False), (fl, True)):
            b = Builder(model)
            b.frame = Frame(None, mod, {}, None)
            pre = mirrored_prefill(b) if mirrored else {}
            inst = b.symbolic_obj(cls, STATE + OTHER, pre)
            h = b.heap[inst.val.oid]
            # al, ar as the constructor defines them
            ss = model.get_func('%s:sound_speed' % UTILS)
            for side in ('l', 'r'):
                b.frame = Frame(None, mod, {}, None)
                av = b.run_function(ss, [b.get_attr(inst, 'p' + side), b.get_attr(inst, 'r' + side),
                                         b.get_attr(inst, 'g' + side), inst])
                b.heap[inst.val.oid]['a' + side] = av     # (the heap dict is replaced at every join)
            b.frame = Frame(None, mod, {}, None)
            px = b.get_attr(inst, 'pr')
            fi = model.get_func('%s:%s' % (UTILS, fname))
            r = b.run_function(fi, [px, inst])
            ul = b.get_attr(inst, 'ul')
            vals.append((b, b.mk('binop', '-', [r, ul])))
        ev = NFEval(STATE + OTHER)
        n1, n2 = ev.nf(vals[0][1]), ev.nf(vals[1][1])
        res.obligations += 1
        res.evaluations += 1
        res.nontrivial += 1
        same, w = zero_everywhere(ev, ev.add(n1, n2, -1))
        fi = model.get_func('%s:%s' % (UTILS, fr))
        if same:
            res.discharged += 1
            res.sample({'rule': 'C09.mirror', 'pair': '%s(pr) - ul == M(%s(pr) - ul)' % (fr, fl)}, limit=12)
        else:
            res.add(Finding(PROP, 'C09.mirror', fi.module.relpath, fi.qualname, 'classifier M(%s) vs %s' % (fl, fr),
                            "wave-pattern boundary %s is not the mirror image of %s: the mirrored Riemann problem is "
                            "classified into a different wave pattern for some states (difference %s)"
                            % (fr, fl, w[1].key()[:200] if w else '?'), line=fi.node.lineno, construct='def %s' % fr))
