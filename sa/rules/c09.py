"""C09 -- mirror, Galilean and rigid symmetry (DESIGN 3, C09)."""
from ..model import AnalysisError
from ..report import Result, Finding
from ..vg import Builder, Frame, Node
from ..nf import NFEval, NAN, leaves, Struct
from . import c09_sym

LEVEL = 'other'
PROP = 'C09'

STATE = ['rl', 'pl', 'ul', 'gl', 'rr', 'pr', 'ur', 'gr']
OTHER = ['A', 'B', 'R1', 'R2', 'r0', 'e0', 'problem', 'num_int_pts', 'num_x_pts', 'int_tol', 'xmin', 'xd0', 'xmax',
         't', 'pmax', 'al', 'ar']
UTILS = 'exactpack.solvers.riemann.utils'
RIEMANN = 'exactpack.solvers.riemann.riemann:RiemannIGEOS'


def mirrored_prefill(b):
    """Attribute values of the mirrored problem: l <-> r exchanged, velocities negated."""
    pre = {}
    for a in STATE:
        other = a[:-1] + ('r' if a.endswith('l') else 'l')
        n = b.mk('param', other)
        if a[0] == 'u':
            n = b.mk('unop', '-', [n])
        pre[a] = n
    return pre


def eval_fn(model, fname, mirrored, extra_args=()):
    b = Builder(model)
    b.frame = Frame(None, model.modules[UTILS], {}, None)
    cls = model.get_class(RIEMANN)
    pre = mirrored_prefill(b) if mirrored else None
    inst = b.symbolic_obj(cls, STATE + OTHER, pre)
    p = b.mk('input', 'p')
    fi = model.get_func('%s:%s' % (UTILS, fname))
    res = b.run_function(fi, [p, inst] + list(extra_args))
    return b, res


def zero_everywhere(ev, x):
    for conds, leaf in leaves(x):
        if leaf is NAN:
            continue
        if isinstance(leaf, Struct) or not ev.is_zero(leaf):
            return False, (conds, leaf)
    return True, None


def mirror_pairs(model, res):
    """M(RCS) == +-SCR, M(SCS) == +-SCS, M(RCR) == +-RCR as normal forms."""
    pairs = [('RCS_call', 'SCR_call'), ('SCS_call', 'SCS_call'), ('RCR_call', 'RCR_call')]
    for f, g in pairs:
        b1, r1 = eval_fn(model, f, True)       # M(f)
        b2, r2 = eval_fn(model, g, False)      # g
        ev = NFEval(STATE + OTHER)
        n1, n2 = ev.nf(r1), ev.nf(r2)
        res.obligations += 1
        res.evaluations += 1
        res.nontrivial += 1
        same, w1 = zero_everywhere(ev, ev.add(n1, n2, -1))
        opp, w2 = zero_everywhere(ev, ev.add(n1, n2))
        fi = model.get_func('%s:%s' % (UTILS, g))
        if same or opp:
            res.discharged += 1
            res.sample({'rule': 'C09.mirror', 'pair': 'M(%s) == %s%s' % (f, '' if same else '-', g),
                        'normal_form': n2.key()[:160]}, limit=8)
        else:
            conds, leaf = w1
            res.add(Finding(PROP, 'C09.mirror', fi.module.relpath, fi.qualname,
                            'M(%s) vs %s' % (f, g),
                            "star-state equation %s is not the mirror image of %s: exchanging the two states and "
                            "negating the velocities in %s gives neither %s nor its negative, so the mirrored "
                            "Riemann problem does not get the mirrored star pressure (difference: %s)"
                            % (g, f, f, g, leaf.key()[:240]),
                            line=fi.node.lineno, construct='def %s' % g))


def run(model, tier):
    res = Result(PROP)
    res.explanation = (
        'R9.1 mirror consistency of sibling implementations: each star-state equation (RCS, SCR, RCR, SCS) is '
        'interpreted on the value graph for a fully symbolic left/right state and for the mirrored state '
        '(l<->r exchanged, velocities negated); the monomial normal forms must satisfy M(RCS) = +-SCR, '
        'M(SCS) = +-SCS, M(RCR) = +-RCR (a root equation may change overall sign). A difference means that for '
        'some pair of states the mirrored problem does not yield the mirrored star state. '
        'R9.2/R9.3 symmetry typing (Galilean shift weights for the ideal-gas Riemann solver; rotation/translation '
        'types for the burn-time solvers): see c09_sym.')
    res.rule_text = 'instance = one sibling pair / one typed function; non-trivial = normal forms with at least two atoms'
    res.trusted_base = ['CPython ast', 'sympy FracField', 'builder inlining of the wave-curve helpers']
    mirror_pairs(model, res)
    c09_sym.check(model, res, tier)
    return res
