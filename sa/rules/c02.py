"""C02 -- Rankine-Hugoniot relations at the closed-form jump sites.

The property as a whole quantifies over numbers that come out of root solves.  What
the shape of the code decides is narrower and is all this check claims:

  wherever a solver computes the state behind a discontinuity from the state ahead of
  it by an explicit formula (not by a numerical solve of the jump conditions), the
  formula, as written, satisfies the three jump conditions identically in its free
  variables (parameters, the star pressure, the pre-shock state) -- and where the
  star state is the root of an equation, that equation is the contact condition.

Every identity is a zero test in a normal form (monomial / rational / radical); no
formula is evaluated, nothing is solved.  Sites whose post-shock state is itself the
output of a numerical solve (elastic-plastic piston, black-box Noh, RMTV, the general
EOS bisection, the 2D oblique shocks) are listed as not decided.
"""
import ast

import sympy as sp

from ..model import AnalysisError, src_of
from ..report import Result, Finding
from ..vg import Builder, Frame, walk
from ..nf import NFEval, NAN, Mono, Sum, PW, Struct, leaves
from ..ratnf import NFSym
from ..radnf import RadNF, Unsupported

LEVEL = 'other'
PROP = 'C02'
MIN_SITES = 18


# ---------------------------------------------------------------------------
# generic: three jump conditions in the frame of the discontinuity

def rh_residuals(pre, post, speed, names=('mass', 'momentum', 'energy')):
    """pre/post: dict rho,u,p,e (sympy); speed: sympy.  Residuals post - pre of the three fluxes."""
    out = {}
    w0, w1 = pre['u'] - speed, post['u'] - speed
    out['mass'] = post['rho'] * w1 - pre['rho'] * w0
    out['momentum'] = post['p'] + post['rho'] * w1 ** 2 - pre['p'] - pre['rho'] * w0 ** 2
    out['energy'] = (post['e'] + post['p'] / post['rho'] + w1 ** 2 / 2) - (pre['e'] + pre['p'] / pre['rho'] + w0 ** 2 / 2)
    return {k: out[k] for k in names}


class Site:
    def __init__(self, res, name, fi, at, units=()):
        self.res, self.name, self.fi, self.at, self.units = res, name, fi, at, units

    def check(self, label, expr, what):
        res = self.res
        res.obligations += 1
        res.evaluations += 1
        res.nontrivial += 1
        try:
            ok = RadNF(self.units).is_zero(expr)
        except Unsupported as ex:
            raise AnalysisError('%s: %s not decidable in the radical normal form (%s)' % (self.name, label, ex))
        if ok:
            res.discharged += 1
            res.sample({'site': self.name, 'identity': label + ' == 0'}, limit=60)
            return True
        res.add(Finding(PROP, 'C02.jump', self.fi.module.relpath, self.fi.qualname,
                        '%s: %s' % (self.name, label),
                        "%s: %s. The %s balance across the discontinuity does not reduce to 0 for the formulas as "
                        "written (radical normal form of the flux difference is not the zero polynomial)"
                        % (self.name, what, label),
                        line=getattr(self.at, 'lineno', 0) or self.fi.node.lineno,
                        construct=src_of(self.at) if self.at is not None else 'def %s' % self.fi.name))
        return False


# ---------------------------------------------------------------------------
# site family 1: Guderley, similarity variables (V, C, R) of Lazarus

GUD = 'exactpack.solvers.guderley.ramsey'
GUD_RENAME = {'gamma_d': 'gamma', 'lambda_d': 'lambda_', 'n': 'ngeom'}


def similarity_residuals(pre, post, g):
    """Lazarus variables: the flow speed relative to a discontinuity at fixed x is proportional to
    (1 + V), C is the scaled sound speed (C^2 = gamma p / rho), R the scaled density."""
    w0, w1 = 1 + pre[0], 1 + post[0]
    return {
        'mass': post[2] * w1 - pre[2] * w0,
        'momentum': post[2] * (w1 ** 2 + post[1] ** 2 / g) - pre[2] * (w0 ** 2 + pre[1] ** 2 / g),
        'energy': (w1 ** 2 / 2 + post[1] ** 2 / (g - 1)) - (w0 ** 2 / 2 + pre[1] ** 2 / (g - 1)),
    }


def guderley_sites(model, res):
    n_ic = n_jump = 0
    for fname in ('Guderley', 'state'):
        fi = model.get_func('%s:%s' % (GUD, fname))
        b = Builder(model)
        b.frame = Frame(None, fi.module, {}, None)
        args = [b.mk('param', GUD_RENAME.get(a.arg, a.arg)) for a in fi.node.args.args]
        b.run_function(fi, args)
        ev = NFEval(['gamma'])
        sy = NFSym(ev)
        g = sy.conv(ev.atom('param:gamma'))
        stores = [n for n in b.trace if n.kind == 'store']
        # state vectors: store chains handed to an integrator / to a repository function
        passed = set()
        for n in b.trace:
            if n.kind == 'call':
                passed.update(a.nid for a in n.args if isinstance(a, type(n)))
                passed.update(a.nid for a in n.kw.values() if isinstance(a, type(n)))
        for at, callee, cargs, caller in b.call_log:
            passed.update(a.nid for a in cargs)
        seen = set()
        for top in stores:
            if top.nid not in passed:
                continue
            entries, x = {}, top
            while x.kind == 'store':
                i = x.args[1]
                if i.kind == 'const' and isinstance(i.val, int) and i.val not in entries:
                    entries[i.val] = x
                x = x.args[0]
            if set(entries) != {0, 1, 2}:
                continue
            base = x
            if base.kind == 'call' and base.val == 'numpy.zeros':
                kind = 'initial state behind the converging strong shock (x = -1)'
                pre = (sp.Integer(0), sp.Integer(0), sp.Integer(1))
            elif base.kind in ('sub', 'attr', 'mcall'):
                kind = 'jump across the reflected shock (x = B)'
                bk = ev.nf(base)
                pre = tuple(sy.conv(ev.nf(b.mk('sub', args=[base, b.const(i)]))) for i in range(3))
            else:
                continue
            post_nf = [ev.nf(entries[i].args[2]) for i in range(3)]
            if any(x is NAN or isinstance(x, (PW, Struct)) for x in post_nf):
                raise AnalysisError('%s: similarity state of %s did not resolve to closed forms' % (fname, kind))
            key = tuple(x.key() for x in post_nf)
            if (kind, key) in seen:
                continue
            seen.add((kind, key))
            post = tuple(sy.conv(x) for x in post_nf)
            at = entries[2].origin[1]
            site = Site(res, 'guderley.%s: %s' % (fname, kind), fi, at, sy.units)
            if kind.startswith('initial'):
                n_ic += 1
            else:
                n_jump += 1
            for label, expr in similarity_residuals(pre, post, g).items():
                site.check(label, expr, 'state (V, C, R) ahead -> behind in Lazarus similarity variables, relative flow '
                                        'speed proportional to 1 + V')
    if n_ic < 2 or n_jump < 1:
        raise AnalysisError('Guderley jump sites vanished (initial states: %d, reflected-shock jumps: %d)' % (n_ic, n_jump))
    return n_ic + n_jump


# ---------------------------------------------------------------------------
# site family 2: ideal-gas Riemann solver (riemann/utils.py wave curves + RiemannIGEOS.driver)

UTILS = 'exactpack.solvers.riemann.utils'
RIEMANN = 'exactpack.solvers.riemann.riemann:RiemannIGEOS'
STATE = ['rl', 'pl', 'ul', 'gl', 'rr', 'pr', 'ur', 'gr']
OTHER = ['A', 'B', 'R1', 'R2', 'r0', 'e0', 'num_int_pts', 'num_x_pts', 'int_tol', 'xmin', 'xd0', 'xmax', 't', 'pmax']


def _leaf(ev, x, want_true, what):
    """Select the piece of a side-test piecewise value: the all-true leaf (the state IS the left
    state) or the common value of every other leaf."""
    ls = leaves(x)
    if len(ls) == 1:
        return ls[0][1]
    if want_true:
        for conds, leaf in ls:
            if all(pol for _, pol, _ in conds):
                return leaf
        raise AnalysisError('%s: no all-true piece' % what)
    rest = [leaf for conds, leaf in ls if not all(pol for _, pol, _ in conds)]
    keys = {l.key() for l in rest if l is not NAN}
    if len(keys) != 1:
        raise AnalysisError('%s: pieces for a non-left state differ' % what)
    return rest[0]


def igeos_sites(model, res):
    cls = model.get_class(RIEMANN)
    mod = model.modules[UTILS]
    b = Builder(model)
    b.frame = Frame(None, mod, {}, None)
    inst = b.symbolic_obj(cls, STATE + OTHER, {'problem': None})
    b.heap[inst.val.oid]['problem'] = b.const('igeos')
    px = b.mk('param', 'px')
    zero = b.const(0)

    def attr(nm):
        return b.get_attr(inst, nm)

    def call(fname, *args):
        fi = model.get_func('%s:%s' % (UTILS, fname))
        b.frame = Frame(None, mod, {}, None)
        return b.run_function(fi, list(args) + [inst])

    ev = NFEval(STATE + OTHER + ['px'])
    sy = NFSym(ev)

    def S(node, want_true=None, what=''):
        x = ev.nf(node)
        if want_true is not None:
            x = _leaf(ev, x, want_true, what)
        if x is NAN or isinstance(x, (PW, Struct)):
            raise AnalysisError('%s did not resolve to a closed form' % what)
        return sy.conv(x)

    sites = 0
    wave = {}
    for side, left in (('l', True), ('r', False)):
        p, r, u, g = (attr(k + side) for k in 'prug')
        shock_u = call('shock', px, p, r, zero, g)              # (px - p) sqrt(A/(px + B))
        rare_u = call('rarefaction', px, p, r, zero, g)
        sign = -1 if left else 1
        ux_s = S(u) + sign * S(shock_u, None, 'shock()')
        ux_r = S(u) - sign * S(rare_u, None, 'rarefaction()')
        wave[side] = {'S': ux_s, 'R': ux_r}
        rx = call('rho_star_shock', px, p, r, g)
        vs = call('shock_velocity', px, p, r, u, g)
        e0 = call('sie', p, r, g)
        ex = call('sie', px, rx, g)
        pre = {'rho': S(r), 'u': S(u), 'p': S(p), 'e': S(e0, None, 'sie')}
        post = {'rho': S(rx, None, 'rho_star_shock'), 'u': ux_s, 'p': S(px), 'e': S(ex, None, 'sie')}
        speed = S(vs, left, 'shock_velocity side test')
        fi = model.get_func('%s:shock_velocity' % UTILS)
        site = Site(res, 'riemann IGEOS: %s-facing shock (shock / rho_star_shock / shock_velocity as functions of the star '
                         'pressure)' % ('left' if left else 'right'), fi, fi.node, sy.units)
        sites += 1
        for label, expr in rh_residuals(pre, post, speed).items():
            site.check(label, expr, 'state (%s) -> star state for every star pressure px' % ', '.join(k + side for k in 'rup'))
    # contact: the equation whose root is the star pressure is u*_right(p) - u*_left(p)
    for fname, (lt, rt) in (('SCS_call', ('S', 'S')), ('RCS_call', ('R', 'S')), ('SCR_call', ('S', 'R')),
                            ('RCR_call', ('R', 'R'))):
        fi = model.get_func('%s:%s' % (UTILS, fname))
        b.frame = Frame(None, mod, {}, None)
        val = S(b.run_function(fi, [px, inst]), None, fname)
        want = wave['r'][rt] - wave['l'][lt]
        res.obligations += 1
        res.evaluations += 1
        res.nontrivial += 1
        sites += 1
        rn = RadNF(sy.units)
        if rn.is_zero(val - want) or RadNF(sy.units).is_zero(val + want):
            res.discharged += 1
            res.sample({'site': 'riemann IGEOS contact', 'identity': '%s(p) == +-(u*_right[%s](p) - u*_left[%s](p))'
                        % (fname, rt, lt)}, limit=60)
        else:
            res.add(Finding(PROP, 'C02.contact', fi.module.relpath, fi.qualname, '%s is not the contact condition' % fname,
                            "%s(p) is not (plus or minus) the difference between the star velocity behind the right wave "
                            "(%s) and behind the left wave (%s) as functions of the star pressure: at its root the two "
                            "sides of the contact do not have the same normal velocity"
                            % (fname, {'S': 'shock', 'R': 'rarefaction'}[rt], {'S': 'shock', 'R': 'rarefaction'}[lt]),
                            line=fi.node.lineno, construct='def %s' % fname))
    return sites


# ---------------------------------------------------------------------------
# site family 3: solvers whose fields are explicit piecewise closed forms around a moving shock

PIECEWISE = {
    'exactpack.solvers.noh.noh1:Noh': {'negative': ['u0']},
    'exactpack.solvers.cog.cog19:Cog19': {'negative': ['u0']},
    'exactpack.solvers.cog.cog20:Cog20': {},
    'exactpack.solvers.cog.cog21:Cog21': {},
}
FIELDS = {'rho': 'density', 'u': 'velocity', 'p': 'pressure', 'e': 'specific_internal_energy'}


def piecewise_sites(model, res):
    from .c05 import phi_leaves
    sites = 0
    for cname, opts in PIECEWISE.items():
        cls = model.get_class(cname)
        b = Builder(model)
        objn, ret = b.run_solver(cls)
        keys = model.parameters_keys(cls) or []
        rin = [n for n in b.trace if n.kind == 'input' and n.val == 'r']
        tin = [n for n in b.trace if n.kind == 'input' and n.val == 't']
        if len(rin) != 1 or len(tin) != 1:
            raise AnalysisError('%s: point / time inputs not unique' % cname)
        rin, tin = rin[0], tin[0]
        # the discontinuity: `r < location` conditions on the points
        locs = {}
        for n in b.trace:
            if n.kind == 'cmp' and n.val in ('<', '<=', '>', '>=') and len(n.args) == 2:
                if n.args[0] is rin and not any(x is rin for x in walk(n.args[1])):
                    locs[n.nid] = (n, n.args[1], n.val in ('<', '<='))
                elif n.args[1] is rin and not any(x is rin for x in walk(n.args[0])):
                    locs[n.nid] = (n, n.args[0], n.val in ('>', '>='))
        if not locs:
            raise AnalysisError('%s: no `r < location` condition found' % cname)
        ev = NFEval(keys)
        for nm in opts.get('negative', []):
            # documented (and enforced by a constructor guard, C20) negative parameter: -1 * positive atom
            for n in b.trace:
                if n.kind == 'param' and n.val == nm:
                    ev.memo[n.nid] = ev.mul(ev.num(-1), ev.atom('param:-%s' % nm))
        lkeys = {ev.nf(l).key() for _, l, _ in locs.values()}
        if len(lkeys) != 1:
            raise AnalysisError('%s: more than one discontinuity location (%d)' % (cname, len(lkeys)))
        locnode = next(iter(locs.values()))[1]
        ev.memo[rin.nid] = ev.nf(locnode)            # evaluate every field AT the discontinuity
        sy = NFSym(ev)
        sols = [l for l in phi_leaves(ret) if l.kind == 'call' and l.val == 'exactpack.base.ExactSolution']
        if not sols:
            raise AnalysisError('no ExactSolution returned by %s' % cname)
        sol = sols[-1]
        data = sol.args[0] if sol.args else sol.kw.get('data')
        names = sol.args[1] if len(sol.args) > 1 else sol.kw.get('names')
        env = {a.val: d for a, d in zip(names.args, data.args)}
        sides = {True: {}, False: {}}
        for q, fname in FIELDS.items():
            if fname not in env:
                raise AnalysisError('%s does not return %s' % (cname, fname))
            x = ev.nf(env[fname])
            got = {True: [], False: []}
            for conds, leaf in leaves(x):
                if leaf is NAN:
                    continue
                pols = set()
                for ck, pol, cnode in conds:
                    if cnode is not None and cnode.nid in locs:
                        inside = locs[cnode.nid][2]
                        pols.add(pol == inside)         # True: the piece r < location
                if not pols:
                    pols = {True, False}
                if isinstance(leaf, (PW, Struct)):
                    raise AnalysisError('%s.%s: piece is not a closed form' % (cname, fname))
                for pl_ in pols:
                    got[pl_].append(leaf)
            for side in (True, False):
                ks = {l.key() for l in got[side]}
                if len(ks) != 1:
                    raise AnalysisError('%s.%s: %d different pieces on one side of the discontinuity' % (cname, fname, len(ks)))
                sides[side][q] = sy.conv(got[side][0])
        loc = sy.conv(ev.nf(locnode))
        tsym = sy.atom('input:t')
        speed = sp.diff(loc, tsym)
        subs = {}
        runm = cls.find_method('_run')
        site = Site(res, '%s: shock at r = %s' % (cls.name, src_of(locnode.origin[1])[:60] if locnode.origin[1] is not None
                                                 else 'location'), runm, locnode.origin[1], sy.units)
        sites += 1
        for label, expr in rh_residuals(sides[False], sides[True], speed).items():
            expr = expr.subs(subs) if subs else expr
            site.check(label, expr, 'limits of the returned density / velocity / pressure / energy on the two sides of the '
                                    'shock, shock speed = d(location)/dt of the closed-form location')
        res.analysed.append(cname)
    return sites


# ---------------------------------------------------------------------------
# site family 4: Sedov strong-shock state; family 5: Mader Chapman-Jouguet state

def _field_expr(sy, e, ev):
    """A parameter-field element (exponent) as a sympy expression over the atoms' symbols."""
    x = e.as_expr()
    return x.subs({sym: sy.atom('param:%s' % sym.name) for sym in x.free_symbols})


def sedov_site(model, res):
    cls = model.get_class('exactpack.solvers.sedov.sedov:Sedov')
    b = Builder(model)
    objn, ret = b.run_solver(cls)
    h = b.heap[objn.val.oid]
    need = ['r2', 'rho1', 'us', 'u1', 'p1', 'u2', 'rho2', 'p2', 'alpha']
    if any(a not in h for a in need):
        raise AnalysisError('Sedov no longer sets %s' % [a for a in need if a not in h])
    keys = (model.parameters_keys(cls) or [])
    ev = NFEval(keys + ['alpha'])
    ev.memo[h['alpha'].nid] = ev.atom('param:alpha')      # the energy-integral constant: opaque
    sy = NFSym(ev)
    nf = {a: ev.nf(h[a]) for a in need if a != 'alpha'}
    for a, x in nf.items():
        if x is NAN or isinstance(x, (PW, Struct)):
            raise AnalysisError('Sedov.%s is not a closed form' % a)
    v = {a: sy.conv(x) for a, x in nf.items()}
    g = sy.atom('param:gamma')
    runm = cls.find_method('_run')
    site = Site(res, 'Sedov: strong shock at r2 (rho1, u1, p1) -> (rho2, u2, p2), speed us', runm,
                h['rho2'].origin[1], sy.units)
    # cold gas ahead (p1 = 0): e1 = 0; behind: the declared gamma-law EOS (C03 decides that the fields obey it)
    pre = {'rho': v['rho1'], 'u': v['u1'], 'p': v['p1'], 'e': sp.Integer(0)}
    post = {'rho': v['rho2'], 'u': v['u2'], 'p': v['p2'], 'e': v['p2'] / ((g - 1) * v['rho2'])}
    for label, expr in rh_residuals(pre, post, v['us']).items():
        site.check(label, expr, 'post-shock state from the pre-shock density and the shock speed')
    # the speed is the time derivative of the position: r2 = A * t**k  =>  us = k * r2 / t
    r2 = nf['r2']
    tkey = 'input:t'
    if not isinstance(r2, Mono) or tkey not in r2.f or any(tkey in k and k != tkey for k in r2.f):
        raise AnalysisError('Sedov.r2 is not a power law in t')
    kexp = _field_expr(sy, r2.f[tkey], ev)
    site.check('shock speed - d(r2)/dt', v['us'] - kexp * v['r2'] / sy.atom(tkey),
               'the speed used in the jump conditions is the time derivative of the power-law shock position')
    res.analysed.append(cls.fullname)
    return 1


MADER = 'exactpack.solvers.mader.rarefaction:rare'


def mader_site(model, res):
    fi = model.get_func(MADER)
    b = Builder(model)
    b.frame = Frame(None, fi.module, {}, None)
    args = [b.mk('param', a.arg) for a in fi.node.args.args]
    b.run_function(fi, args)
    val = {}
    for func, tnode, vnode in b.assign_log:
        if func is fi:
            val.setdefault(tnode.id, vnode)
    need = ['rho_0', 'rho_cj', 'c_cj', 'u_cj']
    if any(a not in val for a in need) or not {'p_cj', 'd_cj', 'gam'} <= {a.arg for a in fi.node.args.args}:
        raise AnalysisError('Mader CJ-state locals %s vanished from rare()' % need)
    ev = NFEval(['gam'])
    sy = NFSym(ev)
    v = {a: sy.conv(ev.nf(val[a])) for a in need}
    D, pcj, g = sy.atom('param:d_cj'), sy.atom('param:p_cj'), sy.atom('param:gam')
    site = Site(res, 'Mader: Chapman-Jouguet state (rho_0, 0, 0) -> (rho_cj, u_cj, p_cj), detonation speed d_cj', fi,
                val['rho_cj'].origin[1], sy.units)
    site.check('mass', v['rho_cj'] * (v['u_cj'] - D) + v['rho_0'] * D, 'CJ state from p_cj, d_cj, gam')
    site.check('momentum', pcj + v['rho_cj'] * (v['u_cj'] - D) ** 2 - v['rho_0'] * D ** 2, 'CJ state from p_cj, d_cj, gam')
    site.check('sonic (u_cj + c_cj - d_cj)', v['u_cj'] + v['c_cj'] - D, 'Chapman-Jouguet condition')
    site.check('c_cj**2 - gam*p_cj/rho_cj', v['c_cj'] ** 2 - g * pcj / v['rho_cj'], 'sound speed of the gamma-law products')
    return 1


# ---------------------------------------------------------------------------
# family 6: EHEP detonation front; family 7: SDRZ steady reaction zone

def _branch_values(fi, b, anchor_var, anchor_val):
    """Values assigned (plain names) in the if-branch that contains `anchor_var = anchor_val`."""
    branch = None
    for st in ast.walk(fi.node):
        if isinstance(st, ast.If):
            for s2 in st.body:
                if isinstance(s2, ast.Assign) and len(s2.targets) == 1 and isinstance(s2.targets[0], ast.Name) \
                        and s2.targets[0].id == anchor_var and isinstance(s2.value, ast.Constant) \
                        and s2.value.value == anchor_val:
                    branch = st.body
    if branch is None:
        raise AnalysisError('branch (%s = %r) vanished from %s' % (anchor_var, anchor_val, fi.fullname))
    targets = {}
    for st in branch:
        for sub in ast.walk(st):
            if isinstance(sub, ast.Assign):
                for t in sub.targets:
                    for e in ([t] if isinstance(t, ast.Name) else (t.elts if isinstance(t, (ast.Tuple, ast.List)) else [])):
                        if isinstance(e, ast.Name):
                            targets[id(e)] = e.id
    out = {}
    for func, tnode, vnode in b.assign_log:
        if id(tnode) in targets:
            out[targets[id(tnode)]] = vnode
    return out


def ehep_site(model, res):
    cls = model.get_class('exactpack.solvers.ehep.ehep:EscapeOfHEProducts')
    runm = cls.find_method('_run')
    b = Builder(model)
    b.run_solver(cls)
    keys = model.parameters_keys(cls) or []
    rin = [n for n in b.trace if n.kind == 'input' and n.val == 'r']
    if len(rin) != 1:
        raise AnalysisError('EHEP: point input not unique')
    behind = _branch_values(runm, b, 'reg', 'I')
    ahead = _branch_values(runm, b, 'reg', '0H')
    for nm in ('cs', 'u', 'p', 'rho'):
        if nm not in behind or nm not in ahead:
            raise AnalysisError('EHEP: %s not assigned in region I / 0H' % nm)
    ev = NFEval(keys)
    D = ev.atom('param:D')
    ev.memo[rin[0].nid] = ev.mul(D, ev.atom('input:t'))         # at the detonation front x = D t
    sy = NFSym(ev)

    def S(n):
        x = ev.nf(n)
        if x is NAN or isinstance(x, (PW, Struct)):
            raise AnalysisError('EHEP: region value is not a closed form')
        return sy.conv(x)
    bh = {k: S(v) for k, v in behind.items() if k in ('cs', 'u', 'p', 'rho')}
    ah = {k: S(v) for k, v in ahead.items() if k in ('cs', 'u', 'p', 'rho')}
    Ds = sy.conv(D)
    site = Site(res, 'EHEP: detonation front x = D t, region 0H (unreacted) -> region I', runm, behind['u'].origin[1], sy.units)
    site.check('mass', bh['rho'] * (bh['u'] - Ds) - ah['rho'] * (ah['u'] - Ds), 'limits of region I at the front vs the unreacted state')
    site.check('momentum', bh['p'] + bh['rho'] * (bh['u'] - Ds) ** 2 - ah['p'] - ah['rho'] * (ah['u'] - Ds) ** 2,
               'limits of region I at the front vs the unreacted state')
    site.check('sonic (u + c - D)', bh['u'] + bh['cs'] - Ds, 'Chapman-Jouguet condition at the front')
    res.analysed.append(cls.fullname)
    return 1


def sdrz_site(model, res):
    cls = model.get_class('exactpack.solvers.sdrz.sdrz:SteadyDetonationReactionZone')
    fi = cls.find_method('run_tvec')
    if fi is None:
        raise AnalysisError('SDRZ.run_tvec vanished')
    from ..vg import Closure
    b = Builder(model)
    objn, _ = b.run_solver(cls, run=False)
    b.frame = Frame(None, cls.module, {}, None)
    tv = b.mk('input', 'tvec')
    b.call_closure(Closure(fi, fi.node, None, self_node=objn, cls=cls, module=cls.module), [tv], {}, fi.node)
    val = {}
    for func, tnode, vnode in b.assign_log:
        if func is fi:
            val[tnode.id] = vnode
    need = ['gvec', 'pvec', 'rhovec', 'uvec']
    if any(a not in val for a in need):
        raise AnalysisError('SDRZ.run_tvec locals %s vanished' % [a for a in need if a not in val])
    keys = model.parameters_keys(cls) or []
    ev = NFEval(keys)
    ev.memo[val['gvec'].nid] = ev.atom('param:g')       # reaction-progress function: any value
    sy = NFSym(ev)
    v = {a: sy.conv(ev.nf(val[a])) for a in need[1:]}
    D, rho0 = sy.atom('param:D'), sy.atom('param:rho_0')
    site = Site(res, 'SDRZ: steady reaction zone, every reaction progress', fi, val['uvec'].origin[1], sy.units)
    site.check('mass flux rho*(D - u) - rho_0*D', v['rhovec'] * (D - v['uvec']) - rho0 * D, 'fields as functions of g = sqrt(1 - lambda/f)')
    site.check('momentum flux p + rho*(D - u)**2 - rho_0*D**2', v['pvec'] + v['rhovec'] * (D - v['uvec']) ** 2 - rho0 * D ** 2,
               'fields as functions of g = sqrt(1 - lambda/f)')
    res.analysed.append(cls.fullname)
    return 1


# ---------------------------------------------------------------------------
# family 8: general-EOS Riemann helpers (Hugoniot function, relative shock speeds)

def geneos_site(model, res):
    cls = model.get_class('exactpack.solvers.riemann.riemann:RiemannGenEOS')
    mod = model.modules[UTILS]
    b = Builder(model)
    b.frame = Frame(None, mod, {}, None)
    inst = b.symbolic_obj(cls, STATE + OTHER, {})
    b.heap[inst.val.oid]['problem'] = b.const('JWL')
    p0, r0, g0, p, r = (b.mk('param', nm) for nm in ('p0', 'r0', 'g0', 'p', 'r'))
    zero, two = b.const(0), b.const(2)

    def call(fname, *args):
        fi = model.get_func('%s:%s' % (UTILS, fname))
        b.frame = Frame(None, mod, {}, None)
        return b.run_function(fi, list(args) + [inst])

    sj = call('shock_jump', p0, r0, g0, p, r)
    w0sq = b.mk('binop', '**', [call('shock_speed', p, r, p0, r0, zero), two])     # (u0 - S)**2
    w1sq = b.mk('binop', '**', [call('shock_speed', p0, r0, p, r, zero), two])     # (u  - S)**2
    e0, e1 = call('sie', p0, r0, g0), call('sie', p, r, g0)
    ev = NFEval(STATE + OTHER + ['p0', 'r0', 'g0', 'p', 'r'])
    sy = NFSym(ev)

    def S(n, what):
        x = ev.nf(n)
        ls = [l for _, l in leaves(x) if l is not NAN]
        ks = {l.key() for l in ls}
        if len(ks) != 1 or isinstance(ls[0], (PW, Struct)):
            raise AnalysisError('general-EOS helper %s did not resolve to one closed form (%d pieces)' % (what, len(ks)))
        return sy.conv(ls[0])
    W0, W1 = S(w0sq, 'shock_speed**2'), S(w1sq, 'shock_speed**2')
    P0, R0, P, R = (S(n, 'state') for n in (p0, r0, p, r))
    fi = model.get_func('%s:shock_jump' % UTILS)
    site = Site(res, 'riemann GenEOS: shock_jump / shock_speed / star_velocity for an arbitrary EOS term', fi, fi.node, sy.units)
    site.check('mass (squared): (r0*w0)**2 - (r*w1)**2', R0 ** 2 * W0 - R ** 2 * W1,
               'relative speeds w0 = |u0 - S|, w1 = |u - S| returned by shock_speed')
    site.check('momentum: p + r*w1**2 - p0 - r0*w0**2', P + R * W1 - P0 - R0 * W0, 'relative speeds returned by shock_speed')
    site.check('energy: shock_jump - [(e0 + p0/r0 + w0**2/2) - (e + p/r + w1**2/2)]',
               S(sj, 'shock_jump') - ((S(e0, 'sie') + P0 / R0 + W0 / 2) - (S(e1, 'sie') + P / R + W1 / 2)),
               'the function whose root is the post-shock density is the energy jump condition')
    return 1


# ---------------------------------------------------------------------------
# family 9: black-box-EOS Noh: the Newton residual IS the set of jump conditions

RESMOD = 'exactpack.solvers.nohblackboxeos.solution_tools.residual_functions'


def _linear_root(expr, x):
    """expr = a*x + b (a, b free of x) -> -b/a ; None if expr is not linear in x."""
    num = sp.fraction(sp.together(expr))[0]
    P = sp.Poly(sp.expand(num), x)
    if P.degree() != 1:
        return None
    a, b0 = P.all_coeffs()
    return -b0 / a


def blackbox_sites(model, res):
    """F(x) = 0 is what the Newton iteration converges to; the shocked state satisfies the jump
    conditions iff F is (equivalent to) them.  Pre-shock state at r = D t: density
    rho_0 (1 - u_0/D)**symmetry (geometric convergence), velocity u_0, pressure P_0; post-shock:
    (rho, 0, P, e) with the EOS closure as an opaque function; speed D."""
    from ..vg import Closure
    mod = model.modules[RESMOD]
    n = 0
    for cn in ('energy_noh_residual', 'pressure_noh_residual', 'simplified_energy_noh_residual',
               'simplified_pressure_noh_residual'):
        ci = mod.classes[cn]
        fi = ci.find_method('F')
        three = not cn.startswith('simplified')
        b = Builder(model)
        b.frame = Frame(None, mod, {}, None)
        eos = b.mk('input', 'eos')
        attrs = ['u_0', 'rho_0', 'P_0', 'symmetry', 'e_0']
        inst = b.symbolic_obj(ci, attrs, {'equation_of_state': eos})
        if not three:
            b.heap[inst.val.oid]['P_0'] = b.const(0)          # documented (and enforced) assumptions
            b.heap[inst.val.oid]['symmetry'] = b.const(0)
        x1, x2, x3 = b.mk('param', 'x_rho'), b.mk('param', 'x_2'), b.mk('param', 'x_D')
        state = b.mk('tuple', args=[x1, x2, x3] if three else [x1, x2])
        b.frame = Frame(None, mod, {}, None)
        out = b.call_closure(Closure(fi, fi.node, None, self_node=inst, cls=ci, module=mod), [state], {}, fi.node)
        ev = NFEval(attrs + ['x_rho', 'x_2', 'x_D'])
        sy = NFSym(ev)
        comps = []
        for i in range(3 if three else 2):
            x = ev.nf(b.mk('sub', args=[out, b.const(i)]))
            if x is NAN or isinstance(x, (PW, Struct)):
                raise AnalysisError('%s.F[%d] is not a closed form' % (cn, i))
            comps.append(sy.conv(x))
        rho, rho0, u0, P0, e0 = (sy.atom(k) for k in ('param:x_rho', 'param:rho_0', 'param:u_0', 'param:P_0', 'param:e_0'))
        if not three:
            P0 = sp.Integer(0)
        # which EOS closure does F use: e(rho, P) with unknown P, or P(rho, e) with unknown e
        uses_P = 'pressure' in cn
        x2s = sy.atom('param:x_2')
        opaque = [v for k, v in sy.syms.items() if k.startswith('m:')]
        if len(opaque) != 1:
            raise AnalysisError('%s.F: expected one EOS closure call, found %d' % (cn, len(opaque)))
        clo = opaque[0]
        Ppost, epost = (clo, x2s) if uses_P else (x2s, clo)
        site = Site(res, 'black-box Noh %s: F(x) = 0 vs the jump conditions at r = D t' % cn, fi, fi.node, sy.units)
        n += 1
        if three:
            D = sy.atom('param:x_D')
            ksym = sy.atom('param:symmetry')
            # rho_pre = rho_0 (1 - u_0/D)**symmetry : written through F[0]'s own power so that the exponent
            # shapes agree: (1 - u0/D)**(k+1) = (1 - u0/D) * (1 - u0/D)**k
            base = 1 - u0 / D
            powk1 = sp.cancel(sp.expand(rho - comps[0]) / rho0)     # (1 - u0/D)**(symmetry + 1) as F writes it
            rho_pre = rho0 * powk1 / base
            mass = rho * (0 - D) - rho_pre * (u0 - D)
            site.check('mass + D*F[0]', mass + D * comps[0], 'F[0] is the mass jump condition (times -D)')
            sol_rho = {rho: rho0 * powk1}                           # F[0] = 0
            mom = Ppost + rho * D ** 2 - P0 - rho_pre * (u0 - D) ** 2
            site.check('momentum - F[1] (on F[0] = 0)', (mom - comps[1]).subs(sol_rho),
                       'F[1] is the momentum jump condition given the mass condition')
            en = epost + Ppost / rho + D ** 2 / 2 - e0 - P0 / rho_pre - (u0 - D) ** 2 / 2
            sol_P = _linear_root(comps[1], Ppost)
            if sol_P is None:
                raise AnalysisError('%s.F[1] is not linear in the post-shock pressure' % cn)
            site.check('energy - F[2] (on F[0] = F[1] = 0)', ((en - comps[2]).subs({Ppost: sol_P})).subs(sol_rho),
                       'F[2] is the energy jump condition given the other two')
        else:
            # planar, P_0 = 0, shock speed eliminated with the mass condition: D = -rho_0 u_0/(rho - rho_0)
            D = -rho0 * u0 / (rho - rho0)
            mom = Ppost + rho * D ** 2 - rho0 * (u0 - D) ** 2
            ratio = sp.cancel(sp.together(mom / comps[0]))
            res.obligations += 1
            res.evaluations += 1
            res.nontrivial += 1
            if ratio != 0 and not ratio.has(Ppost) and not ratio.has(sp.zoo) and not ratio.has(sp.nan):
                res.discharged += 1
                res.sample({'site': site.name, 'identity': 'momentum condition == (%s) * F[0]' % ratio})
            else:
                res.add(Finding(PROP, 'C02.jump', fi.module.relpath, fi.qualname, '%s: momentum vs F[0]' % site.name,
                                '%s: F[0] is not a multiple of the momentum jump condition with the shock speed eliminated '
                                'through the mass condition' % site.name, line=fi.node.lineno, construct='def F'))
            en = epost + Ppost / rho + D ** 2 / 2 - e0 - (u0 - D) ** 2 / 2
            sol_P = _linear_root(comps[0], Ppost)
            if sol_P is None:
                raise AnalysisError('%s.F[0] is not linear in the post-shock pressure' % cn)
            site.check('energy - F[1] (on F[0] = 0)', (en - comps[1]).subs({Ppost: sol_P}),
                       'F[1] is the energy jump condition given the momentum condition')
    return n


# ---------------------------------------------------------------------------
# family 10: elastic-plastic piston (total stress = pressure - deviatoric stress replaces pressure)

def ep_piston_site(model, res):
    """Elastic precursor from rest to the yield state and plastic wave from the yield state to the piston
    state, for ANY yield density (the elasticity model enters only through rho_y) and ANY plastic wave
    speed (a numerical root): the closed forms e_y, p_y, wv_el, vel_y and p2, rho2, e2 satisfy the three
    jump conditions identically; the function whose root is the plastic wave speed is the Mie-Gruneisen
    consistency of that state."""
    cls = model.get_class('exactpack.solvers.ep_piston.ep_piston:EPpiston')
    b = Builder(model)
    objn, _ = b.run_solver(cls, run=False)
    h = b.heap[objn.val.oid]
    need = ['rho_y', 'e_y', 'p_y', 'sdev_y', 'wv_el', 'vel_y', 'wv_pl', 'p2', 'rho2', 'e2']
    if any(a not in h for a in need):
        raise AnalysisError('EPpiston no longer sets %s' % [a for a in need if a not in h])
    keys = model.parameters_keys(cls) or []
    ev = NFEval(keys)
    ev.memo[h['rho_y'].nid] = ev.atom('param:rho_y')          # any yield density
    ev.memo[h['wv_pl'].nid] = ev.atom('param:wv_pl')          # any plastic wave speed
    sy = NFSym(ev)

    def S(a):
        x = ev.nf(h[a])
        if x is NAN or isinstance(x, (PW, Struct)):
            raise AnalysisError('EPpiston.%s is not a closed form' % a)
        return sy.conv(x)
    v = {a: S(a) for a in need}
    rho0, up = sy.atom('param:rho0'), sy.atom('param:up')
    init = cls.find_method('__init__')
    zero_ = sp.Integer(0)
    # total stress sigma = p - sdev
    pre = {'rho': rho0, 'u': zero_, 'p': zero_, 'e': zero_}
    post = {'rho': v['rho_y'], 'u': v['vel_y'], 'p': v['p_y'] - v['sdev_y'], 'e': v['e_y']}
    site = Site(res, 'EP piston: elastic precursor, rest -> yield state (total stress p - sdev)', init,
                h['e_y'].origin[1], sy.units)
    # rh_residuals uses e + p/rho + w^2/2 with p the total stress: that is the energy flux balance divided by the mass flux
    for label, expr in rh_residuals(pre, post, v['wv_el']).items():
        site.check(label, expr, 'closed-form yield state e_y, p_y = Gruneisen(rho_y, e_y), wv_el, vel_y for every yield density')
    pre2 = post
    post2 = {'rho': v['rho2'], 'u': up, 'p': v['p2'] - v['sdev_y'], 'e': v['e2']}
    site2 = Site(res, 'EP piston: plastic wave, yield state -> piston state (total stress p - sdev)', init,
                 h['e2'].origin[1], sy.units)
    for label, expr in rh_residuals(pre2, post2, v['wv_pl']).items():
        site2.check(label, expr, 'closed-form piston state p2, rho2, e2 for every plastic wave speed')
    res.analysed.append(cls.fullname)
    return 2


def run(model, tier):
    res = Result(PROP)
    res.explanation = (
        'Rankine-Hugoniot identities at the closed-form jump sites. Wherever a solver computes the state behind a '
        'discontinuity from the state ahead of it by an explicit formula, the value-graph expressions of both states '
        'and of the speed of the discontinuity (its position divided by t where the position is proportional to t, the '
        "solver's own speed variable otherwise) are normalised and the three flux differences (mass, momentum, "
        'total energy; in similarity variables for Guderley) must reduce to the zero polynomial in a radical normal '
        'form: rational functions plus square roots, each irreducible radicand factor one algebraic generator s with '
        's^2 = f. The identities hold for all values of the free variables (parameters, star pressure, pre-shock '
        'state). Sites whose post-shock state is the output of a numerical solve of the jump conditions themselves '
        '(EP piston, black-box Noh, RMTV, GenEOS bisection, 2D oblique shocks) are not decided.')
    res.rule_text = 'instance = one conservation law at one jump site'
    res.trusted_base = ['CPython ast', 'sympy factor_list / expand', 'value-graph builder']
    sites = 0
    sites += guderley_sites(model, res)
    sites += igeos_sites(model, res)
    # ... and the drivers hand each shock helper the state of ONE side: a speed or star density computed
    # from a mixed state is not the speed / density of the jump between the two returned states
    from .c09 import side_consistency
    side_consistency(model, res, prop=PROP, rule='C02.side-consistency',
                     callees=('shock_velocity', 'rho_star_shock', 'shock', 'shock_speed', 'star_velocity', 'shock_jump',
                              'match_shocks'), min_calls=8,
                     why='the shock speed / post-shock state is then not the one that satisfies the jump conditions '
                         'between the two states the solver returns on either side of that shock')
    sites += piecewise_sites(model, res)
    sites += sedov_site(model, res)
    sites += mader_site(model, res)
    sites += ehep_site(model, res)
    from . import c02_ehep
    c02_ehep.edges(model, res)          # every shared edge of the EHEP x-t diagram: continuous, or a jump with the edge's speed
    sites += sdrz_site(model, res)
    sites += geneos_site(model, res)
    sites += blackbox_sites(model, res)
    from . import c02_blackbox
    c02_blackbox.fields(model, res)     # ... and _run returns exactly the two states those conditions relate
    sites += ep_piston_site(model, res)
    res.extra['jump_sites'] = sites
    if sites < MIN_SITES:
        raise AnalysisError('only %d jump sites analysed (confirmed on the pinned tree: %d)' % (sites, MIN_SITES))
    res.extra['not_decided'] = [
        'elastic-plastic piston: the plastic wave speed itself (fsolve); the closed forms around it are decided',
        'black-box Noh shocked state itself (Newton iteration; only that F is the jump conditions is decided)',
        'RMTV isothermal shock (numerical integration of the similarity ODEs)',
        'GenEOS star state (bisection on the spliced P-U curves; only the Hugoniot / speed helpers are decided)',
        '2D steady Riemann oblique shocks (see C19)',
        'which of the closed-form speeds the IGEOS driver places at which region boundary (C04)',
    ]
    return res
