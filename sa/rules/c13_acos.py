"""C13 clause "burn time is continuous": the cosine of an angle between two vectors must be clamped before arccos.

`dot(u, v) / (|u| |v|)` equals +-1 exactly for (anti)parallel vectors in real arithmetic; in floating point the numerator
and the denominator are rounded independently and the quotient can exceed 1 by one ulp.  numpy.arccos then returns NaN (math.acos
raises), every comparison with NaN is false, and a selection like `if theta > 0:` silently keeps the other branch: for
Kenamond 3 the point exactly behind the inert sphere got the straight-line time through the sphere (15 % early; 21 % of randomly
drawn antipodal points).  Static rule (syntax-directed over resolved callees, all burn-time modules): the argument of every
arccos / arcsin that contains a dot product of two DIFFERENT vectors (a Cauchy-Schwarz ratio; `dot(v, v)` under a square root is a
norm and is exact at the boundary the guards test) must lie inside numpy.clip / min / max (or equivalents) with literal bounds.
"""
import ast

from ..model import AnalysisError, src_of
from ..report import Finding

PROP = 'C13'
RULE = 'C13.acos-domain'
PACKAGES = ('exactpack.solvers.kenamond', 'exactpack.solvers.dsd')
INVERSE = {'numpy.arccos', 'numpy.arcsin', 'math.acos', 'math.asin'}
CLAMP = {'numpy.clip', 'builtins.min', 'builtins.max', 'numpy.minimum', 'numpy.maximum', 'numpy.fmin', 'numpy.fmax'}
DOT = {'numpy.dot', 'numpy.inner', 'numpy.vdot'}


def _resolved(model, mod, func):
    r = model.resolve_dotted(mod, func)
    if r is not None and r[0] == 'ext':
        return r[1]
    if r is None and isinstance(func, ast.Name) and func.id in ('min', 'max') and func.id not in mod.bindings:
        return 'builtins.' + func.id
    return None


def check(model, res, prop=PROP, rule=RULE):
    n_sites = 0
    for mname, mod in sorted(model.modules.items()):
        if not mname.startswith(PACKAGES):
            continue
        tree = mod.tree
        parents = {}
        for p in ast.walk(tree):
            for c in ast.iter_child_nodes(p):
                parents[c] = p
        for call in ast.walk(tree):
            if not isinstance(call, ast.Call) or _resolved(model, mod, call.func) not in INVERSE or not call.args:
                continue
            n_sites += 1
            arg = call.args[0]
            risky = []
            for d in ast.walk(arg):
                if isinstance(d, ast.Call) and _resolved(model, mod, d.func) in DOT and len(d.args) == 2 \
                        and src_of(d.args[0]) != src_of(d.args[1]):
                    # clamped on the way up to the arccos?
                    x, clamped = d, False
                    while x is not call:
                        x = parents[x]
                        if isinstance(x, ast.Call) and x is not call and _resolved(model, mod, x.func) in CLAMP:
                            clamped = True
                            break
                    if not clamped:
                        risky.append(d)
            fn = call
            while fn in parents and not isinstance(fn, (ast.FunctionDef, ast.AsyncFunctionDef)):
                fn = parents[fn]
            qual = fn.name if isinstance(fn, ast.FunctionDef) else '<module>'
            cls = parents.get(fn)
            if isinstance(cls, ast.ClassDef):
                qual = '%s.%s' % (cls.name, qual)
            res.obligations += 1
            res.evaluations += 1
            res.nontrivial += 1
            if not risky:
                res.discharged += 1
                res.sample({'rule': rule, 'site': '%s:%d' % (mod.relpath, call.lineno), 'argument': src_of(arg)[:80],
                            'verdict': 'no unclamped Cauchy-Schwarz ratio'}, limit=20)
            else:
                res.add(Finding(prop, rule, mod.relpath, qual, 'unclamped cosine: %s' % src_of(risky[0])[:60],
                                "%s: `%s` takes the inverse cosine / sine of a ratio built from the dot product `%s` of two different "
                                "vectors without clamping it to [-1, 1].  For (anti)parallel vectors the ratio is +-1 mathematically and can "
                                "exceed it by rounding: arccos returns NaN, every later comparison is false, and the burn time silently comes "
                                "from the wrong branch (a jump in the burn-time field on that ray)"
                                % (qual, src_of(call)[:90], src_of(risky[0])[:60]), line=call.lineno, construct=src_of(call)[:100]))
    if n_sites < 3:
        raise AnalysisError('only %d arccos / arcsin sites found in the burn-time packages (confirmed: 3)' % n_sites)
