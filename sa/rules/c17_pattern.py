"""C17 clause "every shock is compressive" for the ideal-gas Riemann solver: the wave-pattern boundaries.

`RiemannIGEOS.driver` chooses the wave pattern (SCS, SCR, RCS, RCR) by comparing `ur` with threshold velocities
and then finds the star pressure as the root of the pattern's own equation.  The shock branch of a wave curve
continues smoothly below the initial pressure, so a root exists on the wrong side too: only the thresholds keep
a `shock` from being used with p* < p0 (an expansion shock) and a `rarefaction` from being used with p* > p0.
The star pressure is monotone in `ur`, so this holds for every input iff

  (a) at `ur` = the threshold between two patterns that differ in the wave of one side, the star pressure
      is the initial pressure of that side (the wave is degenerate), i.e. the threshold substituted for `ur`
      makes the root equations of BOTH patterns vanish identically at p = that pressure, and
  (b) of the two patterns the one with the shock on that side is selected for the smaller `ur` (approaching
      states compress), and
  (c) the root equation a branch solves is built from the wave curves its `soln_type` string names (the star
      densities and the region table are selected by that string).

Everything is read from the driver: the threshold a name holds, the comparisons of each branch (disjunctive
normal form), the `bisect` root function and the `soln_type` string.  The identities are decided on the normal
form (rational functions with radicals) for symbolic states and adiabatic indices.
"""
import ast
import itertools

from ..model import AnalysisError, src_of
from ..report import Finding
from ..vg import Builder, Frame
from ..nf import NFEval, NAN, leaves, Struct, DiffUnsupported
from ..ratnf import NFSym
from .c09 import STATE, OTHER, UTILS, RIEMANN, data_side
from . import c04

PROP = 'C17'
RULE = 'C17.pattern-boundary'
KIND = {'shock': 'S', 'rarefaction': 'R'}


def _dnf(t):
    if isinstance(t, ast.BoolOp) and isinstance(t.op, ast.Or):
        return [c for v in t.values for c in _dnf(v)]
    if isinstance(t, ast.BoolOp) and isinstance(t.op, ast.And):
        return [list(itertools.chain(*combo)) for combo in itertools.product(*[_dnf(v) for v in t.values])]
    return [[t]]


def _self_alias(fn, name):
    """`name` is bound exactly once in fn, by (tuple) assignment from self.<attr>: the attribute name."""
    found = []
    for st in ast.walk(fn):
        if not isinstance(st, ast.Assign):
            continue
        for tg in st.targets:
            pairs = []
            if isinstance(tg, ast.Tuple) and isinstance(st.value, ast.Tuple) and len(tg.elts) == len(st.value.elts):
                pairs = list(zip(tg.elts, st.value.elts))
            elif isinstance(tg, ast.Name):
                pairs = [(tg, st.value)]
            for a, v in pairs:
                if isinstance(a, ast.Name) and a.id == name:
                    found.append(v)
    if len(found) == 1 and isinstance(found[0], ast.Attribute) and isinstance(found[0].value, ast.Name) \
            and found[0].value.id == 'self':
        return found[0].attr
    return None


def _read_driver(model):
    cls = model.get_class(RIEMANN)
    drv = cls.find_method('driver')
    if drv is None:
        raise AnalysisError('RiemannIGEOS.driver vanished')
    fn = drv.node
    # thresholds: name = u_X(<pressure name>, self)
    thr = {}
    for st in fn.body:
        if isinstance(st, ast.Assign) and len(st.targets) == 1 and isinstance(st.targets[0], ast.Name) \
                and isinstance(st.value, ast.Call) and isinstance(st.value.func, ast.Name) and len(st.value.args) == 2 \
                and isinstance(st.value.args[0], ast.Name) and isinstance(st.value.args[1], ast.Name) \
                and st.value.args[1].id == 'self' and st.value.func.id.startswith('u_'):
            attr = _self_alias(fn, st.value.args[0].id)
            if attr is None:
                raise AnalysisError('driver: argument of %s is not a plain alias of an attribute' % src_of(st.value))
            thr[st.targets[0].id] = (st.value.func.id, attr, st)
    chain = None
    for st in fn.body:
        if isinstance(st, ast.If) and any(isinstance(x, ast.Name) and x.id == 'soln_type' and isinstance(x.ctx, ast.Store)
                                           for x in ast.walk(st)) and any(isinstance(x, ast.Name) and x.id in thr for x in ast.walk(st.test)):
            chain = st
            break
    if chain is None:
        raise AnalysisError('driver: wave-pattern selection chain not found')
    branches = []
    node = chain
    while True:
        branches.append((node.test, node.body))
        if len(node.orelse) == 1 and isinstance(node.orelse[0], ast.If):
            node = node.orelse[0]
            continue
        break
    out = []
    for test, body in branches:
        label = None
        root = None
        for x in ast.walk(ast.Module(body=body, type_ignores=[])):
            if isinstance(x, ast.Assign):
                tg, val = x.targets[0], x.value
                if isinstance(tg, ast.Tuple) and isinstance(val, ast.Tuple):
                    for a, v in zip(tg.elts, val.elts):
                        if isinstance(a, ast.Name) and a.id == 'soln_type' and isinstance(v, ast.Constant):
                            label = v.value
                elif isinstance(tg, ast.Name) and tg.id == 'soln_type' and isinstance(val, ast.Constant):
                    label = val.value
            if isinstance(x, ast.Call) and isinstance(x.func, ast.Name) and x.func.id == 'bisect' and x.args \
                    and isinstance(x.args[0], ast.Lambda) and isinstance(x.args[0].body, ast.Call) \
                    and isinstance(x.args[0].body.func, ast.Name):
                root = x.args[0].body.func.id
        letters = None
        if isinstance(label, str):
            parts = label.split('-')
            if len(parts) == 4 and len(parts[3]) == 3 and set(parts[3]) <= set('SCR'):
                # the driver selects helpers with parts[0] / parts[2]: they must spell the same pattern
                if KIND.get(parts[0]) != parts[3][0] or KIND.get(parts[2]) != parts[3][2]:
                    raise AnalysisError('driver: soln_type %r names its waves inconsistently' % label)
                letters = parts[3]
        conj = []
        for c in _dnf(test):
            order, lo, hi = None, None, None
            for a in c:
                if not isinstance(a, ast.Compare):
                    raise AnalysisError('driver: unexpected term %s in the wave-pattern test' % src_of(a))
                names = [x.id if isinstance(x, ast.Name) else None for x in [a.left] + a.comparators]
                if None in names:
                    raise AnalysisError('driver: unexpected comparison %s in the wave-pattern test' % src_of(a))
                attrs = [n if n in thr else _self_alias(fn, n) for n in names]
                if set(attrs) == {'pl', 'pr'} and len(a.ops) == 1:
                    big = attrs[0] if isinstance(a.ops[0], (ast.Gt, ast.GtE)) else attrs[1] \
                        if isinstance(a.ops[0], (ast.Lt, ast.LtE)) else None
                    if big is None:
                        raise AnalysisError('driver: unexpected pressure ordering %s' % src_of(a))
                    order = big                       # the larger (or equal) pressure
                    continue
                if 'ur' not in attrs:
                    raise AnalysisError('driver: comparison %s does not involve ur' % src_of(a))
                for k, op in enumerate(a.ops):
                    l, r = attrs[k], attrs[k + 1]
                    if isinstance(op, (ast.Lt, ast.LtE)):
                        small, large = l, r
                    elif isinstance(op, (ast.Gt, ast.GtE)):
                        small, large = r, l
                    else:
                        raise AnalysisError('driver: unexpected operator in %s' % src_of(a))
                    if small == 'ur' and large in thr:
                        hi = large
                    elif large == 'ur' and small in thr:
                        lo = small
                    else:
                        raise AnalysisError('driver: comparison %s is not between ur and a threshold' % src_of(a))
            conj.append((order, lo, hi))
        out.append({'test': test, 'label': label, 'letters': letters, 'root': root, 'conj': conj})
    return cls, drv, thr, out


def _instance(model, cls):
    mod = model.modules[UTILS]
    b = Builder(model)
    b.frame = Frame(None, mod, {}, None)
    inst = b.symbolic_obj(cls, STATE + OTHER, {})
    b.heap[inst.val.oid]['problem'] = b.const('igeos')     # the ideal-gas driver's wave curves are ideal-gas ones
    ss = model.get_func('%s:sound_speed' % UTILS)
    for side in ('l', 'r'):
        b.frame = Frame(None, mod, {}, None)
        av = b.run_function(ss, [b.get_attr(inst, 'p' + side), b.get_attr(inst, 'r' + side),
                                 b.get_attr(inst, 'g' + side), inst])
        b.heap[inst.val.oid]['a' + side] = av     # al, ar as the constructor defines them
    b.frame = Frame(None, mod, {}, None)
    return b, inst, mod


def _vanishes(model, cls, tfunc, targ, rootf, pd):
    """rootf(pd, inst) with inst.ur := tfunc(inst.<targ>, inst) is identically zero."""
    b, inst, mod = _instance(model, cls)
    thr = b.run_function(model.get_func('%s:%s' % (UTILS, tfunc)), [b.get_attr(inst, targ), inst])
    b.heap[inst.val.oid]['ur'] = thr
    b.frame = Frame(None, mod, {}, None)
    r = b.run_function(model.get_func('%s:%s' % (UTILS, rootf)), [b.get_attr(inst, pd), inst])
    ev = NFEval(STATE + OTHER)
    n = ev.nf(r)
    sy = None
    for conds, leaf in leaves(n):
        if leaf is NAN:
            continue
        if isinstance(leaf, Struct):
            return False, 'not a scalar'
        if ev.is_zero(leaf):
            continue
        sy = sy or NFSym(ev)
        try:
            if c04.zero(sy, leaf):
                continue
        except Exception:
            pass
        return False, leaf.key()[:200]
    return True, None


def _root_kinds(model, cls, rootf):
    """{'l': 'S'|'R', 'r': ...}: the wave curve (resolved callee) evaluated with each side's initial state."""
    b, inst, mod = _instance(model, cls)
    p = b.mk('input', 'p')
    b.run_function(model.get_func('%s:%s' % (UTILS, rootf)), [p, inst])
    kinds = {}
    for at, fi, args, caller in b.call_log:
        name = getattr(fi, 'name', None)
        if name not in KIND:
            continue
        sides = set()
        for a in list(args)[1:4]:
            sides |= data_side(a)
        if len(sides) != 1:
            raise AnalysisError('%s: a wave curve is evaluated with a state of mixed sides' % rootf)
        kinds.setdefault(sides.pop(), set()).add(KIND[name])
    return kinds


def _definite_sign(e, gammas):
    """+1 / -1 when the sympy expression e (positive symbols; every adiabatic index written 1 + d with d > 0) is
    shown positive / negative for all values: by sympy's sign rules on the expression, else on the expanded numerator
    and denominator of its single fraction (sums of like-signed terms, radicals of such sums).  None: not shown."""
    import sympy
    e = e.xreplace({g: 1 + sympy.Symbol('d_' + g.name, positive=True) for g in gammas})
    if e.is_positive:
        return 1
    if e.is_negative:
        return -1
    num, den = sympy.fraction(sympy.together(e))
    s = 1
    for part in (num, den):
        for form in (sympy.expand(part), None):
            if form is None:
                form = sympy.factor(part)
            if form.is_positive:
                break
            if form.is_negative:
                s = -s
                break
        else:
            return None
    return s


def _root_slopes(model, cls, rootf):
    """(sign of d root / d p, sign of d root / d ur) of the root equation rootf(p, inst) for symbolic positive
    states and adiabatic indices > 1; a sign is None when it is not definite (not shown)."""
    b, inst, mod = _instance(model, cls)
    p = b.mk('input', 'p')
    r = b.run_function(model.get_func('%s:%s' % (UTILS, rootf)), [p, inst])
    ev = NFEval(STATE + OTHER)
    n = ev.nf(r)
    out = []
    for var in (p, b.get_attr(inst, 'ur')):
        vn = ev.nf(var)
        keys = list(getattr(vn, 'f', {}).keys())
        if len(keys) != 1:
            raise AnalysisError('%s: differentiation variable is not an atom' % rootf)
        signs = set()
        for conds, leaf in leaves(ev.diff(n, keys[0])):
            if leaf is NAN or isinstance(leaf, Struct):
                signs.add(None)
                continue
            if ev.is_zero(leaf):
                signs.add(0)
                continue
            sy = NFSym(ev)
            e = sy.conv(leaf)
            signs.add(_definite_sign(e, [v for k, v in sy.syms.items() if k in ('param:gl', 'param:gr')]))
        out.append(signs.pop() if len(signs) == 1 else None)
    return tuple(out)


def boundaries(model, res, prop=PROP, rule=RULE):
    cls, drv, thr, branches = _read_driver(model)
    pats = [br for br in branches if br['letters']]
    if len(pats) < 4:
        raise AnalysisError('driver: only %d wave-pattern branches recognised (confirmed: 4)' % len(pats))
    n_before = res.obligations
    reported = []

    def ob(ok, br, detail, msg, sample=None):
        res.obligations += 1
        res.evaluations += 1
        res.nontrivial += 1
        if ok:
            res.discharged += 1
            if sample:
                res.sample(dict(sample, rule=rule), limit=40)
        else:
            reported.append(detail)
            res.add(Finding(prop, rule, drv.module.relpath, drv.qualname, detail, msg,
                            line=br['test'].lineno, construct=src_of(br['test'])[:120]))

    # (c) the root equation of a branch is built from the wave curves its soln_type names
    for br in pats:
        if br['root'] is None:
            raise AnalysisError('driver: no bisect root function in the %s branch' % br['letters'])
        kinds = _root_kinds(model, cls, br['root'])
        want = {'l': {br['letters'][0]}, 'r': {br['letters'][2]}}
        ob(kinds == want, br, '%s: root equation %s' % (br['letters'], br['root']),
           "RiemannIGEOS.driver: the %s branch finds the star pressure as the root of %s, which combines %s, but the "
           "star densities and the region table are selected by soln_type = %r: the star state is computed from wave "
           "curves of another pattern, so a shock can come out expansive"
           % (br['letters'], br['root'], ', '.join('%s wave: %s' % (s, '/'.join(sorted(k))) for s, k in sorted(kinds.items())),
              br['label']),
           {'branch': br['letters'], 'root': br['root'], 'waves': {k: sorted(v) for k, v in kinds.items()}})

    # (d) the root equation is strictly monotone in p (one root: with (a) the side of p* is decided) and the star
    #     pressure falls as ur grows (what (b) relies on): d root/d p and d root/d ur have the same definite sign
    for br in pats:
        try:
            sp_, su_ = _root_slopes(model, cls, br['root'])
        except DiffUnsupported as exc:
            raise AnalysisError('%s: derivative of the root equation not available (%s)' % (br['root'], exc))
        ob(sp_ in (1, -1), br, '%s: %s is strictly monotone in p' % (br['letters'], br['root']),
           "RiemannIGEOS.driver: the %s branch takes the star pressure as a root of %s, but d %s / d p is not of one sign "
           "for all positive states and adiabatic indices > 1 (sign pattern of the symbolic derivative: %s): the equation "
           "can have a second root on the other side of the initial pressure, which bisect may return: a shock with "
           "p* < p0 (expansive) or a fan that compresses" % (br['letters'], br['root'], br['root'], sp_),
           {'branch': br['letters'], 'root': br['root'], 'identity': 'sign(d %s / d p) = %s for all states' % (br['root'], sp_)})
        ob(sp_ in (1, -1) and su_ == sp_, br, '%s: star pressure of %s falls as ur grows' % (br['letters'], br['root']),
           "RiemannIGEOS.driver: for the %s branch d %s / d ur has sign %s and d %s / d p sign %s: the star pressure does not "
           "fall as ur grows, so below the threshold where the %s wave is degenerate the pattern with the shock is used "
           "with p* < p0 (expansion shock)" % (br['letters'], br['root'], su_, br['root'], sp_, br['letters']),
           {'branch': br['letters'], 'root': br['root'], 'identity': 'sign(d root / d ur) = sign(d root / d p) = %s' % sp_})

    # (a), (b) every threshold separates two patterns that differ in one wave, degenerate at the threshold
    for br in pats:
        for order, lo, hi in br['conj']:
            for role, name in (('lower', lo), ('upper', hi)):
                if name is None:
                    continue
                tfunc, targ, _ = thr[name]
                other = 'upper' if role == 'lower' else 'lower'
                partners = [q for q in branches if q is not br
                            for (o2, lo2, hi2) in q['conj']
                            if (o2 == order or o2 is None or order is None) and (lo2 if other == 'lower' else hi2) == name]
                if not partners:
                    ob(False, br, '%s: %s bound %s has no neighbour' % (br['letters'], role, name),
                       "RiemannIGEOS.driver: for %s >= the other pressure the %s branch is bounded by %s, but no branch takes "
                       "over on the other side of that threshold with the same pressure ordering: the patterns do not tile "
                       "the (p, u) plane" % (order, br['letters'], name))
                    continue
                q = partners[0]
                if not q['letters']:
                    continue                         # vacuum pattern (announced as not implemented)
                diff = [i for i in (0, 2) if br['letters'][i] != q['letters'][i]]
                if len(diff) != 1:
                    ob(False, br, '%s | %s at %s' % (br['letters'], q['letters'], name),
                       "RiemannIGEOS.driver: %s separates the patterns %s and %s, which differ in both waves: a single "
                       "threshold cannot make both degenerate" % (name, br['letters'], q['letters']))
                    continue
                side = 'l' if diff[0] == 0 else 'r'
                pd = 'p' + side
                ok, why = _vanishes(model, cls, tfunc, targ, br['root'], pd)
                ob(ok, br, '%s: %s(%s) is where the %s wave is degenerate' % (br['letters'], tfunc, targ, 'left' if side == 'l' else 'right'),
                   "RiemannIGEOS.driver: the %s branch is used for ur %s %s = %s(%s) (with %s the larger pressure), and its "
                   "neighbour across that threshold is %s, which has the other kind of %s wave.  At the threshold that wave "
                   "must be degenerate (p* = %s), i.e. %s(%s) with ur = %s must vanish identically; it does not (%s).  For ur "
                   "between the coded and the true threshold the %s wave is computed with the wrong kind of wave curve: a "
                   "shock with p* < %s (expansion shock) or a fan that compresses"
                   % (br['letters'], '<=' if role == 'upper' else '>', name, tfunc, targ, order, q['letters'],
                      'left' if side == 'l' else 'right', pd, br['root'], pd, name, why,
                      'left' if side == 'l' else 'right', pd),
                   {'branch': br['letters'], 'threshold': '%s(%s)' % (tfunc, targ), 'neighbour': q['letters'], 'degenerate': pd,
                    'identity': '%s(%s) == 0 at ur = threshold' % (br['root'], pd)})
                if role == 'upper':
                    ok = br['letters'][diff[0]] == 'S' and q['letters'][diff[0]] == 'R'
                    ob(ok, br, '%s | %s at %s: shock on the approaching side' % (br['letters'], q['letters'], name),
                       "RiemannIGEOS.driver: across %s the pattern %s is used for the smaller ur and %s for the larger, but "
                       "the star pressure falls as ur grows, so the pattern with the shock on the %s side must be the one "
                       "for the smaller ur: as coded the shock has p* < %s (expansive)"
                       % (name, br['letters'], q['letters'], 'left' if side == 'l' else 'right', pd))
    if res.obligations - n_before < 24 and not reported:
        raise AnalysisError('only %d wave-pattern conditions generated (confirmed: 24)' % (res.obligations - n_before))


# ---------------------------------------------------------------------------
# general-EOS driver: the kind of each wave follows from the star pressure itself

GENEOS = 'exactpack.solvers.riemann.riemann:RiemannGenEOS'
PRODUCER = {'r_int_call': 'R', 'match_shocks': 'S'}


def _names(node):
    return {x.id for x in ast.walk(node) if isinstance(x, ast.Name)}


def geneos_branches(model, res, prop=PROP, rule=RULE):
    """RiemannGenEOS.driver decides per side: star pressure below the initial pressure -> the star state is read
    from the integrated isentrope (r_int_call) of THAT side, above -> from the Hugoniot table (match_shocks) of that
    side.  The comparison, the table and the side must agree in every branch, else a shock is used for p* < p0."""
    cls = model.get_class(GENEOS)
    drv = cls.find_method('driver')
    if drv is None:
        raise AnalysisError('RiemannGenEOS.driver vanished')
    fn = drv.node
    # tables: name -> (kind, side) from `a, b, c = r_int_call([rl, ul, pl], ...)` / `match_shocks(pmax, pl, rl, ...)`
    table = {}
    for st in fn.body:
        if isinstance(st, ast.Assign) and isinstance(st.value, ast.Call) and isinstance(st.value.func, ast.Name) \
                and st.value.func.id in PRODUCER and isinstance(st.targets[0], ast.Tuple):
            fi = model.get_func('%s:%s' % (UTILS, st.value.func.id))
            if fi is None:
                raise AnalysisError('%s is no longer a helper of riemann.utils' % st.value.func.id)
            attrs = {_self_alias(fn, n) for a in st.value.args for n in _names(a)} - {None}
            sides = {a[-1] for a in attrs if a in ('pl', 'rl', 'ul', 'gl', 'pr', 'rr', 'ur', 'gr')}
            if len(sides) != 1:
                raise AnalysisError('driver: %s is called with a state of mixed sides' % src_of(st.value))
            for tg in st.targets[0].elts:
                if isinstance(tg, ast.Name):
                    table[tg.id] = (PRODUCER[st.value.func.id], sides.copy().pop())
    if len(table) < 12:
        raise AnalysisError('RiemannGenEOS.driver: only %d wave-curve tables found (confirmed: 12)' % len(table))
    done = 0
    for st in fn.body:
        if not isinstance(st, ast.If):
            continue
        node = st
        arms = []
        while True:
            arms.append((node.test, node.body))
            if len(node.orelse) == 1 and isinstance(node.orelse[0], ast.If):
                node = node.orelse[0]
                continue
            break
        for test, body in arms:
            if not (isinstance(test, ast.Compare) and len(test.ops) == 1 and isinstance(test.left, ast.Name)
                    and isinstance(test.comparators[0], ast.Name)):
                continue
            l, r = test.left.id, test.comparators[0].id
            al, ar = _self_alias(fn, l), _self_alias(fn, r)
            if (al in ('pl', 'pr')) == (ar in ('pl', 'pr')) or 'px' not in (l, r):
                continue
            side = (al or ar)[-1]
            below = isinstance(test.ops[0], (ast.Lt, ast.LtE)) == (l == 'px')      # star pressure below the initial one
            want = 'R' if below else 'S'
            used = []
            for x in ast.walk(ast.Module(body=body, type_ignores=[])):
                if isinstance(x, ast.Call) and isinstance(x.func, ast.Name) and x.func.id == 'interp':
                    for a in x.args[1:]:
                        if isinstance(a, ast.Name) and a.id in table:
                            used.append((a.id, table[a.id], x))
            letter = None
            for x in ast.walk(ast.Module(body=body, type_ignores=[])):
                if isinstance(x, ast.Assign) and isinstance(x.targets[0], ast.Subscript) and isinstance(x.value, ast.Constant) \
                        and isinstance(x.targets[0].value, ast.Name) and x.targets[0].value.id == 'soln_type':
                    letter = x.value.value
            if not used:
                continue
            done += 1
            res.obligations += 1
            res.evaluations += 1
            res.nontrivial += 1
            bad = [(n, ks) for n, ks, _ in used if ks != (want, side)]
            if not bad and letter == want:
                res.discharged += 1
                res.sample({'rule': rule, 'branch': src_of(test), 'wave': want, 'side': side,
                            'tables': sorted({n for n, _, _ in used})}, limit=40)
            else:
                what = ('reads the star state from %s' % ', '.join('%s (%s table of the %s state)'
                        % (n, 'isentrope' if k == 'R' else 'Hugoniot', 'left' if s == 'l' else 'right') for n, (k, s) in bad)) \
                    if bad else 'labels the wave %r' % letter
                res.add(Finding(prop, rule, drv.module.relpath, drv.qualname, 'general EOS: branch %s' % src_of(test),
                                "RiemannGenEOS.driver: in the branch `%s` the star pressure is %s the %s initial pressure, so the %s "
                                "wave is a %s; the branch %s: the star state and the wave speeds come from the wrong wave curve "
                                "(a shock with p* < p0 is expansive)"
                                % (src_of(test), 'below' if below else 'above', 'left' if side == 'l' else 'right',
                                   'left' if side == 'l' else 'right', 'rarefaction' if below else 'shock', what),
                                line=test.lineno, construct=src_of(test)))
    if done < 4:
        raise AnalysisError('RiemannGenEOS.driver: only %d wave-kind branches analysed (confirmed: 4)' % done)
