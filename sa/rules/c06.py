"""C06 -- a value depends only on (parameters, point, time) (DESIGN 3, C06).

(a) History independence as *non-interference on the value graph*.  Several
operations (constructor calls and calls, on two instances with independent
symbolic parameters and independent symbolic points/times) are interpreted in
ONE builder state, so module globals, class-level objects, default-argument
objects and instance attributes carry over exactly as they do in one
interpreter.  Every node is tagged with its operation.  A returned field of
operation k may depend only on leaves of its own operation and of its own
instance's parameters; reaching a point/time of another call or a parameter
of another instance is a violation, reported with the shared location through
which the dependence flows.  (b) argument mutation by constructors.
(c) batch independence: see pw.py.
"""
import ast

from ..model import AnalysisError, ClassInfo, src_of
from ..report import Result, Finding
from ..vg import Builder, walk, Node
from ..dimcheck import load_spec
from .c05 import phi_leaves, is_view_of, POS_RE

LEVEL = 'other'
PROP = 'C06'
MIN_RUNS = 45


def solution_fields(ret):
    out = []
    for leaf in phi_leaves(ret):
        if leaf.kind == 'call' and leaf.val == 'exactpack.base.ExactSolution':
            data = leaf.args[0] if leaf.args else leaf.kw.get('data')
            names = leaf.args[1] if len(leaf.args) > 1 else leaf.kw.get('names')
            if data is not None and data.kind in ('list', 'tuple') and names is not None \
                    and names.kind in ('list', 'tuple'):
                for a, d in zip(names.args, data.args):
                    out.append((a.val if a.kind == 'const' else '?', d, leaf))
                if 'jumps' in leaf.kw:
                    out.append(('<jumps>', leaf.kw['jumps'], leaf))
            else:
                out.append(('<solution>', leaf, leaf))
        elif leaf.kind not in ('const',):
            out.append(('<return>', leaf, leaf))
    return out


def _is_foreign(n, op, instance):
    if n.kind == 'input' and n.op != op:
        return True
    if n.kind in ('param', 'kwargs') and n.owner is not None and n.owner != instance:
        return True
    return False


def _key_parts(k):
    return list(k.args) if k.kind in ('tuple', 'list') else [k]


def _table_entries(base, out, seen, depth=0):
    """Flatten a keyed table value: phi / store chains down to its initialiser.
    -> entries (key Node, value Node); returns False if the shape is not a pure store chain."""
    if base.nid in seen or depth > 200:
        return True
    seen.add(base.nid)
    k = base.kind
    if k == 'phi':
        return _table_entries(base.args[1], out, seen, depth + 1) and _table_entries(base.args[2], out, seen, depth + 1)
    if k == 'store':
        out.append((base.args[1], base.args[2]))
        return _table_entries(base.args[0], out, seen, depth + 1)
    if k == 'dict':
        for kk, vv in zip(base.val, base.args):
            if isinstance(kk, Node):
                out.append((kk, vv))
        return True
    if k == 'call' and base.val in ('builtins.dict', 'collections.OrderedDict') and not base.args:
        return True
    if k in ('undef',):
        return True
    return False


def foreign_leaves(node, op, instance, cache):
    """Leaves under `node` that belong to another operation / instance.

    A read `table[key]` of a keyed store chain (a memo table: `if key not in T: T[key] = f(..)`;
    `T[key]`) returns the entry whose key EQUALS the read key, so a leaf of another instance that
    occurs in a stored value is not a foreign influence when the same leaf is a component of the
    entry's key and the corresponding component of the read key is the operation's own: on a hit
    the two are equal.  Every other foreign leaf of the stored value (something the value depends
    on that the key does not pin) is reported, and so is everything the key itself depends on."""
    ck = node.nid
    if ck in cache:
        return cache[ck]
    bad = {}
    seen = set()
    stack = [(node, frozenset())]
    while stack:
        n, excused = stack.pop()
        if n is None or not isinstance(n, Node) or (n.nid, excused) in seen:
            continue
        seen.add((n.nid, excused))
        if _is_foreign(n, op, instance):
            if n.nid not in excused:
                bad[n.nid] = n
            continue
        if n.kind == 'sub' and len(n.args) == 2:
            entries = []
            if n.args[0].kind in ('phi', 'store') and _table_entries(n.args[0], entries, set()) and entries:
                rk = _key_parts(n.args[1])
                stack.append((n.args[1], excused))
                for sk, sv in entries:
                    sp = _key_parts(sk)
                    ex = set(excused)
                    if len(sp) == len(rk):
                        for a, c in zip(sp, rk):
                            own = not any(_is_foreign(x, op, instance) for x in walk(c))
                            if own and a.kind in ('param', 'input'):
                                ex.add(a.nid)
                    stack.append((sv, frozenset(ex)))
                continue
        if n.kind == 'phi' and n.args[0].kind == 'cmp' and n.args[0].val in ('in', 'not in'):
            # `key in table`: whether an entry exists depends on history, the entry's value does not
            # (checked through the reads of the table); follow the key only
            stack.append((n.args[0].args[0], excused))
            stack.append((n.args[1], excused))
            stack.append((n.args[2], excused))
            continue
        stack.extend((a, excused) for a in n.args if isinstance(a, Node))
        stack.extend((a, excused) for a in n.kw.values() if isinstance(a, Node))
        if n.kind == 'dict':
            stack.extend((k, excused) for k in n.val if isinstance(k, Node))
        if n.ho and n.ho.get('result') is not None:
            stack.append((n.ho['result'], excused))
    out = list(bad.values())
    cache[ck] = out
    return out


def channel(b, op, leaf_set):
    """A shared read of operation `op` whose value reaches one of the foreign leaves."""
    ids = {l.nid for l in leaf_set}
    for key, val, rop, at in b.shared_reads:
        if rop != op or val is None:
            continue
        for n in walk(val):
            if n.nid in ids:
                return key, at
    return None, None


def loc_text(key):
    if key is None:
        return 'an instance attribute written by the earlier call'
    if key[0] == 'heap':
        return 'attribute %s of the shared %s object' % (key[3], key[2])
    if key[0] == 'classattr':
        return 'class attribute %s.%s' % (key[1].split(':')[-1], key[2])
    return 'module global %s.%s' % (key[0].replace('exactpack.solvers.', ''), key[1])


def check_class(model, ci, res, stats, partner=None):
    """Operation sequence on `ci` (and optionally a second class sharing state)."""
    b = Builder(model)
    cj = partner or ci
    i1, _ = b.op_construct(ci, label='#1')
    seq = []
    r1 = b.op_run(i1, '#a')
    seq.append((i1, r1))
    i2, _ = b.op_construct(cj, label='#2')
    r2 = b.op_run(i2, '#b')
    seq.append((i2, r2))
    r3 = b.op_run(i1, '#c')
    seq.append((i1, r3))
    if partner is None:
        r4 = b.op_run(i1, '#d')
        seq.append((i1, r4))
    runm = ci.find_method('_run')
    cache = {}
    for objn, (ret, op, inputs) in seq:
        inst = objn.val.oid
        fields = solution_fields(ret)
        stats['fields'] += len(fields)
        for name, d, sol in fields:
            res.obligations += 1
            bad = foreign_leaves(d, op, inst, cache)
            if not bad:
                res.discharged += 1
                continue
            key, at = channel(b, op, bad)
            what = sorted({('%s of %s' % (l.val, b.ops[l.op]['kind'])) if l.kind == 'input' else
                           ('parameter %s of the other instance' % l.val if l.kind == 'param' else
                            'the constructor keywords of the other instance') for l in bad})[:3]
            cls_here = objn.val.cls
            rm = cls_here.find_method('_run')
            loc = loc_text(key)
            detail = "%s: returned fields depend on another operation through %s" % (cls_here.name, loc)
            if partner is not None:
                detail += ' (after %s)' % cj.name if objn is i1 else ' (after %s)' % ci.name
            relpath = rm.module.relpath
            if key is not None and key[0] not in ('heap', 'classattr') and key[0] in model.modules \
                    and at is not None:
                relpath = model.modules[key[0]].relpath      # the read site is in the global's own module
            res.add(Finding(PROP, 'C06.history', relpath, rm.qualname, detail,
                            "%s: the field '%s' returned by '%s' depends on %s: the value flows through %s, "
                            "which the operation reads before (or without) writing it itself"
                            % (cls_here.name, name, b.ops[op]['kind'], ', '.join(what), loc),
                            line=getattr(at, 'lineno', 0) or getattr(rm.node, 'lineno', 0),
                            construct=src_of(at) if at is not None else 'def _run'))
    # shared reads that observe a value written by a *different* operation even if that
    # value does not depend on the other operation's data (depends on whether it ran)
    own_ops = {}
    for idx, o in enumerate(b.ops):
        own_ops.setdefault(o.get('instance'), set()).add(idx)
    for key, val, rop, at in b.shared_reads:
        if rop == 0 or val is None or b.ops[rop]['kind'].startswith('construct'):
            continue
        inst = b.ops[rop].get('instance')
        for l in phi_leaves(val):
            if l.op not in (0, rop) and l.op not in own_ops.get(inst, ()) and l.kind not in ('closure', 'module', 'class', 'extfunc'):
                stats['stale_reads'].append('%s read in %s sees a value written by %s'
                                            % (loc_text(key), b.ops[rop]['kind'], b.ops[l.op]['kind']))
    stats['shared_reads'] += len(b.shared_reads)
    stats['ops'] += len(b.ops) - 1
    return b


def setter_history(model, ci, res, stats):
    """'... or by the use of any other solver in the same process': a public setter called on ANOTHER instance must not
    change what this instance returns.  Sequence: construct #1, construct #2, every public `set_*` method of #2 with
    fresh symbolic arguments, then call #1; no returned field of #1 may depend on an argument of a setter of #2."""
    names = set()
    for cn in ci.mro:
        c = cn if hasattr(cn, 'methods') else (model.classes.get(cn) if hasattr(model, 'classes') and isinstance(getattr(model, 'classes'), dict) else None)
        if c is not None:
            names |= {m for m in c.methods if m.startswith('set_')}
    if not names:
        names = {m for m in ci.methods if m.startswith('set_')}
    setters = sorted(names)
    if not setters:
        return 0
    b = Builder(model)
    i1, _ = b.op_construct(ci, label='#1')
    i2, _ = b.op_construct(ci, label='#2')
    for nm in setters:
        b.op_method(i2, nm, '#s')
    ret, op, inputs = b.op_run(i1, '#a')
    inst = i1.val.oid
    cache = {}
    for name, d, sol in solution_fields(ret):
        res.obligations += 1
        bad = foreign_leaves(d, op, inst, cache)
        if not bad:
            res.discharged += 1
            continue
        key, at = channel(b, op, bad)
        rm = ci.find_method('_run')
        what = sorted({'%s of %s' % (l.val, b.ops[l.op]['kind']) for l in bad if l.kind == 'input'})[:3]
        res.add(Finding(PROP, 'C06.history', rm.module.relpath, rm.qualname,
                        "%s: returned fields depend on a setter called on another instance through %s" % (ci.name, loc_text(key)),
                        "%s: the field '%s' returned by one instance depends on %s, a public setter called on ANOTHER instance: the value "
                        "flows through %s, an object the instances share" % (ci.name, name, ', '.join(what) or 'a setter argument', loc_text(key)),
                        line=getattr(at, 'lineno', 0) or rm.node.lineno, construct=src_of(at) if at is not None else 'def _run'))
    stats['ops'] += len(b.ops) - 1
    return len(setters)


def shared_class_objects(model, ci, res, stats):
    """A class-body attribute that holds an INSTANCE of a repository class is one object shared by every instance of the
    solver class and of its subclasses.  A public method that hands one of its own arguments to a method of that object
    which stores it (`self.solver.set_new_tolerance(new_tolerance)`) lets one solver change what every other solver
    computes afterwards.  Not shared: an attribute the constructor rebinds to a fresh object on every path start
    (`self.solver = newton_solver()` at the top level of __init__)."""
    import ast as _ast
    n = 0
    for st in ci.node.body:
        if not (isinstance(st, _ast.Assign) and len(st.targets) == 1 and isinstance(st.targets[0], _ast.Name)
                and isinstance(st.value, _ast.Call)):
            continue
        r = model.resolve_dotted(ci.module, st.value.func)
        if r is None or r[0] != 'class':
            continue
        ocls = model.get_class(r[1]) if isinstance(r[1], str) else r[1]
        if ocls is None:
            continue
        attr = st.targets[0].id
        init = ci.methods.get('__init__')
        rebound = init is not None and any(
            isinstance(x, _ast.Assign) and any(isinstance(t, _ast.Attribute) and isinstance(t.value, _ast.Name)
                                               and t.value.id == init.node.args.args[0].arg and t.attr == attr for t in x.targets)
            and isinstance(x.value, _ast.Call) for x in init.node.body)
        # storing methods of the shared object's class: self.<a> = <own parameter>
        storing = {}
        for mname, m in ocls.methods.items():
            params = {a.arg for a in m.node.args.args[1:]}
            for x in _ast.walk(m.node):
                if isinstance(x, _ast.Assign) and isinstance(x.value, _ast.Name) and x.value.id in params \
                        and any(isinstance(t, _ast.Attribute) and isinstance(t.value, _ast.Name) for t in x.targets):
                    storing[mname] = m
        for mname, m in ci.methods.items():
            if mname.startswith('_'):
                continue
            selfn = m.node.args.args[0].arg
            params = {a.arg for a in m.node.args.args[1:]}
            for c in _ast.walk(m.node):
                if isinstance(c, _ast.Call) and isinstance(c.func, _ast.Attribute) and c.func.attr in storing \
                        and isinstance(c.func.value, _ast.Attribute) and isinstance(c.func.value.value, _ast.Name) \
                        and c.func.value.value.id == selfn and c.func.value.attr == attr \
                        and any(isinstance(a, _ast.Name) and a.id in params for a in c.args):
                    n += 1
                    res.obligations += 1
                    if rebound:
                        res.discharged += 1
                        continue
                    res.add(Finding(PROP, 'C06.shared-object', m.module.relpath, m.qualname,
                                    '%s.%s is shared by all instances; %s stores its argument in it' % (ci.name, attr, mname),
                                    "%s.%s = %s(...) is evaluated once, in the class body: every instance of %s and of its subclasses uses "
                                    "the same object.  The public method %s hands its argument to %s.%s, which stores it there, so calling it "
                                    "on one solver changes what every other solver returns afterwards"
                                    % (ci.name, attr, ocls.name, ci.name, mname, ocls.name, c.func.attr),
                                    line=c.lineno, construct=src_of(c)[:100]))
    return n


UNINIT = ('numpy.empty', 'numpy.empty_like', 'numpy.ndarray')


def _full_slice(idx):
    return (idx.kind == 'slice' and all(a.kind == 'const' and a.val is None for a in idx.args)) or \
        (idx.kind == 'const' and idx.val is Ellipsis)


def _same_index(a, b, depth=0):
    if a is b:
        return True
    if depth > 6 or a.kind != b.kind:
        return False
    if a.kind == 'const':
        return a.val == b.val and type(a.val) is type(b.val)
    if a.kind in ('binop', 'tuple', 'unop') and a.val == b.val and len(a.args) == len(b.args):
        return all(_same_index(x, y, depth + 1) for x, y in zip(a.args, b.args))
    return False


def _reaches_uninit(node, idx, seen, depth=0):
    """Does a read at `idx` of the array value `node` possibly see memory that was never written?
    True when some path through the store / phi / loop-entry chain reaches numpy.empty(_like)
    without passing a store to the same index or a whole-array store."""
    if node is None or not isinstance(node, Node) or node.nid in seen or depth > 400:
        return None
    seen.add(node.nid)
    k = node.kind
    if k == 'store':
        if _full_slice(node.args[1]) or _same_index(node.args[1], idx):
            return None
        return _reaches_uninit(node.args[0], idx, seen, depth + 1)
    if k == 'phi':
        return _reaches_uninit(node.args[1], idx, seen, depth + 1) or _reaches_uninit(node.args[2], idx, seen, depth + 1)
    if k == 'mu':
        # value at loop entry (first iteration); the back edge only adds stores
        return _reaches_uninit(node.args[0], idx, seen, depth + 1)
    if k == 'call' and node.val in UNINIT:
        return node
    return None


def uninitialised_reads(b, ci, res, stats):
    """An element read of an array allocated with numpy.empty / empty_like that is not preceded,
    on every path, by a store to the same element (or a whole-array store) returns whatever the
    allocator left there: the result then depends on the history of the process, not on
    (parameters, point, time)."""
    reported = set()
    for n in b.trace:
        if n.kind != 'sub' or len(n.args) != 2:
            continue
        stats['element_reads'] = stats.get('element_reads', 0) + 1
        idx = n.args[1]
        if _full_slice(idx) or idx.kind == 'slice':
            continue
        root = _reaches_uninit(n.args[0], idx, set())
        if root is None:
            continue
        fn, at = n.origin if n.origin else (None, None)
        key = (getattr(fn, 'fullname', '?'), src_of(at) if at is not None else '')
        if key in reported:
            continue
        reported.add(key)
        res.obligations += 1
        f = fn or ci.find_method('_run')
        res.add(Finding(PROP, 'C06.uninitialised', f.module.relpath, f.qualname,
                        'read of %s from an array allocated with %s' % (src_of(at)[:60] if at is not None else 'an element',
                                                                        root.val.split('.')[-1]),
                        "%s: `%s` reads an element of an array allocated with %s (line %s) that is not written before on every "
                        "path (no store to the same element, no whole-array store): the value is whatever the allocator "
                        "left in memory, so the returned solution depends on the history of the process"
                        % (ci.name, src_of(at)[:80] if at is not None else '?', root.val,
                           getattr(root.origin[1], 'lineno', '?') if root.origin else '?'),
                        line=getattr(at, 'lineno', 0), construct=src_of(at) if at is not None else ''))


def check_ctor_mutation(model, ci, res, stats):
    """No constructor mutates in place an object it received as an argument
    (or a default-argument object, which is shared by all calls)."""
    init = ci.find_method('__init__')
    if init is None:
        return
    a = init.node.args
    names = [p.arg for p in a.args[1:]]
    b = Builder(model)
    b.frame = None
    from ..vg import Frame
    b.frame = Frame(None, ci.module, {}, None)
    b.begin_op('construct %s (explicit arguments)' % ci.name)
    ctor_args = {}
    for nm in names:
        n = b.mk('input', 'arg:' + nm)
        ctor_args[nm] = n
    b.instantiate(ci, symbolic=True, kw=dict({'**': b.mk('kwargs')}, **ctor_args))
    b2 = Builder(model)
    b2.frame = Frame(None, ci.module, {}, None)
    b2.begin_op('construct %s (default arguments)' % ci.name)
    b2.instantiate(ci, symbolic=True, kw={'**': b2.mk('kwargs')})
    res.obligations += 1
    bad = False
    for bb, mode in ((b, 'arg'), (b2, 'default')):
        for kind, recv, at, func in bb.mutations:
            hit = None
            if mode == 'arg':
                for nm, n in ctor_args.items():
                    if is_view_of(recv, n):
                        hit = "the caller's argument '%s'" % nm
            else:
                if recv.nid in bb.default_nodes:
                    f, p = bb.default_nodes[recv.nid]
                    hit = "the default-argument object of '%s' (shared by every call of %s)" % (p, f.qualname)
            if hit:
                fi = func or init
                res.add(Finding(PROP, 'C06.arg-mutation', fi.module.relpath, fi.qualname,
                                '%s on %s' % (kind, hit.split(' (')[0]),
                                "%s: constructing the solver modifies %s in place (%s): another solver built from "
                                "the same object, or a later default construction, sees the change"
                                % (ci.name, hit, kind), line=getattr(at, 'lineno', 0), construct=src_of(at)))
                bad = True
    stats['ctor_mutation_sites'] += len(b.mutations) + len(b2.mutations)
    if not bad:
        res.discharged += 1


def shared_state_inventory(model):
    """Module globals written inside functions; class-level mutable attributes."""
    gw = {}
    for fi in model.all_functions():
        for n in ast.walk(fi.node):
            if isinstance(n, ast.Global):
                for nm in n.names:
                    gw.setdefault((fi.module.name, nm), set()).add(fi.qualname)
    cl = []
    for ci in model.all_classes():
        for nm, vals in ci.attrs.items():
            v = vals[-1]
            if isinstance(v, (ast.List, ast.Dict, ast.Set)) or (isinstance(v, ast.Call) and nm not in ('parameters',)):
                if nm in ('parameters',):
                    continue
                cl.append('%s.%s' % (ci.fullname, nm))
    return gw, cl


def run(model, tier):
    res = Result(PROP)
    res.explanation = (
        'Non-interference on the inlined value graph. For every solver class a sequence of operations '
        '(construct #1, call #1, construct #2 with independent symbolic parameters, call #2, call #1 again, '
        'call #1 again) is interpreted in one abstract interpreter state, so module globals, class-level '
        'objects, default-argument objects and instance attributes carry over between operations as in one '
        'Python process; classes of one package that share a module are also paired with each other. Each '
        'returned field of each call must not be data- or control-dependent on a point/time of another call '
        'or on a parameter of another instance. Flow-sensitive (a global parameter block written at entry '
        'dominates its reads), path-sensitive for constant configuration guards, callbacks of root finders / '
        'ODE integrators are interpreted at the call that receives them. In addition no constructor may '
        'modify in place an object it received as an argument or a shared default-argument object. '
        'Batch independence (points of one request do not influence each other) is decided by the '
        'point-wise shape analysis pw.py.')
    res.rule_text = ('instance = one returned field of one call in one operation sequence; non-trivial = '
                     'the sequence touched at least one shared location')
    res.trusted_base = ['CPython ast', 'builder model of Python scoping (globals, class attributes, closures, defaults)',
                        'library calls are pure functions of their arguments (numpy/scipy)']
    gw, cl = shared_state_inventory(model)
    res.extra['module_globals_written_in_functions'] = sorted('%s.%s' % k for k in gw)
    res.extra['class_level_mutable_attributes'] = cl
    stats = {'fields': 0, 'shared_reads': 0, 'ops': 0, 'stale_reads': [], 'ctor_mutation_sites': 0}
    classes = [ci for ci in model.solver_classes() if '_run' in ci.methods]
    if len(classes) < MIN_RUNS:
        raise AnalysisError('only %d classes define _run (confirmed >= %d)' % (len(classes), MIN_RUNS))
    by_pkg = {}
    for ci in classes:
        res.evaluations += 1
        b = check_class(model, ci, res, stats)
        stats['setter_ops'] = stats.get('setter_ops', 0) + setter_history(model, ci, res, stats)
        stats['shared_object_sites'] = stats.get('shared_object_sites', 0) + shared_class_objects(model, ci, res, stats)
        uninitialised_reads(b, ci, res, stats)
        if any(op != 0 for _, _, op, _ in b.shared_reads):
            res.nontrivial += 1
        res.analysed.append(ci.fullname)
        by_pkg.setdefault(ci.module.package, []).append(ci)
    # cross-class pairs inside a package (shared module state)
    pairs = 0
    for pkg, cs in by_pkg.items():
        if len(cs) < 2:
            continue
        if tier == 'quick' and len(cs) > 6:
            continue      # the Coggeshall package: 20 classes, no shared module state (thorough tier pairs them)
        for a in cs:
            for c in cs:
                if a is not c:
                    res.evaluations += 1
                    pairs += 1
                    check_class(model, a, res, stats, partner=c)
    for ci in model.solver_classes():
        if '__init__' in ci.methods:
            check_ctor_mutation(model, ci, res, stats)
    res.extra['operation_sequences'] = res.evaluations
    res.extra['cross_class_pairs'] = pairs
    res.extra['fields_checked'] = stats['fields']
    res.extra['operations_interpreted'] = stats['ops']
    res.extra['shared_location_reads_logged'] = stats['shared_reads']
    res.extra['reads_of_values_written_by_other_operations'] = sorted(set(stats['stale_reads']))[:40]
    res.extra['ctor_mutation_sites_scanned'] = stats['ctor_mutation_sites']
    res.extra['element_reads_scanned_for_uninitialised_memory'] = stats.get('element_reads', 0)
    # batch clause
    from .. import pw
    pw.check(model, res, tier)
    from . import c06_stale
    c06_stale.check(model, res)
    return res
