"""C16 -- EOS library closures and Newton Jacobians: interface, dimensions,
inverse closures (DESIGN 3, C16)."""
import ast

from ..model import AnalysisError, ClassInfo, src_of
from ..report import Result, Finding
from ..vg import Builder, Frame, Closure
from ..dim import DimSystem, DimEval, Lin, Seq, Sparse, POLY
from ..dimcheck import findings_from
from ..ratnf import RatEval, is_zero
from ..nf import NFEval

LEVEL = 'other'
PROP = 'C16'
EOSMOD = 'exactpack.solvers.nohblackboxeos.equations_of_state.eos_library'
RESMOD = 'exactpack.solvers.nohblackboxeos.solution_tools.residual_functions'
EOS_CLASSES = {
    'ideal_gas_eos': ['gamma'],
    'stiffened_gas_eos': ['gamma', 'c_s', 'rho_inf'],
    'noble_abel_eos': ['gamma', 'b'],
    'carnahan_starling_eos': ['gamma', 'b'],
    'steinberg': ['reference_density', 'reference_pressure', 'reference_gruneisen', 'b', 'c_0', 's_1', 's_2', 's_3'],
}
METHODS = {   # name -> (second argument, result dimension)
    'e': ('P', {'L': 2, 'T': -2}),
    'de_dP': ('P', {'L': 3, 'M': -1}),
    'de_drho': ('P', {'L': 5, 'T': -2, 'M': -1}),
    'P': ('e', {'M': 1, 'L': -1, 'T': -2}),
    'dP_drho': ('e', {'L': 2, 'T': -2}),
    'dP_de': ('e', {'M': 1, 'L': -3}),
}
ARGD = {'rho': {'M': 1, 'L': -3}, 'P': {'M': 1, 'L': -1, 'T': -2}, 'e': {'L': 2, 'T': -2}}
RES_CLASSES = ['energy_noh_residual', 'simplified_energy_noh_residual', 'pressure_noh_residual',
               'simplified_pressure_noh_residual']


def interface(model, res):
    mod = model.modules.get(EOSMOD)
    if mod is None:
        raise AnalysisError('EOS library module vanished')
    for cn in EOS_CLASSES:
        if cn not in mod.classes:
            raise AnalysisError('EOS class %s vanished' % cn)
        ci = mod.classes[cn]
        for mname, (second, _) in METHODS.items():
            res.obligations += 1
            res.evaluations += 1
            m = ci.find_method(mname)
            stub = m is not None and all(isinstance(s, (ast.Return, ast.Raise, ast.Expr)) and
                                         ('NotImplemented' in src_of(s)) for s in m.node.body)
            if m is None or stub:
                res.add(Finding(PROP, 'C16.interface', ci.module.relpath, ci.name, '%s.%s missing' % (cn, mname),
                                'EOS class %s does not implement %s()' % (cn, mname), line=ci.node.lineno,
                                construct='class %s' % cn))
                continue
            names = [a.arg for a in m.node.args.args]
            if names != ['self', 'rho', second]:
                res.add(Finding(PROP, 'C16.interface', m.module.relpath, m.qualname,
                                '%s.%s parameters %s' % (cn, mname, names[1:]),
                                "EOS method %s.%s is declared with parameters %s but every residual class calls it as "
                                "%s(rho, %s): the two arguments are exchanged inside the method"
                                % (cn, mname, tuple(names[1:]), mname, second), line=m.node.lineno,
                                construct='def %s(%s)' % (mname, ', '.join(names))))
                continue
            res.discharged += 1


def eos_dims(model, res):
    mod = model.modules[EOSMOD]
    for cn, attrs in EOS_CLASSES.items():
        ci = mod.classes[cn]
        b = Builder(model)
        b.frame = Frame(None, mod, {}, None)
        inst = b.symbolic_obj(ci, attrs)
        S = DimSystem(attrs)
        inputs = {}
        ev = DimEval(S, input_dims=inputs)
        results = []
        for mname, (second, want) in METHODS.items():
            m = ci.find_method(mname)
            if m is None:
                continue
            rho = b.mk('input', 'rho')
            x = b.mk('input', second)
            clo = Closure(m, m.node, None, self_node=inst, cls=m.cls, module=m.module)
            b.frame = Frame(None, mod, {}, None)
            # positional call, as the residual classes make it: (rho, P) / (rho, e)
            ret = b.call_closure(clo, [rho, x], {}, m.node)
            results.append((mname, m, ret, want))
        ev.input_dims.update({k: S.from_spec(v) for k, v in ARGD.items()})
        ev.run(b.trace)
        for mname, m, ret, want in results:
            d = ev.dim(ret)
            if isinstance(d, Seq):
                d = ev.homog(d)
            if d is POLY:
                continue
            if not isinstance(d, Lin):
                res.notes.append('%s.%s: result dimension unresolved' % (cn, mname))
                continue
            S.unify(d, S.from_spec(want), ret, "result of %s.%s vs [closure]/[variable]" % (cn, mname), priority=0)
        findings_from(S, ev, PROP, 'C16.dim', res)
        res.obligations += S.constraints
        res.discharged += S.constraints - len(S.inconsistencies)
        res.evaluations += S.constraints
        res.nontrivial += S.nontrivial + S.checked
        res.analysed.append('%s:%s' % (EOSMOD, cn))
        res.extra.setdefault('eos_constants', {})[cn] = {k: S.show(v) for k, v in ev.param_vars.items()}


def inverse_closures(model, res):
    mod = model.modules[EOSMOD]
    for cn, attrs in EOS_CLASSES.items():
        ci = mod.classes[cn]
        me, mp = ci.find_method('e'), ci.find_method('P')
        if me is None or mp is None:
            continue
        for outer, inner, var in ((mp, me, 'P'), (me, mp, 'e')):
            b = Builder(model)
            b.frame = Frame(None, mod, {}, None)
            inst = b.symbolic_obj(ci, attrs)
            rho = b.mk('input', 'rho')
            x = b.mk('input', var)
            b.frame = Frame(None, mod, {}, None)
            mid = b.call_closure(Closure(inner, inner.node, None, self_node=inst, cls=inner.cls, module=inner.module),
                                 [rho, x], {}, inner.node)
            b.frame = Frame(None, mod, {}, None)
            back = b.call_closure(Closure(outer, outer.node, None, self_node=inst, cls=outer.cls, module=outer.module),
                                  [rho, mid], {}, outer.node)
            re = RatEval(NFEval(attrs))
            res.obligations += 1
            res.evaluations += 1
            res.nontrivial += 1
            # piecewise closures (Steinberg): compare piece by piece through the NF of the phi tree
            from .c05 import phi_leaves
            ok = True
            for leaf in phi_leaves(back):
                if leaf.kind == 'unknown':
                    continue
                if not is_zero(re.r(leaf) - re.r(x)):
                    ok = False
            if ok:
                res.discharged += 1
                res.sample({'rule': 'C16.inverse', 'class': cn, 'identity': '%s(rho, %s(rho, %s)) == %s'
                            % (outer.name, inner.name, var, var)}, limit=30)
            else:
                res.add(Finding(PROP, 'C16.inverse', outer.module.relpath, '%s.%s' % (cn, outer.name),
                                '%s: %s(rho, %s(rho, %s)) != %s' % (cn, outer.name, inner.name, var, var),
                                "EOS %s: the closures are not mutual inverses: %s(rho, %s(rho, %s)) does not reduce to %s "
                                "as a rational function" % (cn, outer.name, inner.name, var, var), line=outer.node.lineno,
                                construct='def %s' % outer.name))


def residual_dims(model, res):
    mod = model.modules.get(RESMOD)
    emod = model.modules[EOSMOD]
    if mod is None:
        raise AnalysisError('residual_functions module vanished')
    for cn in RES_CLASSES:
        if cn not in mod.classes:
            raise AnalysisError('residual class %s vanished' % cn)
        ci = mod.classes[cn]
        mF, mJ = ci.find_method('F'), ci.find_method('F_prime')
        if mF is None or mJ is None:
            raise AnalysisError('%s.F / F_prime vanished' % cn)
        b = Builder(model)
        b.frame = Frame(None, mod, {}, None)
        eos = b.symbolic_obj(emod.classes['stiffened_gas_eos'], EOS_CLASSES['stiffened_gas_eos'])
        attrs = ['u_0', 'rho_0', 'P_0', 'e_0', 'symmetry']
        inst = b.symbolic_obj(ci, attrs, {'equation_of_state': eos,
                                          'result': b.mk('call', 'numpy.zeros', [b.const(3)]),
                                          'DF': b.mk('call', 'numpy.zeros', [b.const(3)]),
                                          'DF_inv': b.mk('call', 'numpy.zeros', [b.const(3)])})
        nstate = 3 if 'simplified' not in cn else 2
        state = b.mk('input', 'state')
        b.frame = Frame(None, mod, {}, None)
        rF = b.call_closure(Closure(mF, mF.node, None, self_node=inst, cls=mF.cls, module=mF.module), [state], {}, mF.node)
        b.frame = Frame(None, mod, {}, None)
        rJ = b.call_closure(Closure(mJ, mJ.node, None, self_node=inst, cls=mJ.cls, module=mJ.module), [state], {}, mJ.node)
        S = DimSystem(attrs + EOS_CLASSES['stiffened_gas_eos'])
        rho, P, E, V = (S.from_spec(ARGD['rho']), S.from_spec(ARGD['P']), S.from_spec(ARGD['e']),
                        S.from_spec({'L': 1, 'T': -1}))
        # which unknowns the class solves for: (rho, P|e, D) or (rho, D)
        unpack = None
        for st in ast.walk(mF.node):
            if isinstance(st, ast.Assign) and isinstance(st.targets[0], ast.Tuple) and src_of(st.value) == 'state':
                unpack = [e.id for e in st.targets[0].elts]
        if unpack is None:
            raise AnalysisError('%s.F no longer unpacks its state vector' % cn)
        byname = {'rho': rho, 'P': P, 'e': E, 'D': V}
        if any(u not in byname for u in unpack):
            raise AnalysisError('%s.F: unknown state component in %s' % (cn, unpack))
        xs = [byname[u] for u in unpack]
        pd = {'u_0': V, 'rho_0': rho, 'P_0': P, 'e_0': E, 'symmetry': S.dimless(), 'gamma': S.dimless()}
        ev = DimEval(S, input_dims={'state': Seq(xs)}, param_dims=pd)
        ev.run(b.trace)
        dF = ev.deseq(ev.dim(rF))
        dJ = ev.dim(rJ)
        if not isinstance(dF, Seq) or not isinstance(dJ, Sparse):
            raise AnalysisError('%s: components of F / F_prime did not resolve (%s / %s)' % (cn, S.show(dF), S.show(dJ)))
        n = len(xs)
        for i in range(n):
            for j in range(n):
                dij = dJ.items.get((i, j), POLY)
                fi = dF.items[i] if i < len(dF.items) else None
                if isinstance(dij, Lin) and isinstance(fi, Lin):
                    S.unify(dij, S.add(fi, xs[j], -1), rJ,
                            'Jacobian entry DF[%d,%d] of %s vs [F_%d]/[%s]' % (i, j, cn, i, unpack[j]), priority=0)
        findings_from(S, ev, PROP, 'C16.dim', res)
        res.obligations += S.constraints
        res.discharged += S.constraints - len(S.inconsistencies)
        res.evaluations += S.constraints
        res.nontrivial += S.nontrivial + S.checked
        res.analysed.append('%s:%s (%s)' % (RESMOD, cn, ','.join(unpack)))


# ---------------------------------------------------------------------------
# (5) derivatives: syntax-directed differentiation of the closed-form closures / residuals

REGIONS = {   # class -> list of (label, density as a multiple of the reference density) that select a piece
    'steinberg': [('tension, rho < reference_density', (1, 2)), ('compression, rho > reference_density', (2, 1))],
}
PARTIALS = [('P', 'e', 'rho', 'dP_drho'), ('P', 'e', 'e', 'dP_de'), ('e', 'P', 'rho', 'de_drho'), ('e', 'P', 'P', 'de_dP')]


def _select_piece(ev, sy, x, subs, what):
    """The piece of a piecewise normal form on which the point `subs` (sympy substitution) lies."""
    import sympy as sp
    from ..nf import leaves as nf_leaves, PW, Struct, NAN as _NAN

    def value(n):
        v = ev.nf(n)
        if v is _NAN or isinstance(v, (PW, Struct)):
            raise AnalysisError('%s: condition operand is not a closed form' % what)
        return sy.conv(v).subs(subs)

    def truth(c):
        k = c.kind
        if k == 'cmp' and len(c.args) == 2:
            d = sp.simplify(value(c.args[0]) - value(c.args[1]))
            pos, neg, zero = d.is_positive, d.is_negative, d.is_zero
            if pos is None and neg is None and zero is None:
                raise AnalysisError('%s: cannot decide `%s` on the region' % (what, c.src[:60]))
            return {'<': bool(neg), '<=': bool(neg or zero), '>': bool(pos), '>=': bool(pos or zero),
                    '==': bool(zero), '!=': not bool(zero)}[c.val]
        if k == 'bool':
            vals = [truth(a) for a in c.args]
            return all(vals) if c.val == 'and' else any(vals)
        if k == 'unop' and c.val == 'not':
            return not truth(c.args[0])
        if k == 'const':
            return bool(c.val)
        if k == 'phi':
            return truth(c.args[1]) if truth(c.args[0]) else truth(c.args[2])
        raise AnalysisError('%s: unsupported condition %s' % (what, k))
    out = []
    for conds, leaf in nf_leaves(x):
        if all(truth(cn) == pol for _, pol, cn in conds):
            out.append(leaf)
    ks = {l.key() for l in out if l is not _NAN}
    if len(ks) != 1:
        raise AnalysisError('%s: %d pieces selected on the region' % (what, len(ks)))
    return [l for l in out if l is not _NAN][0]


def eos_derivatives(model, res):
    import sympy as sp
    from ..ratnf import NFSym
    mod = model.modules[EOSMOD]
    for cn, attrs in EOS_CLASSES.items():
        ci = mod.classes[cn]
        for clo_name, second, var, der_name in PARTIALS:
            mc, md = ci.find_method(clo_name), ci.find_method(der_name)
            if mc is None or md is None:
                continue
            b = Builder(model)
            b.frame = Frame(None, mod, {}, None)
            inst = b.symbolic_obj(ci, attrs)
            rho = b.mk('input', 'rho')
            x = b.mk('input', second)
            vals = []
            for m in (mc, md):
                b.frame = Frame(None, mod, {}, None)
                vals.append(b.call_closure(Closure(m, m.node, None, self_node=inst, cls=m.cls, module=m.module),
                                           [rho, x], {}, m.node))
            ev = NFEval(attrs)
            sy = NFSym(ev)
            nf_c, nf_d = ev.nf(vals[0]), ev.nf(vals[1])
            rsym = sy.atom('input:rho')
            vsym = sy.atom('input:%s' % var)
            for label, ratio in REGIONS.get(cn, [('everywhere', None)]):
                res.obligations += 1
                res.evaluations += 1
                res.nontrivial += 1
                subs = {}
                if ratio is not None:
                    ref = sy.atom('param:reference_density')
                    subs = {rsym: sp.Rational(*ratio) * ref}
                what = '%s.%s / %s (%s)' % (cn, clo_name, der_name, label)
                F = sy.conv(_select_piece(ev, sy, nf_c, subs, what))
                G = sy.conv(_select_piece(ev, sy, nf_d, subs, what))
                if is_zero(sp.diff(F, vsym) - G):
                    res.discharged += 1
                    res.sample({'rule': 'C16.derivative', 'class': cn, 'identity': '%s == d %s / d %s  [%s]'
                                % (der_name, clo_name, var, label)}, limit=40)
                else:
                    res.add(Finding(PROP, 'C16.derivative', md.module.relpath, '%s.%s' % (md.cls.name if md.cls else cn, der_name),
                                    '%s: %s is not d%s/d%s (%s)' % (cn, der_name, clo_name, var, label),
                                    "EOS %s: the analytic partial derivative %s(rho, %s) is not the derivative of the closure "
                                    "%s(rho, %s) with respect to %s on the piece `%s` (symbolic derivative of the closed form "
                                    "minus the method's expression does not reduce to 0 as a rational function)"
                                    % (cn, der_name, second, clo_name, second, var, label),
                                    line=md.node.lineno, construct='def %s' % der_name))


def _store_entries(node):
    """{index: value node} of a store chain (latest store of each index)."""
    out, x = {}, node
    while x is not None and x.kind == 'store':
        i = x.args[1]
        if i.kind == 'const':
            key = i.val
        elif i.kind == 'tuple' and all(a.kind == 'const' for a in i.args):
            key = tuple(a.val for a in i.args)
        else:
            key = None
        if key is not None and key not in out:
            out[key] = x.args[2]
        x = x.args[0]
    return out


def residual_derivatives(model, res):
    """DF[i, j] == d F_i / d x_j with a concrete (stiffened-gas) EOS object, whose own partials are decided
    by eos_derivatives; and, for the classes that write the inverse by hand, F_prime_inv . F_prime == I."""
    import sympy as sp
    from ..ratnf import NFSym
    mod = model.modules[RESMOD]
    emod = model.modules[EOSMOD]
    for cn, sym_val in [(c, k) for c in RES_CLASSES for k in ((0, 1, 2) if 'simplified' not in c else (0,))]:
        # the geometry exponent takes the three admissible values (validated by the constructor): the
        # power (1 - u_0/D)**(symmetry + 1) is then a polynomial and can be differentiated exactly
        ci = mod.classes[cn]
        mF, mJ, mI = ci.find_method('F'), ci.find_method('F_prime'), ci.find_method('F_prime_inv')
        b = Builder(model)
        b.frame = Frame(None, mod, {}, None)
        eattrs = EOS_CLASSES['stiffened_gas_eos']
        eos = b.symbolic_obj(emod.classes['stiffened_gas_eos'], eattrs)
        attrs = ['u_0', 'rho_0', 'P_0', 'e_0', 'symmetry']
        nstate = 3 if 'simplified' not in cn else 2
        pre = {'equation_of_state': eos}
        inst = b.symbolic_obj(ci, attrs, pre)
        for a in ('result', 'DF', 'DF_inv'):
            b.heap[inst.val.oid][a] = b.mk('call', 'numpy.zeros', [b.const(nstate)])
        b.heap[inst.val.oid]['symmetry'] = b.const(sym_val)
        if nstate == 2 or sym_val != 0:
            b.heap[inst.val.oid]['P_0'] = b.const(0)      # enforced by the constructors: P_0 != 0 only for symmetry 0
        xs = [b.mk('param', 'x%d' % i) for i in range(nstate)]
        state = b.mk('tuple', args=xs)
        outs = {}
        for nm, m in (('F', mF), ('J', mJ), ('I', mI)):
            b.frame = Frame(None, mod, {}, None)
            outs[nm] = b.call_closure(Closure(m, m.node, None, self_node=inst, cls=m.cls, module=m.module), [state], {}, m.node)
        ev = NFEval(attrs + eattrs + ['x0', 'x1', 'x2'])
        sy = NFSym(ev)
        xsym = [sy.atom('param:x%d' % i) for i in range(nstate)]

        def S(n):
            v = ev.nf(n)
            from ..nf import NAN as _N, PW as _PW, Struct as _S
            if v is _N or isinstance(v, (_PW, _S)):
                raise AnalysisError('%s: component is not a closed form' % cn)
            return sy.conv(v)
        Fe, Je = _store_entries(outs['F']), _store_entries(outs['J'])
        if set(Fe) != set(range(nstate)) or set(Je) != {(i, j) for i in range(nstate) for j in range(nstate)}:
            raise AnalysisError('%s: F / F_prime components not all found (%s / %s)' % (cn, sorted(Fe), sorted(Je)))
        Fs = [S(Fe[i]) for i in range(nstate)]
        Js = {k: S(v) for k, v in Je.items()}
        for i in range(nstate):
            for j in range(nstate):
                res.obligations += 1
                res.evaluations += 1
                res.nontrivial += 1
                if is_zero(sp.diff(Fs[i], xsym[j]) - Js[(i, j)]):
                    res.discharged += 1
                    res.sample({'rule': 'C16.derivative', 'class': cn, 'identity': 'DF[%d,%d] == dF_%d/dx_%d (symmetry=%d)' % (i, j, i, j, sym_val)}, limit=40)
                else:
                    res.add(Finding(PROP, 'C16.derivative', mJ.module.relpath, '%s.F_prime' % cn,
                                    '%s: DF[%d,%d] is not dF[%d]/dx[%d] (symmetry=%d)' % (cn, i, j, i, j, sym_val),
                                    "%s: the Jacobian entry DF[%d,%d] = %s is not the derivative of the residual component "
                                    "F[%d] with respect to unknown %d (with a stiffened-gas EOS object, whose own partials are "
                                    "decided separately): symbolic derivative is %s"
                                    % (cn, i, j, src_of(Je[(i, j)].origin[1])[:80] if Je[(i, j)].origin and Je[(i, j)].origin[1] is not None else '?',
                                       i, j, str(sp.factor(sp.diff(Fs[i], xsym[j])))[:120]),
                                    line=getattr(Je[(i, j)].origin[1], 'lineno', mJ.node.lineno) if Je[(i, j)].origin else mJ.node.lineno,
                                    construct='DF[%d,%d]' % (i, j)))
        # hand-written inverse (2 x 2 classes): rescaled store chain `(1/det) * DF_inv`
        if nstate == 2:
            inv = outs['I']
            scale = sp.Integer(1)
            node = inv
            if node.kind == 'binop' and node.val == '*':
                a0, a1 = node.args
                chain = a1 if a1.kind == 'store' else a0
                other = a0 if chain is a1 else a1
                scale, node = S(other), chain
            Ie = _store_entries(node)
            if set(Ie) != {(i, j) for i in range(2) for j in range(2)}:
                raise AnalysisError('%s.F_prime_inv: entries not found' % cn)
            Is = {k: scale * S(v) for k, v in Ie.items()}
            for i in range(2):
                for j in range(2):
                    res.obligations += 1
                    res.evaluations += 1
                    res.nontrivial += 1
                    prod = sum(Is[(i, k)] * Js[(k, j)] for k in range(2)) - (1 if i == j else 0)
                    if is_zero(prod):
                        res.discharged += 1
                        res.sample({'rule': 'C16.derivative', 'class': cn, 'identity': '(F_prime_inv . F_prime)[%d,%d] == %d' % (i, j, int(i == j))}, limit=40)
                    else:
                        res.add(Finding(PROP, 'C16.derivative', mI.module.relpath, '%s.F_prime_inv' % cn,
                                        '%s: (F_prime_inv . F_prime)[%d,%d]' % (cn, i, j),
                                        "%s: the hand-written inverse Jacobian times the Jacobian is not the identity in entry "
                                        "[%d,%d]" % (cn, i, j), line=mI.node.lineno, construct='def F_prime_inv'))


MIN_SETTERS = 8      # confirmed on the pinned tree: 4 EOS setters + 4 residual-class setters


def setter_coherence(model, res):
    """(4) "for all admissible constants" includes the constants installed through the public
    setters.  For every `set_new_*` method of an EOS / residual class: the abstract object state
    after  construct(args); setter(x)  equals, attribute by attribute (normal forms), the state
    after  construct(args with one argument replaced by x).  An attribute that the constructor
    derives from the replaced argument and the setter leaves alone (a stale cached constant) makes
    the closures / residual mix two different equations of state or initial states."""
    from ..nf import NAN
    n = 0
    for modn in (EOSMOD, RESMOD):
        mod = model.modules[modn]
        for cn, ci in mod.classes.items():
            init = ci.find_method('__init__')
            setters = [mm for nm, mm in sorted(ci.methods.items()) if nm.startswith('set_new_')]
            if init is None or not setters:
                continue
            names = [a.arg for a in init.node.args.args[1:]]
            for s in setters:
                sp = [a.arg for a in s.node.args.args[1:]]
                if len(sp) != 1:
                    raise AnalysisError('%s.%s: setter with %d parameters (rule handles one)' % (cn, s.name, len(sp)))
                n += 1
                res.obligations += 1
                res.evaluations += 1
                b = Builder(model)
                b.frame = Frame(None, mod, {}, None)
                A = [b.mk('input', nm) for nm in names]
                o1 = b.instantiate(ci, args=A)
                h0 = dict(b.heap[o1.val.oid])
                X = b.mk('input', 'new:' + sp[0])
                b.frame = Frame(None, mod, {}, None)
                b.call_closure(Closure(s, s.node, None, self_node=o1, cls=s.cls, module=s.module), [X], {}, s.node)
                h1 = dict(b.heap[o1.val.oid])
                ev = NFEval([])
                changed = [a for a in h1 if a not in h0 or h0[a] is not h1[a]]
                best = None
                for j in range(len(names)):
                    A2 = list(A)
                    A2[j] = X
                    b.frame = Frame(None, mod, {}, None)
                    o2 = b.instantiate(ci, args=A2)
                    h2 = dict(b.heap[o2.val.oid])
                    diff = []
                    for a in sorted(set(h1) | set(h2)):
                        if a not in h1 or a not in h2:
                            diff.append(a)
                            continue
                        x, y = ev.nf(h1[a]), ev.nf(h2[a])
                        if x is NAN or y is NAN or not ev.equal(x, y):
                            diff.append(a)
                    agree_changed = [a for a in changed if a not in diff]
                    if best is None or (len(diff), -len(agree_changed)) < (len(best[1]), -len(best[4])):
                        best = (names[j], diff, h1, h2, agree_changed)
                if best is None or not best[4]:
                    raise AnalysisError('%s.%s does not replace a constructor argument (unrecognised setter shape)'
                                        % (cn, s.name))
                if len(changed) > 1 or best[1]:
                    res.nontrivial += 1
                if not best[1]:
                    res.discharged += 1
                    res.sample({'rule': 'C16.setter', 'class': cn, 'setter': s.name, 'replaces': best[0],
                                'attributes_compared': len(best[2])}, limit=30)
                    continue
                for a in best[1]:
                    res.add(Finding(PROP, 'C16.setter', s.module.relpath, '%s.%s' % (cn, s.name),
                                    "%s.%s leaves '%s' as computed from the old %s" % (cn, s.name, a, best[0]),
                                    "%s: after %s(x) the attribute '%s' is %s, but an object constructed with %s = x has %s: "
                                    "the constructor derives '%s' from %s and the setter does not refresh it, so the "
                                    "closures / residual use constants of two different configurations"
                                    % (cn, s.name, a, ev.nf(best[2][a]).key()[:120] if a in best[2] else 'unset',
                                       best[0], ev.nf(best[3][a]).key()[:120] if a in best[3] else 'unset', a, best[0]),
                                    line=s.node.lineno, construct='def %s' % s.name))
    if n < MIN_SETTERS:
        raise AnalysisError('only %d set_new_* methods found in the EOS / residual classes (confirmed: %d)' % (n, MIN_SETTERS))
    res.extra['setters_checked'] = n


def run(model, tier):
    res = Result(PROP)
    res.explanation = (
        'Self-consistency of the EOS library and of the Newton residual classes, three static clauses. (1) Interface: '
        'each of the five concrete EOS classes implements e, de_dP, de_drho with parameters (rho, P) and P, dP_drho, '
        'dP_de with (rho, e), the order in which every residual class passes them. (2) Dimensions: with rho, P, e at '
        "their physical dimensions and each EOS's constants inferred (one system per class, so the six methods must "
        'agree on the constants), every closure returns its dimension and every partial-derivative method returns '
        '[closure]/[variable]; every component of each residual F is homogeneous and each Jacobian entry DF[i,j] has '
        'dimension [F_i]/[x_j] (four residual classes). (3) Inverse closures: P(rho, e(rho, P)) - P and '
        'e(rho, P(rho, e)) - e reduce to 0 as rational functions (canonical rational normal form, piecewise for '
        'Steinberg). (5) Derivatives: each analytic partial derivative is the symbolic derivative of its closure (piece by piece for '
        'Steinberg), each Jacobian entry DF[i,j] is dF_i/dx_j for the three admissible geometry exponents, and the hand-written 2x2 '
        'inverses times the Jacobian are the identity. Newton convergence and the sign of the shock speed of the root found are not '
        'decided (numerics). (4) Setter coherence: for every public set_new_* '
        'method of an EOS or residual class, construct(args); setter(x) leaves the object in the same abstract state (normal forms of '
        'all attributes) as construct(args with the corresponding argument replaced by x): no cached derived constant goes stale.')
    res.rule_text = 'instances: interface slots, dimension constraints, inverse-closure identities, derivative identities, setter states'
    res.trusted_base = ['CPython ast', 'sympy FracField / cancel', 'signature table']
    interface(model, res)
    eos_dims(model, res)
    inverse_closures(model, res)
    residual_dims(model, res)
    setter_coherence(model, res)
    eos_derivatives(model, res)
    residual_derivatives(model, res)
    return res
