def check(model, res):
    res.notes.append('Riemann state-list rule not yet built')
