"""C03 for the two 1D Riemann solvers: every energy / sound speed is computed by the EOS closures
sie() / sound_speed() from the pressure and density of ONE side with THAT side's gamma."""
from .c09 import side_consistency


def check(model, res):
    side_consistency(model, res, prop='C03', rule='C03.side-gamma', callees={'sie', 'sound_speed'}, min_calls=12,
                     why="the returned energy / sound speed is computed with the other gas's gamma, so pressure, density and "
                         "specific internal energy do not satisfy that side's equation of state when gl != gr")
