"""C04 -- integral conservation of the ideal-gas Riemann solution, decided through the local
conditions whose conjunction is equivalent to it.

A piecewise-smooth field conserves  int rho, int rho u, int rho E  over any interval that
contains all waves (with the undisturbed fluxes at the ends) iff it is a weak solution:
  (a) each smooth piece satisfies the Euler equations,
  (b) each discontinuity placed at  xd0 + t V  satisfies the jump conditions with speed V,
  (c) neighbouring pieces are glued at the positions where they agree (fans are continuous at
      their head and tail).
For the ideal-gas solver every one of these is an identity between explicit formulas of the star
pressure and the two states:
  (a) constant states trivially; the fan formulas (rho_p_u_rarefaction with sie()) satisfy the
      three Euler equations in (x, t)  -- differentiation of the normal form, symbolic exponents;
  (b) the shock helpers satisfy the three jump conditions for every star pressure, the star
      pressure equations are the contact condition (C02 rules, re-run here), each helper call in
      the driver gets a one-sided state, and the wave-speed table uses u -+ a of one state with the
      sign of its family and is mirror-consistent, and every helper that picks the sign of its family by
      recognising the left state compares pressure, density and velocity (C09 rules, re-run here);
  (c) at  xi = u -+ a  the fan returns the undisturbed state; at  xi = u* -+ a*  (star velocity
      from the rarefaction relation, star density rho_star_rarefaction, a* = sound_speed of them)
      it returns (rho*, p*, u*), for every star pressure.
The general-EOS solver integrates its fans numerically and is not decided.
"""
from ..model import AnalysisError, src_of
from ..report import Result, Finding
from ..vg import Builder, Frame
from ..nf import NFEval, NAN, Mono, Sum, PW, Struct, leaves, DiffUnsupported
from ..ratnf import NFSym, is_zero
from ..radnf import RadNF, Unsupported
from . import c02

LEVEL = 'other'
PROP = 'C04'
UTILS = c02.UTILS
RIEMANN = c02.RIEMANN


def _leaf(x, want_true, what):
    ls = [(c, l) for c, l in leaves(x)]
    if len(ls) == 1:
        return ls[0][1]
    if want_true:
        for conds, leaf in ls:
            if all(pol for _, pol, _ in conds):
                return leaf
        raise AnalysisError('%s: no all-true piece' % what)
    rest = [leaf for conds, leaf in ls if not all(pol for _, pol, _ in conds)]
    if len({l.key() for l in rest if l is not NAN}) != 1:
        raise AnalysisError('%s: pieces for a non-left state differ' % what)
    return rest[0]


def zero(sy, x):
    if x is NAN or isinstance(x, (PW, Struct)):
        return False
    try:
        cx = sy.conv(x)
        if is_zero(cx):
            return True
        try:
            return RadNF(sy.units).is_zero(cx)
        except Unsupported:
            return False
    except TypeError:
        return False


def fans(model, res, only_pde=False):
    cls = model.get_class(RIEMANN)
    mod = model.modules[UTILS]
    fi = model.get_func('%s:rho_p_u_rarefaction' % UTILS)
    for side, left in (('l', True), ('r', False)):
        b = Builder(model)
        b.frame = Frame(None, mod, {}, None)
        inst = b.symbolic_obj(cls, c02.STATE + c02.OTHER, {})
        b.heap[inst.val.oid]['problem'] = b.const('igeos')
        p, r, u, g = (b.get_attr(inst, k + side) for k in 'prug')
        x, xd0, t, px = (b.mk('param', nm) for nm in ('x', 'xd0', 't', 'px'))
        zero_n = b.const(0)

        def call(fname, *args):
            f = model.get_func('%s:%s' % (UTILS, fname))
            b.frame = Frame(None, mod, {}, None)
            return b.run_function(f, list(args) + [inst])
        out = call('rho_p_u_rarefaction', p, r, u, g, x, xd0, t)
        a0 = call('sound_speed', p, r, g)
        # star state behind this fan as functions of the star pressure
        rx = call('rho_star_rarefaction', px, p, r, g)
        ax = call('sound_speed', px, rx, g)
        rel = call('rarefaction', px, p, r, zero_n, g)            # 2a/(g-1) (1 - (px/p)^((g-1)/2g))
        keys = c02.STATE + c02.OTHER + ['x', 'xd0', 't', 'px']

        def fields(ev):
            f3 = [ev.nf(b.mk('sub', args=[out, b.const(i)])) for i in range(3)]
            f3 = [_leaf(v, left, 'rho_p_u_rarefaction side test') for v in f3]
            if any(v is NAN or isinstance(v, (PW, Struct)) for v in f3):
                raise AnalysisError('fan fields are not closed forms')
            return f3
        name = '%s fan' % ('left' if left else 'right')
        # (a) Euler equations
        ev = NFEval(keys)
        sy = NFSym(ev)
        rho, pp, v = fields(ev)
        G = ev.nf(g)
        gm1 = ev.add(G, ev.num(1), -1)
        e = ev.mul(pp, ev.power(ev.mul(gm1, rho), ev.S.F(-1)))
        X, Tt = 'param:x', 'param:t'
        try:
            d = ev.diff
            mass = ev.add(d(rho, Tt), ev.add(ev.mul(v, d(rho, X)), ev.mul(rho, d(v, X))))
            mom = ev.add(ev.add(d(v, Tt), ev.mul(v, d(v, X))), ev.mul(d(pp, X), ev.power(rho, ev.S.F(-1))))
            en = ev.add(ev.add(d(e, Tt), ev.mul(v, d(e, X))), ev.mul(ev.mul(pp, ev.power(rho, ev.S.F(-1))), d(v, X)))
        except DiffUnsupported as ex:
            raise AnalysisError('fan formulas cannot be differentiated: %s' % ex)
        for label, val in (('mass', mass), ('momentum', mom), ('energy', en)):
            check(res, fi, '%s: %s equation' % (name, label), zero(sy, val),
                  "rho_p_u_rarefaction (%s): the fan formulas do not satisfy the %s equation of the Euler system" % (name, label))
        if only_pde:
            continue
        # (c) head: xi = u -+ a  ->  undisturbed state
        sgn = 1 if left else -1
        ev2 = NFEval(keys)
        sy2 = NFSym(ev2)
        head = ev2.add(ev2.nf(xd0), ev2.mul(ev2.nf(t), ev2.add(ev2.nf(u), ev2.nf(a0), -sgn)))
        ev2.memo[x.nid] = head
        rho2, p2, v2 = fields(ev2)
        for label, got, want in (('density', rho2, ev2.nf(r)), ('pressure', p2, ev2.nf(p)), ('velocity', v2, ev2.nf(u))):
            check(res, fi, '%s head: %s equals the undisturbed state' % (name, label), zero(sy2, ev2.add(got, want, -1)),
                  "rho_p_u_rarefaction (%s): at its head xi = u %s a the fan does not return the undisturbed %s"
                  % (name, '-' if left else '+', label))
        # (c) tail: xi = u* -+ a*  ->  star state, for every star pressure
        ev3 = NFEval(keys)
        sy3 = NFSym(ev3)
        ustar = ev3.add(ev3.nf(u), ev3.nf(rel), sgn)              # left: u + rel ; right: u - rel
        tail = ev3.add(ev3.nf(xd0), ev3.mul(ev3.nf(t), ev3.add(ustar, ev3.nf(ax), -sgn)))
        ev3.memo[x.nid] = tail
        rho3, p3, v3 = fields(ev3)
        for label, got, want in (('density', rho3, ev3.nf(rx)), ('pressure', p3, ev3.nf(px)), ('velocity', v3, ustar)):
            check(res, fi, '%s tail: %s equals the star state for every star pressure' % (name, label),
                  zero(sy3, ev3.add(got, want, -1)),
                  "rho_p_u_rarefaction (%s): at its tail xi = u* %s a* (star velocity from the rarefaction relation, star density "
                  "rho_star_rarefaction) the fan does not return the star %s: the fan and the star region are glued where they "
                  "disagree, which creates or destroys mass / momentum / energy" % (name, '-' if left else '+', label))


def check(res, fi, label, ok, msg):
    res.obligations += 1
    res.evaluations += 1
    res.nontrivial += 1
    if ok:
        res.discharged += 1
        res.sample({'identity': label}, limit=60)
    else:
        res.add(Finding(PROP, 'C04.weak-solution', fi.module.relpath, fi.qualname, label, msg,
                        line=fi.node.lineno, construct='def %s' % fi.name))


def reuse(model, res):
    """(b): the C02 / C09 rules for the ideal-gas solver, re-run under this property."""
    from . import c09
    tmp = Result('C02')
    c02.igeos_sites(model, tmp)
    c09.side_consistency(model, tmp, prop='C02', rule='C02.side-consistency',
                         callees=('shock_velocity', 'rho_star_shock', 'shock', 'rho_star_rarefaction', 'rarefaction',
                                  'rho_p_u_rarefaction', 'sound_speed', 'sie'), min_calls=12,
                         why='the wave is then not the one whose local conditions were decided')
    tmp9 = Result('C09')
    c09.region_table_mirror(model, tmp9)
    c09.side_tests(model, tmp9)          # which family sign a helper applies: decided by comparing p, rho AND u with the stored state
    for t in (tmp, tmp9):
        res.obligations += t.obligations
        res.discharged += t.discharged
        res.evaluations += t.evaluations
        res.nontrivial += t.nontrivial
        for f in t.findings:
            f.prop = PROP
            f.rule = 'C04.' + f.rule.split('.', 1)[1]
            res.add(f)


def run(model, tier):
    res = Result(PROP)
    res.explanation = (
        'Integral conservation of the ideal-gas Riemann solution through the equivalent local conditions of a weak '
        'solution, each an identity between explicit formulas: (a) the rarefaction-fan formulas satisfy the three Euler '
        'equations in (x, t) (differentiation of the normal form with exponents 2/(g-1), 2g/(g-1)); (b) the shock helpers '
        'satisfy the jump conditions for every star pressure, the star-pressure equations are the contact condition, every '
        'helper call of the driver gets a one-sided state and the wave-speed table uses u -+ a of one state with the sign of '
        'its family and is mirror-consistent (the C02 / C09 rules, re-run here); (c) each fan returns the undisturbed state '
        'at its head xi = u -+ a and the star state (rarefaction relation, rho_star_rarefaction, sound_speed) at its tail '
        'xi = u* -+ a*, for every star pressure. Together: the returned field is a weak solution whatever the root px of the '
        'star-pressure equation is, hence conservative. General-EOS solver (sa/rules/c04_geneos.py): its fans are centred simple '
        'waves provided the ODE integration is exact -- dsdr_cP / dsdp_cR are the partial derivatives of sie (ideal gas and JWL), '
        'with d rho/dp, du/dp declared to be the coded right-hand sides the three similarity-form Euler equations hold for the '
        'placement xi = u + w a with a = sound_speed, and every fan placement of the driver uses the wave sign given to the '
        'integrator. Its star state (bisection on spliced curves), integration and interpolation errors are not decided. '
        'Delegation (sa/rules/c04_delegation.py): the inner problem object of IGEOS_Solver / GenEOS_Solver holds, attribute by attribute, the '
        "solver's own parameter of the same name and the time of the call, and each returned field interpolates the driver array of the quantity "
        'its standard name says: the solution returned belongs to the initial data the user gave.')
    res.rule_text = 'instance = one local condition (equation / jump condition / gluing identity)'
    res.trusted_base = ['CPython ast', 'sympy expand / factor_list', 'value-graph builder',
                        'equivalence weak solution <=> integral conservation (divergence theorem)']
    fans(model, res)
    reuse(model, res)
    from . import c04_geneos
    c04_geneos.fans(model, res)
    from . import c04_delegation
    c04_delegation.wrappers(model, res)
    if res.obligations < 40:
        raise AnalysisError('only %d local conditions analysed (confirmed: 60)' % res.obligations)
    return res
