"""C20 -- documented restrictions are enforced by ValueError guards with exact
boundaries; NaN branches are complete (DESIGN 3, C20 and appendix D)."""
import ast
import copy
import math
import re

from ..model import AnalysisError, ClassInfo, src_of
from ..report import Result, Finding
from ..intervals import ISet, INF
from ..dimcheck import load_spec
from ..vg import Builder, walk

LEVEL = 'other'
PROP = 'C20'
PREFIX = 'exactpack.solvers.'
MIN_GUARDS = 100     # confirmed on the pinned tree: 127 raising guards in constructors / _run


# ---------------------------------------------------------------------------
# expressions

class _StripSelf(ast.NodeTransformer):
    def __init__(self, selfname):
        self.selfname = selfname

    def visit_Attribute(self, node):
        self.generic_visit(node)
        if isinstance(node.value, ast.Name) and node.value.id == self.selfname:
            return ast.copy_location(ast.Name(id=node.attr, ctx=ast.Load()), node)
        return node


def canon(expr, selfname='self'):
    e = _StripSelf(selfname).visit(copy.deepcopy(expr))
    return ast.unparse(e)


def const_value(e):
    if isinstance(e, ast.Constant) and isinstance(e.value, (int, float)) and not isinstance(e.value, bool):
        return float(e.value)
    if isinstance(e, ast.UnaryOp) and isinstance(e.op, (ast.USub, ast.UAdd)):
        v = const_value(e.operand)
        return None if v is None else (-v if isinstance(e.op, ast.USub) else v)
    if isinstance(e, ast.Attribute) and e.attr == 'pi' and isinstance(e.value, ast.Name) \
            and e.value.id in ('np', 'numpy', 'math', 'ma'):
        return math.pi
    if isinstance(e, ast.Name) and e.id == 'pi':
        return math.pi
    if isinstance(e, ast.BinOp):
        a, b = const_value(e.left), const_value(e.right)
        if a is None or b is None:
            return None
        try:
            if isinstance(e.op, ast.Add):
                return a + b
            if isinstance(e.op, ast.Sub):
                return a - b
            if isinstance(e.op, ast.Mult):
                return a * b
            if isinstance(e.op, ast.Div):
                return a / b
        except ZeroDivisionError:
            return None
    return None


OPS = {ast.Lt: '<', ast.LtE: '<=', ast.Gt: '>', ast.GtE: '>=', ast.Eq: '==', ast.NotEq: '!='}
FLIP = {'<': '>', '<=': '>=', '>': '<', '>=': '<=', '==': '==', '!=': '!='}


def _paren(e, selfname):
    s = canon(e, selfname)
    if isinstance(e, ast.BinOp) and isinstance(e.op, (ast.Add, ast.Sub)):
        s = '(%s)' % s
    return s


def diff_term(l, r, selfname):
    """Canonical term for a two-sided comparison `l op r`: the difference of the two sides with the
    textually smaller side first; returns (term, flipped)."""
    ls, rs = _paren(l, selfname), _paren(r, selfname)
    if ls <= rs:
        return '%s - %s' % (ls if not ls.startswith('(') else canon(l, selfname), rs), False
    return '%s - %s' % (rs if not rs.startswith('(') else canon(r, selfname), ls), True


def canon_term_text(text):
    """Canonical orientation of a catalogue term 'a - b' (same rule as diff_term). -> (term, flipped)"""
    try:
        e = ast.parse(text, mode='eval').body
    except SyntaxError:
        return text, False
    if isinstance(e, ast.BinOp) and isinstance(e.op, ast.Sub):
        t, flipped = diff_term(e.left, e.right, 'self')
        return t, flipped
    return text, False


# -- semantic identity of terms (normal form of the difference / sum; no text match) -----------

_SYM_CACHE = {}
_FUNCS = {'cos', 'sin', 'tan', 'sqrt', 'exp', 'log', 'abs', 'len', 'max', 'min', 'float', 'int', 'arccos', 'arcsin',
          'arctan', 'cosh', 'sinh', 'tanh'}


def _to_sym(text):
    """Term text -> sympy expression (atoms: names, attribute chains, subscripts, unknown calls)."""
    if text in _SYM_CACHE:
        return _SYM_CACHE[text]
    import sympy as sp

    def conv(e):
        if isinstance(e, ast.Constant) and isinstance(e.value, (int, float)) and not isinstance(e.value, bool):
            return sp.nsimplify(e.value, rational=True)
        if isinstance(e, ast.Name):
            return sp.pi if e.id == 'pi' else sp.Symbol(e.id)
        if isinstance(e, ast.Attribute):
            if e.attr == 'pi' and isinstance(e.value, ast.Name) and e.value.id in ('np', 'numpy', 'math', 'ma'):
                return sp.pi
            return sp.Symbol(ast.unparse(e))
        if isinstance(e, ast.UnaryOp) and isinstance(e.op, ast.USub):
            return -conv(e.operand)
        if isinstance(e, ast.UnaryOp) and isinstance(e.op, ast.UAdd):
            return conv(e.operand)
        if isinstance(e, ast.BinOp):
            a, b = conv(e.left), conv(e.right)
            if isinstance(e.op, ast.Add):
                return a + b
            if isinstance(e.op, ast.Sub):
                return a - b
            if isinstance(e.op, ast.Mult):
                return a * b
            if isinstance(e.op, ast.Div):
                return a / b
            if isinstance(e.op, ast.Pow):
                return a ** b
            raise ValueError
        if isinstance(e, ast.Call):
            f = e.func
            name = f.attr if isinstance(f, ast.Attribute) else (f.id if isinstance(f, ast.Name) else None)
            if name in _FUNCS and not e.keywords:
                fn = getattr(sp, {'arccos': 'acos', 'arcsin': 'asin', 'arctan': 'atan', 'abs': 'Abs'}.get(name, name), None)
                args = [conv(a) for a in e.args]
                if name in ('len', 'max', 'min', 'float', 'int') or fn is None:
                    if name in ('float',):
                        return args[0]
                    return sp.Function(name)(*args)
                return fn(*args)
            return sp.Symbol(ast.unparse(e))
        if isinstance(e, ast.Subscript):
            return sp.Symbol(ast.unparse(e))
        raise ValueError

    try:
        out = conv(ast.parse(text, mode='eval').body)
    except Exception:
        out = None
    _SYM_CACHE[text] = out
    return out


_SAME_CACHE = {}


def same_term(a, b):
    """+1 if the two term texts denote the same expression, -1 if one is the negative of the other,
    0 otherwise.  Decided by the rational normal form of a-b / a+b (sympy.cancel), atoms opaque."""
    if a == b:
        return 1
    key = (a, b)
    if key in _SAME_CACHE:
        return _SAME_CACHE[key]
    out = 0
    sa_, sb_ = _to_sym(a), _to_sym(b)
    if sa_ is not None and sb_ is not None and sa_.free_symbols == sb_.free_symbols:
        import sympy as sp
        try:
            if sp.cancel(sp.expand(sa_ - sb_)) == 0:
                out = 1
            elif sp.cancel(sp.expand(sa_ + sb_)) == 0:
                out = -1
        except Exception:
            out = 0
    _SAME_CACHE[key] = out
    return out


def match_disjunct(d, term, when):
    """A guard disjunct {term: rejected-set, ...} against a catalogue row (term, when={term: set}).
    Returns the set of `term` values the disjunct rejects whenever the row's `when` conditions hold,
    or None if the disjunct is about something else."""
    got = None
    need = dict(when)
    for k, s in d.items():
        o = same_term(k, term)
        if o and got is None:
            got = s if o > 0 else s.negate()
            continue
        hit = None
        for wt, ws in need.items():
            o = same_term(k, wt)
            if o:
                ks = s if o > 0 else s.negate()
                if not ws.subset_of(ks):
                    return None          # the guard fires only on part of the documented case
                hit = wt
                break
        if hit is None:
            return None                  # an extra condition the row does not state
        del need[hit]
    if got is None:
        return None
    return got          # unmatched `when` terms: the guard is unconditional there, i.e. stronger


def atom(l, op, r, selfname):
    """One comparison -> {term: ISet} or None."""
    if isinstance(op, (ast.In, ast.NotIn)):
        if isinstance(r, (ast.List, ast.Tuple, ast.Set)):
            vals = [const_value(x) for x in r.elts]
            if all(v is not None for v in vals):
                s = ISet.points(vals)
                return {canon(l, selfname): s if isinstance(op, ast.In) else s.complement()}
        return None
    o = OPS.get(type(op))
    if o is None:
        return None
    cr, cl = const_value(r), const_value(l)
    if cr is not None and cl is None:
        return {canon(l, selfname): ISet.cmp(o, cr)}
    if cl is not None and cr is None:
        return {canon(r, selfname): ISet.cmp(FLIP[o], cl)}
    if cl is None and cr is None:
        term, flipped = diff_term(l, r, selfname)
        s = ISet.cmp(o, 0.0)
        return {term: s.negate() if flipped else s}
    return None


def cond_sets(test, selfname):
    """Condition -> list of disjuncts, each {term: ISet} (conjunction); None if
    not analysable."""
    if isinstance(test, ast.Compare):
        parts = []
        l = test.left
        for op, r in zip(test.ops, test.comparators):
            a = atom(l, op, r, selfname)
            if a is None:
                return None
            parts.append(a)
            l = r
        out = {}
        for a in parts:
            for t, s in a.items():
                out[t] = out[t].intersect(s) if t in out else s
        return [out]
    if isinstance(test, ast.UnaryOp) and isinstance(test.op, ast.Not):
        inner = cond_sets(test.operand, selfname)
        if inner is None:
            return None
        # not (d1 or d2 ...) with single-term disjuncts of one term
        terms = {t for d in inner for t in d}
        if len(terms) == 1 and all(len(d) == 1 for d in inner):
            t = next(iter(terms))
            u = ISet.empty()
            for d in inner:
                u = u.union(d[t])
            return [{t: u.complement()}]
        return None
    if isinstance(test, ast.BoolOp) and isinstance(test.op, ast.Or):
        out = []
        for v in test.values:
            s = cond_sets(v, selfname)
            if s is None:
                return None
            out.extend(s)
        return out
    if isinstance(test, ast.BoolOp) and isinstance(test.op, ast.And):
        cur = [{}]
        for v in test.values:
            s = cond_sets(v, selfname)
            if s is None:
                return None
            nxt = []
            for c in cur:
                for d in s:
                    m = dict(c)
                    for t, x in d.items():
                        m[t] = m[t].intersect(x) if t in m else x
                    nxt.append(m)
            cur = nxt
        return cur
    return None


# ---------------------------------------------------------------------------
# guards

class _Expand(ast.NodeTransformer):
    def __init__(self, env):
        self.env = env

    def visit_Name(self, node):
        if isinstance(node.ctx, ast.Load) and node.id in self.env:
            return copy.deepcopy(self.env[node.id])
        return node


class Guard:
    def __init__(self, fi, node, context, kind, message, block_env=None):
        self.fi = fi
        self.node = node
        self.context = context      # 'top' | 'loop' | 'cond'
        self.kind = kind            # 'ValueError' | other exception | 'soft'
        self.message = message
        selfname = fi.node.args.args[0].arg if fi.node.args.args else 'self'
        self.sets = cond_sets(node.test, selfname)
        # the same test with the locals assigned just before it (in the same block) expanded,
        # e.g. `F1 != F2` -> `gamma1 / beta1 != gamma2 / beta2`
        self.sets_expanded = None
        if block_env:
            try:
                t2 = _Expand(block_env).visit(copy.deepcopy(node.test))
                self.sets_expanded = cond_sets(t2, selfname)
            except Exception:
                self.sets_expanded = None


def fold_str(e, env):
    """Constant-fold a message expression (string concatenation, names bound to
    foldable strings); dynamic parts become '{}'."""
    if isinstance(e, ast.Constant) and isinstance(e.value, str):
        return e.value
    if isinstance(e, ast.BinOp) and isinstance(e.op, ast.Add):
        return fold_str(e.left, env) + fold_str(e.right, env)
    if isinstance(e, ast.Name) and e.id in env:
        return env[e.id]
    if isinstance(e, ast.Tuple):
        return ' '.join(fold_str(x, env) for x in e.elts)
    return '{}'


def guards_of(fi):
    out = []

    def body_kind(body, env):
        """(kind, message) if this if-body is a rejecting body."""
        env = dict(env)
        for st in body:
            if isinstance(st, ast.Assign) and len(st.targets) == 1 and isinstance(st.targets[0], ast.Name):
                env[st.targets[0].id] = fold_str(st.value, env)
        last = body[-1] if body else None
        if isinstance(last, ast.Raise) and last.exc is not None:
            exc = last.exc
            name = src_of(exc.func) if isinstance(exc, ast.Call) else src_of(exc)
            msg = ''
            if isinstance(exc, ast.Call) and exc.args:
                msg = ' '.join(fold_str(a, env) for a in exc.args)
            return name, msg
        soft = False
        for st in body:
            for c in ast.walk(st):
                if isinstance(c, ast.Call):
                    f = src_of(c.func)
                    if f in ('print', 'warnings.warn', 'warn') or f.endswith('.warn'):
                        soft = True
        if soft and not any(isinstance(n, (ast.Raise, ast.Return)) for st in body for n in ast.walk(st)):
            return 'soft', ''
        return None, None

    def visit(stmts, ctx):
        env = {}
        for st in stmts:
            if isinstance(st, ast.Assign) and len(st.targets) == 1 and isinstance(st.targets[0], ast.Name):
                # simple local definitions of this block (single expression, no calls with side effects)
                if not any(isinstance(n, ast.Call) for n in ast.walk(st.value)) or \
                        all(isinstance(n.func, ast.Name) and n.func.id in ('float', 'abs', 'len') for n in ast.walk(st.value)
                            if isinstance(n, ast.Call)):
                    env[st.targets[0].id] = _Expand(env).visit(copy.deepcopy(st.value))
                else:
                    env.pop(st.targets[0].id, None)
            if isinstance(st, ast.If):
                kind, msg = body_kind(st.body, {})
                if kind is not None:
                    out.append(Guard(fi, st, ctx, kind, msg, dict(env)))
                    visit(st.orelse, ctx if not st.orelse else 'cond')
                else:
                    visit(st.body, 'cond' if ctx == 'top' else ctx)
                    visit(st.orelse, 'cond' if ctx == 'top' else ctx)
            elif isinstance(st, (ast.For, ast.While)):
                visit(st.body, 'loop' if ctx in ('top', 'loop') else ctx)
            elif isinstance(st, (ast.With,)):
                visit(st.body, ctx)
            elif isinstance(st, ast.Try):
                visit(st.body, 'cond')
            elif isinstance(st, ast.Assert):
                pass
    visit(fi.node.body, 'top')
    return out


def ctor_chain(ci):
    fs = []
    for c in ci.mro:
        if isinstance(c, ClassInfo) and '__init__' in c.methods and c.name != 'ExactSolver':
            fs.append(c.methods['__init__'])
    return fs


# ---------------------------------------------------------------------------
# message oracle

NUM = r'(-?\d+(?:\.\d*)?|pi/2|pi)'


def _n(s):
    if s == 'pi/2':
        return math.pi / 2
    if s == 'pi':
        return math.pi
    return float(s)


def message_set(msg):
    """Admissible set stated by an error message, or None."""
    m = msg.strip()
    low = m.lower()
    r = re.search(r'must be (?:set to )?(>=|<=|>|<) ?' + NUM, low)
    if r:
        return ISet.cmp(r.group(1), _n(r.group(2)))
    if re.search(r'must be (strictly )?negative', low):
        return ISet.cmp('<', 0)
    if re.search(r'must be (strictly )?positive', low):
        return ISet.cmp('>', 0)
    r = re.search(r'must be greater than ' + NUM, low)
    if r:
        return ISet.cmp('>', _n(r.group(1)))
    r = re.search(r'must be less than ' + NUM + r'\b(?!\s*[a-z])', low)
    if r:
        return ISet.cmp('<', _n(r.group(1)))
    r = re.search(r'(?:cannot|canot|can not) (?:be|equal)(?: to)? (zero|one|-?\d+(?:\.\d*)?)\b', low)
    if r:
        v = {'zero': 0.0, 'one': 1.0}.get(r.group(1))
        return ISet.point(v if v is not None else float(r.group(1))).complement()
    if 'is non-positive' in low:
        return ISet.cmp('>', 0)
    if 'is negative' in low and 'must' not in low:
        return ISet.cmp('>=', 0)
    r = re.search(r'must be (?:set to )?((?:\d+, ?)*\d+,? (?:or|and) \d+|\d+)\b(?!\s*[a-z<>=/])', low)
    if r:
        nums = re.findall(r'\d+', r.group(1))
        return ISet.points([float(x) for x in nums])
    return None


# ---------------------------------------------------------------------------

def _finding(rule, fi, detail, msg, node=None, construct=''):
    return Finding(PROP, rule, fi.module.relpath, fi.qualname, detail, msg, line=getattr(node, 'lineno', 0),
                   construct=construct or (src_of(node.test) if isinstance(node, ast.If) else
                                           (src_of(node) if node is not None else '')))


def class_default(ci, name):
    owner, val = ci.find_attr(name)
    if val is None:
        return None
    return const_value(val)


def run(model, tier):
    res = Result(PROP)
    res.explanation = (
        'Guard analysis against a catalogue of documented restrictions. Every `if cond: raise X(msg)` in the '
        'constructor chain and in _run of every solver class is extracted with its control context; cond is '
        'normalised to a Boolean combination of interval constraints on canonical terms (a parameter, a '
        'difference of two expressions, len(p), ...) and inclusion is decided exactly on the finitely many '
        'endpoints. Rule 1 (catalogue): for each documented restriction the complement of the admissible set, '
        'boundaries included, is rejected by ValueError guards that dominate normal return (not nested under '
        'another condition, not assert/print/warn), and the class default is accepted. Rule 2 (message oracle): '
        "the admissible set stated by a guard's own message contains everything the guard accepts. Rule 3: in "
        'solvers documented as having no solution for t <= 0, every non-position field is NaN on that branch.')
    res.rule_text = ('instances: catalogue rows x classes, guards with a parseable message, NaN-branch fields; '
                     'non-trivial = an instance that compares two non-empty interval sets')
    res.trusted_base = ['CPython ast', 'spec/guards.json transcribed from help strings / docstrings / messages']
    spec = load_spec('guards.json')
    all_guards = {}
    nguards = 0
    soft = []
    for ci in model.solver_classes():
        for mname in ('__init__', '_run'):
            if mname in ci.methods:
                gs = guards_of(ci.methods[mname])
                all_guards[ci.methods[mname].fullname] = gs
                nguards += sum(1 for g in gs if g.kind != 'soft')
                soft += ['%s: %s' % (g.fi.fullname, src_of(g.node.test)[:80]) for g in gs if g.kind == 'soft']
    if nguards < MIN_GUARDS:
        raise AnalysisError('only %d raising guards found in constructors/_run (confirmed: >= %d)' % (nguards, MIN_GUARDS))
    res.extra['raising_guards'] = nguards
    res.extra['soft_guards_print_or_warn'] = soft

    def guards_for(ci, where):
        if where == 'run':
            m = ci.find_method('_run')
            fs = [m] if m is not None else []
        else:
            fs = ctor_chain(ci)
        out = []
        for f in fs:
            if f.fullname not in all_guards:
                all_guards[f.fullname] = guards_of(f)
            out.extend(all_guards[f.fullname])
        return out, fs

    # ---- rule 1: catalogue ------------------------------------------------
    for row in spec['rows']:
        adm = ISet.parse(row['admissible'])
        cterm, flipped = canon_term_text(row['term'])
        if flipped:
            adm = adm.negate()
        row = dict(row, term=cterm)
        when = {k: ISet.parse(v) for k, v in row.get('when', {}).items()}
        must_reject = adm.complement()
        where = row.get('where', 'ctor')
        for cshort in row['classes']:
            ci = model.get_class(PREFIX + cshort)
            gs, fs = guards_for(ci, where)
            if not fs:
                raise AnalysisError('%s has no %s to analyse' % (ci.fullname, where))
            res.obligations += 1
            res.evaluations += 1
            res.nontrivial += 1
            rejected = ISet.empty()
            weak = []
            used = []
            for g in gs:
                cand = []
                for ss in (g.sets, g.sets_expanded):
                    if ss is not None:
                        cand.extend(ss)
                for d in cand:
                    rej = match_disjunct(d, row['term'], when)
                    if rej is not None:
                        ok_ctx = g.context == 'top' or (g.context == 'loop' and row.get('in_loop')) \
                            or (g.context == 'cond' and row.get('in_branch'))
                        if g.kind == 'ValueError' and ok_ctx:
                            rejected = rejected.union(rej)
                            used.append(g)
                        else:
                            weak.append(g)
            missing = must_reject.minus(rejected)
            anchor = fs[0]
            if not missing.is_empty():
                why = ''
                if weak:
                    why = ' (a check exists but is %s)' % ', '.join(sorted(
                        {('raises %s' % g.kind if g.kind not in ('soft', 'ValueError') else
                          ('only prints/warns' if g.kind == 'soft' else 'nested under another condition')) for g in weak}))
                node = used[0].node if used else (weak[0].node if weak else anchor.node)
                res.add(_finding('C20.guard', (used[0].fi if used else anchor),
                                 '%s: %s accepts %s' % (ci.name, row['term'], missing),
                                 "%s: documented restriction %s in %s (%s) is not enforced: values %s are accepted "
                                 "without ValueError%s" % (ci.name, row['term'], row['admissible'], row['source'],
                                                          missing, why), node,
                                 construct=(src_of(used[0].node.test) if used else 'def %s' % anchor.name)))
                continue
            # the local names the guard compares must be defined as documented (a guard on `a - b` enforces the
            # restriction only if a and b ARE the documented quantities)
            bad_def = None
            for lname, doc in (row.get('defs') or {}).items():
                found = []
                for f in fs:
                    for st in ast.walk(f.node):
                        if isinstance(st, ast.Assign) and len(st.targets) == 1 and isinstance(st.targets[0], ast.Name) \
                                and st.targets[0].id == lname:
                            found.append((f, st))
                if len(found) != 1 or same_term(canon(found[0][1].value), doc) != 1:
                    bad_def = (lname, doc, found)
                    break
            if bad_def is not None:
                lname, doc, found = bad_def
                f0, st0 = (found[0] if found else (anchor, None))
                res.add(_finding('C20.guard', f0, '%s: %s is not the documented quantity' % (ci.name, lname),
                                 "%s: the guard on `%s` (%s, %s) compares the local `%s`, which is %s instead of the documented `%s`: "
                                 "the documented restriction is not the one enforced"
                                 % (ci.name, row['term'], row['admissible'], row['source'], lname,
                                    ('defined as `%s`' % canon(st0.value)) if st0 is not None and len(found) == 1 else
                                    ('assigned %d times' % len(found)), doc),
                                 st0 if st0 is not None else anchor.node,
                                 construct=(src_of(st0) if st0 is not None else 'def %s' % anchor.name)))
                continue
            res.discharged += 1
            res.sample({'class': ci.fullname, 'term': row['term'], 'documented': row['admissible'],
                        'rejected_by_guards': repr(rejected)}, limit=24)

    # ---- rule 2: message oracle -------------------------------------------
    exceptions = {(PREFIX + e['class'], canon_term_text(e['term'])[0]) for e in spec.get('message_oracle_exceptions', [])}
    parsed = unparsed = 0
    for ci in model.solver_classes():
        for mname in ('__init__', '_run'):
            if mname not in ci.methods:
                continue
            for g in all_guards.get(ci.methods[mname].fullname, []):
                if g.kind == 'soft' or g.sets is None or len(g.sets) != 1 or len(g.sets[0]) != 1:
                    continue
                stated = message_set(g.message)
                if stated is None:
                    unparsed += 1
                    continue
                parsed += 1
                (term, rej), = g.sets[0].items()
                if (ci.fullname, term) in exceptions:
                    continue
                res.obligations += 1
                res.evaluations += 1
                res.nontrivial += 1
                accepted = rej.complement()
                extra = accepted.minus(stated)
                if not extra.is_empty():
                    res.add(_finding('C20.message', g.fi, '%s: %s accepts %s' % (ci.name, term, extra),
                                     "%s: the guard `%s` accepts %s although its own message says %r (admissible %s)"
                                     % (ci.name, src_of(g.node.test), extra, g.message[:80], stated), g.node))
                elif g.kind != 'ValueError':
                    res.add(_finding('C20.guard', g.fi, '%s: %s raises %s' % (ci.name, term, g.kind),
                                     '%s: restriction on %s raises %s, not ValueError' % (ci.name, term, g.kind), g.node))
                else:
                    res.discharged += 1
    res.extra['messages_parsed'] = parsed
    res.extra['messages_unparsed'] = unparsed

    # ---- rule 3: NaN branches -----------------------------------------------
    for cshort in spec['nan_branch']['classes']:
        ci = model.get_class(PREFIX + cshort)
        check_nan_branch(model, ci, res)
    # ---- rule 1b: the catalogue is complete for `geometry`: every solver class that documents the parameter and whose
    # constructor takes keywords has a row stating its admissible values (a row that is missing passes vacuously forever)
    have = {PREFIX + c for row in spec['rows'] if canon_term_text(row['term'])[0] == 'geometry' for c in row['classes']}
    n_geo = 0
    for ci in model.solver_classes():
        if 'geometry' not in (model.parameters_keys(ci) or []):
            continue
        own = ci.find_method('__init__')
        takes_kw = own is None or own.node.args.kwarg is not None
        if not takes_kw:
            continue                    # geometry fixed by the class (wrapper without keywords)
        covered = ci.fullname in have or any(m in have for m in ci.mro[1:])
        n_geo += 1
        if not covered:
            raise AnalysisError("spec/guards.json has no row for the documented parameter 'geometry' of %s: add its admissible "
                                "values (from the parameter help / messages) so that the guard is checked" % ci.fullname)
    if n_geo < 20:
        raise AnalysisError('only %d solver classes with a geometry parameter found (confirmed: >= 30)' % n_geo)
    # ---- rule 4: a quantity a classification test allows to be zero is not divided by unconditionally ----
    from . import c20_division
    c20_division.sedov(model, res)
    c20_division.guarded_elsewhere(model, res)
    return res


# ---------------------------------------------------------------------------

def is_nan_value(n, depth=0):
    if depth > 12:
        return False
    k = n.kind
    if k == 'extfunc' and n.val in ('numpy.nan', 'numpy.NaN', 'numpy.NAN', 'math.nan'):
        return True
    if k == 'call' and n.val == 'builtins.float' and n.args and n.args[0].kind == 'const' and n.args[0].val == 'nan':
        return True
    if k == 'const' and isinstance(n.val, float) and n.val != n.val:
        return True
    if k == 'store':
        # whole-array store of NaN: idx is a full slice / ellipsis
        idx = n.args[1]
        full = idx.kind == 'slice' and all(a.kind == 'const' and a.val is None for a in idx.args)
        return full and is_nan_value(n.args[2], depth + 1)
    if k == 'binop' and n.val in ('*', '+', '-', '/'):
        return is_nan_value(n.args[0], depth + 1) or is_nan_value(n.args[1], depth + 1)
    if k == 'call' and n.val in ('numpy.full', 'numpy.full_like') and len(n.args) > 1:
        return is_nan_value(n.args[1], depth + 1)
    if k == 'call' and n.val in ('numpy.array', 'numpy.asarray', 'numpy.copy') and n.args:
        return is_nan_value(n.args[0], depth + 1)
    if k in ('list', 'tuple', 'arrayof') and n.args:
        return all(is_nan_value(a, depth + 1) for a in n.args)
    return False


def time_cond_covers(cond, tnode):
    """cond is a comparison of the time input that holds for every t <= 0."""
    if cond.kind != 'cmp':
        return False
    l, r = cond.args
    if l is tnode and r.kind == 'const' and isinstance(r.val, (int, float)):
        s = ISet.cmp(cond.val, float(r.val))
    elif r is tnode and l.kind == 'const' and isinstance(l.val, (int, float)):
        s = ISet.cmp(FLIP[cond.val], float(l.val))
    else:
        return False
    return ISet.cmp('<=', 0).subset_of(s)


def nan_on_branch(n, tnode, depth=0):
    """Value n is NaN whenever t <= 0."""
    if depth > 6:
        return False
    if n.kind == 'phi':
        c = n.args[0]
        if time_cond_covers(c, tnode):
            return is_nan_value(n.args[1])
        return nan_on_branch(n.args[1], tnode, depth + 1) and nan_on_branch(n.args[2], tnode, depth + 1)
    if n.kind == 'call' and n.val == 'numpy.where' and len(n.args) == 3:
        if time_cond_covers(n.args[0], tnode):
            return is_nan_value(n.args[1])
    return is_nan_value(n)


def check_nan_branch(model, ci, res):
    from .c05 import phi_leaves, POS_RE
    b = Builder(model)
    objn, ret = b.run_solver(ci)
    tnode = [n for n in b.trace if n.kind == 'input' and n.val == 't'][0]
    runm = ci.find_method('_run')
    # the returned value is phi(t<=0, solution_nan, solution) or a solution whose fields are phis
    def fields(sol):
        data = sol.args[0] if sol.args else sol.kw.get('data')
        names = sol.args[1] if len(sol.args) > 1 else sol.kw.get('names')
        if data is None or names is None or data.kind not in ('list', 'tuple') or names.kind not in ('list', 'tuple'):
            return None
        return [(a.val, d) for a, d in zip(names.args, data.args)]

    checked = 0
    if ret.kind == 'phi' and time_cond_covers(ret.args[0], tnode):
        sol = ret.args[1]
        fl = fields(sol) if sol.kind == 'call' else None
        if fl is None:
            raise AnalysisError('NaN branch of %s not resolvable' % ci.fullname)
        for name, d in fl:
            if POS_RE.match(str(name)):
                continue
            res.obligations += 1
            res.evaluations += 1
            checked += 1
            if is_nan_value(d):
                res.discharged += 1
            else:
                res.add(Finding(PROP, 'C20.nan-branch', runm.module.relpath, runm.qualname,
                                "%s: field '%s' not NaN for t <= 0" % (ci.name, name),
                                "%s: for t <= 0 (no valid solution) the field '%s' is not the NaN array" % (ci.name, name),
                                line=getattr(sol.origin[1], 'lineno', 0), construct=d.src[:100]))
    else:
        sols = [l for l in phi_leaves(ret) if l.kind == 'call' and l.val == 'exactpack.base.ExactSolution']
        if not sols:
            raise AnalysisError('no ExactSolution returned by %s' % ci.fullname)
        for sol in sols:
            fl = fields(sol)
            if fl is None:
                raise AnalysisError('solution fields of %s not resolvable' % ci.fullname)
            for name, d in fl:
                if POS_RE.match(str(name)):
                    continue
                res.obligations += 1
                res.evaluations += 1
                checked += 1
                if nan_on_branch(d, tnode):
                    res.discharged += 1
                else:
                    res.add(Finding(PROP, 'C20.nan-branch', runm.module.relpath, runm.qualname,
                                    "%s: field '%s' not NaN for t <= 0" % (ci.name, name),
                                    "%s: for t <= 0 (documented: no valid solution) the field '%s' is not NaN on "
                                    "every path" % (ci.name, name),
                                    line=getattr(sol.origin[1], 'lineno', 0), construct=d.src[:100]))
    if checked == 0:
        raise AnalysisError('NaN-branch rule matched no field in %s' % ci.fullname)
    res.nontrivial += 1
    res.analysed.append(ci.fullname + ' (NaN branch, %d fields)' % checked)
