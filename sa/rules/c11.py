"""C11 -- Sedov: energy behind the shock equals the blast energy, mass is conserved.

The numbers come out of quad / fminbound / interp1d, but everything they are applied to is a
closed form in the similarity variable v, and the statements of the property follow from
identities between those closed forms, for symbolic geometry j, gamma, omega:

 standard / vacuum solution types (the generic branch of sedov_funcs_standard)
 (1) d(l_fun)/dv is the hand-written `dlamdv` (the Jacobian of both energy integrals);
 (2) the parametric field  r = r2(t) lambda(v), rho = rho2(t) g(v), u = u2(t) f(v), p = p2(t) h(v)
     satisfies the Euler equations (mass, momentum, energy) in geometry j  -- with the jump conditions
     at the shock (C02) this gives d/dt of the mass and energy integrals = flux through the shock;
 (3) r2^j rho2 u2^2 and r2^j p2 do not depend on t: the energy behind the shock is the same at every time;
 (4) the integrands of the two energy integrals are the kinetic and internal energy of a shell,
        r2^j lambda^(j-1) lambda_v rho2 u2^2 g f^2  =  (rho0 r2^(j+2-omega) / t^2) efun01(v)
        r2^j lambda^(j-1) lambda_v p2 h             =  (rho0 r2^(j+2-omega) / t^2) efun02(v)
 (5) the shock radius inverts the normalisation:  alpha rho0 r2^(j+2-omega) / t^2 = eblast;
 (6) alpha = (S_j / 2) (eval1 + 2 eval2/(gamma-1)) with the volume element S_j = 1, 2 pi, 4 pi, on every
     branch of the constructor (general and hand-evaluated singular case), j = 1, 2, 3;
 (7) at the upper limit v2 of the integrals lambda = f = g = h = 1 (the shock, with the post-shock state);
     the two quantities the code clamps away from zero vanish at the lower limits v0 (standard) and vv (vacuum);
 so  E(t) = int S_j r^(j-1) (rho u^2/2 + p/(gamma-1)) dr = (rho0 r2^(j+2-omega)/t^2) alpha = eblast.

 singular solution type (omega on the surface v2 = vstar, taken from the code's own criterion; j = 2, 3)
 (8) the explicit profile of sedov_funcs_singular satisfies the Euler equations, and its energy and mass
     integrals (monomials in r, integrated in closed form) are eblast and the initial mass inside r2.

 (9) ahead of the shock the stored state is rho0 r^-omega, u = 0, p = 0.
(10) 'at every time': over the operation sequence construct, call(t_a), call(t_c), call(t_d) no returned field of a
     call depends on the time of another call (the C06 rule re-run for this class).

Identities are zero tests of normal forms (differentiation on the normal form; parameter-dependent
exponents decomposed over the common denominator of a0..a5; sign orientation at the class defaults,
v = 0.31).  Not decided: the accuracy of quad, the inversion lambda(v) = r/r2 by fminbound, the linear
interpolation to the user points, the two measure-zero special-singularity branches (omega2, omega3).
"""
import ast
import re
from fractions import Fraction

import sympy as sp

from ..model import AnalysisError, src_of
from ..report import Result, Finding
from ..vg import Builder, Frame, Closure
from ..nf import NFEval, NAN, Mono, Sum, PW, Struct, leaves, DiffUnsupported
from ..ratnf import NFSym, is_zero, exponent_lcm
from ..radnf import RadNF, Unsupported
from ..par import run_parallel

LEVEL = 'other'
PROP = 'C11'
CLS = 'exactpack.solvers.sedov.sedov:Sedov'
V, T, RR = 'param:v', 'input:t', 'param:rr'
CONST_COND = re.compile(r'^\((-?[\d./]+) (==|!=|<=|>=|<|>) (-?[\d./]+)\)$')
OPS = {'==': lambda a, b: a == b, '!=': lambda a, b: a != b, '<': lambda a, b: a < b, '<=': lambda a, b: a <= b,
       '>': lambda a, b: a > b, '>=': lambda a, b: a >= b}


def closed(x):
    return not (x is NAN or isinstance(x, (PW, Struct)))


def cond_value(s, generic=False):
    """Value of a condition key that only compares constants (`(3 != 1)`, `phi[(7/24 <= 1/10000)?False:True]`), else None.
    generic: an atomic comparison of non-constant quantities (the `abs(denominator) <= osmall` tests) counts as false --
    the parameters are generic on the surface under consideration."""
    s = s.strip()
    if s in ('True', 'False'):
        return s == 'True'
    m = CONST_COND.match(s)
    if m:
        return OPS[m.group(2)](Fraction(m.group(1)), Fraction(m.group(3)))
    if generic and s.startswith('(') and s.endswith(')') and (' <= ' in s or ' < ' in s) and 'builtins.abs(' in s:
        return False
    if s.startswith('phi[') and s.endswith(']'):
        inner, depth, q, c = s[4:-1], 0, None, None
        for i, ch in enumerate(inner):
            if ch in '([':
                depth += 1
            elif ch in ')]':
                depth -= 1
            elif depth == 0 and ch == '?' and q is None:
                q = i
            elif depth == 0 and ch == ':' and q is not None and c is None:
                c = i
        if q is None or c is None:
            return None
        cv = cond_value(inner[:q], generic)
        if cv is None:
            return None
        return cond_value(inner[q + 1:c] if cv else inner[c + 1:], generic)
    return None


def feasible(x):
    """Leaves of a piecewise value whose constant conditions (`(3 != 1)`) hold; the remaining symbolic
    conditions are returned with the leaf."""
    out = []
    for conds, leaf in leaves(x):
        ok, rest = True, []
        for ck, pol, _ in conds:
            cv = cond_value(ck)
            if cv is not None:
                if cv != pol:
                    ok = False
                    break
            else:
                rest.append((ck, pol))
        if ok:
            out.append((tuple(rest), leaf))
    return out


def std_leaf(x, what):
    """The piece for generic parameters: every `abs(denominator) <= osmall` test that is not decided by the
    substitutions made is false (standard/vacuum piece; on a special surface, that surface's piece)."""
    ls = []
    for conds, leaf in leaves(x):
        ok = True
        for ck, pol, _ in conds:
            cv = cond_value(ck, generic=True)
            if cv is None:
                raise AnalysisError('%s: condition not decided for generic parameters: %s' % (what, ck[:80]))
            if cv != pol:
                ok = False
                break
        if ok:
            ls.append(leaf)
    if len(ls) != 1:
        raise AnalysisError('%s: %d pieces for generic parameters' % (what, len(ls)))
    return ls[0]


class Ctx:
    """One symbolic Sedov instance (constructor and _run executed on the value graph) and evaluators on it."""

    def __init__(self, model, sample_override=None):
        self.model = model
        self.sample_override = dict(sample_override or {})
        self.cls = cls = model.get_class(CLS)
        self.b = b = Builder(model)
        self.objn, _ = b.run_solver(cls)
        self.oid = self.objn.val.oid
        self.h = h = b.heap[self.oid]
        self.keys = list(model.parameters_keys(cls) or [])
        for a in ('r2', 'rho2', 'u2', 'p2', 'us', 'alpha', 'denom2', 'denom3', 'eval1', 'eval2', 'v0', 'vv', 'v2', 'vstar'):
            if a not in h:
                raise AnalysisError('Sedov no longer sets %s' % a)
        for k in ('geometry', 'omega', 'gamma', 'rho0', 'eblast'):
            if (self.oid, k) not in b.param_nodes:
                raise AnalysisError('Sedov no longer reads the parameter %s' % k)
        self.v = b.mk('param', 'v')
        self.rr = b.mk('param', 'rr')
        self.f_std, self.funcs = self.method('sedov_funcs_standard', self.v)
        self.f_e1, self.e1 = self.method('efun01', self.v)
        self.f_e2, self.e2 = self.method('efun02', self.v)
        self.f_sing, self.sing = self.method('sedov_funcs_singular', self.rr)
        self.runm = cls.find_method('_run')
        self.init = cls.find_method('__init__')
        self.guards = [n for n in b.trace if n.kind == 'call' and n.val == 'builtins.max' and len(n.args) == 2]

    def method(self, name, *args):
        fi = self.cls.find_method(name)
        if fi is None:
            raise AnalysisError('Sedov.%s vanished' % name)
        self.b.frame = Frame(None, self.cls.module, {}, None)
        clo = Closure(fi, fi.node, None, self_node=self.objn, cls=self.cls, module=self.cls.module)
        return fi, self.b.call_closure(clo, list(args), {}, fi.node)

    def sample(self):
        s = {'input:r': sp.Rational(1, 2), T: sp.Rational(3, 10), V: sp.Rational(31, 100), RR: sp.Rational(1, 5),
             'param:alpha': sp.Integer(1), 'pi': sp.Rational(355, 113)}
        for kname in self.keys:
            owner, val = self.cls.find_attr(kname)
            try:
                if all(isinstance(n, (ast.Expression, ast.Constant, ast.BinOp, ast.UnaryOp, ast.operator, ast.unaryop))
                       for n in ast.walk(val)):
                    s['param:%s' % kname] = sp.nsimplify(eval(compile(ast.Expression(val), 'default', 'eval'),
                                                              {'__builtins__': {}}), rational=True)
            except Exception:
                pass
        s.update(self.sample_override)
        return s

    def ev(self, j=None, omega=None, alpha_opaque=True, v_at=None, alpha_singular=False, values=None,
           unclamp=('denom2', 'denom3'), zero_nodes=(), sample=None):
        """NFEval on the instance.  j: geometry fixed to 1/2/3; omega: field element substituted for omega;
        alpha_opaque: alpha (quad results) is one positive atom; v_at: node whose value replaces v."""
        b, h = self.b, self.h
        ev = NFEval(self.keys + ['v', 'rr', 'alpha'])
        ev.sample = dict(self.sample(), **(sample or {}))
        ev.factor_symbolic = True
        for n in zero_nodes:
            ev.memo[n.nid] = ev.num(0)
        if j is not None:
            pn = b.param_nodes[(self.oid, 'geometry')]
            ev.memo[pn.nid] = ev.num(j)
            ev.R.rat_memo[pn.nid] = ev.R.ratval(b.const(j))
            ev.sample['param:geometry'] = sp.Integer(j)
        for name, q in (values or {}).items():
            pn = b.param_nodes[(self.oid, name)]
            ev.memo[pn.nid] = ev.num(q)
            ev.R.rat_memo[pn.nid] = ev.S.F(q)
        if omega is not None:
            pn = b.param_nodes[(self.oid, 'omega')]
            ev.memo[pn.nid] = ev.field_nf(omega)
            ev.R.rat_memo[pn.nid] = omega
        if alpha_opaque:
            ev.memo[h['alpha'].nid] = ev.atom('param:alpha')
        # the un-clamped denominators (the clamp only acts on the measure-zero special cases)
        for nm in unclamp:
            n = h[nm]
            while n.kind == 'phi':
                n = n.args[2]
            if h[nm] is not n:
                ev.memo[h[nm].nid] = ev.nf(n)
                ev.R.rat_memo[h[nm].nid] = ev.R.ratval(n)
        if alpha_singular:
            # alpha: the branch of the constructor for the singular case (before anything else is evaluated)
            al = [(c, l) for c, l in feasible(ev.nf(h['alpha'])) if c and all(pol for _, pol in c)]
            if len(al) != 1 or not closed(al[0][1]):
                raise AnalysisError('singular-case alpha not found')
            ev.memo[h['alpha'].nid] = al[0][1]
        if v_at is not None:
            ev.memo[self.v.nid] = ev.nf(v_at)
        # guards against division by zero: max(tiny, X) / max(X, tiny) is X
        for n in self.guards:
            x = self.guard_arg(ev, n)
            if x is not None:
                ev.memo[n.nid] = ev.nf(x)
        return ev

    @staticmethod
    def mentions(n, target):
        seen, todo = set(), [n]
        while todo:
            x = todo.pop()
            if x is target:
                return True
            if x.nid in seen:
                continue
            seen.add(x.nid)
            todo.extend(a for a in x.args if hasattr(a, 'nid'))
        return False

    @staticmethod
    def guard_arg(ev, n):
        vals = [ev.nf(a) for a in n.args]
        for i in (0, 1):
            c = vals[i]
            if isinstance(c, Mono) and not c.f and 0 < c.coef < 1e-9:
                return n.args[1 - i]
        return None


class Zero:
    """Zero test of normal forms of one evaluator (rational normal form, then radical normal form)."""

    def __init__(self, ev, common=()):
        self.ev = ev
        self.sy = sy = NFSym(ev)
        if common:
            sy.common_den = exponent_lcm(ev, [x for x in common if closed(x)])

        def orient(f):
            vals = {}
            for sname, symb in sy.syms.items():
                if symb in f.free_symbols:
                    if sname in ev.sample:
                        vals[symb] = ev.sample[sname]
                    elif sname.startswith('pow['):
                        vals[symb] = sp.Integer(1)
                    else:
                        return 1
            try:
                val = f.subs(vals)
                return -1 if val.is_number and val < 0 else 1
            except Exception:
                return 1
        self.orient = sy.orient = orient

    def __call__(self, x):
        if not closed(x):
            return False
        ev = self.ev
        if isinstance(x, Sum):
            # x == 0  <=>  x / m0 == 0 with m0 the parameter-dependent powers of the first term (a non-vanishing monomial)
            m0 = {k: e for k, e in x.terms[0].f.items() if not ev._ground_exp(e)}
            if m0:
                inv0 = Mono(Fraction(1), {k: -e for k, e in m0.items()})
                y = None
                for t in x.terms:
                    q = ev.mul(t, inv0)
                    y = q if y is None else ev.add(y, q)
                x = y
        try:
            cx = self.sy.conv(x)
            if is_zero(cx):
                return True
            try:
                rn = RadNF(self.sy.units)
                rn.orient = self.orient
                return rn.is_zero(cx)
            except Unsupported:
                return False
        except TypeError:
            return False


_LAST = [None]


def check(res, fi, label, ok, msg, at=None):
    import time
    now = time.time()
    if _LAST[0] is not None:
        res.extra.setdefault('seconds_by_identity', []).append([round(now - _LAST[0], 1), label[:60]])
    _LAST[0] = now
    res.obligations += 1
    res.evaluations += 1
    res.nontrivial += 1
    if ok:
        res.discharged += 1
        res.sample({'identity': label}, limit=60)
    else:
        res.add(Finding(PROP, 'C11.identity', fi.module.relpath, fi.qualname, label, msg,
                        line=getattr(at, 'lineno', 0) or fi.node.lineno,
                        construct=src_of(at) if at is not None else 'def %s' % fi.name))


def origin(n):
    try:
        return n.origin[1]
    except Exception:
        return None


# ---------------------------------------------------------------------------------------------------------------
def special_omega(cx, which):
    """omega on the surface denom2 == 0 / denom3 == 0, solved from the code's own denominators (linear in omega)."""
    ev0 = cx.ev()
    n = cx.h[which]
    while n.kind == 'phi':
        n = n.args[2]
    expr = ev0.R.ratval(n).as_expr()
    sol = sp.solve(sp.numer(sp.together(expr)), sp.Symbol('omega'))
    if len(sol) != 1:
        raise AnalysisError('%s == 0 is not one value of omega' % which)
    return ev0.S.parse_F(str(sp.together(sol[0])))


def special(cx, res, parts=('misc', 'mass', 'momentum', 'energy')):
    """The two special-singularity branches of sedov_funcs_standard, each on its own surface in parameter space."""
    standard(cx, res, branch='omega2', parts=parts)
    standard(cx, res, branch='omega3', parts=parts)


def standard(cx, res, branch='standard', parts=('misc', 'mass', 'momentum', 'energy')):
    b, h = cx.b, cx.h
    if branch == 'standard':
        mk = lambda **kw: cx.ev(**kw)
        tag = ''
    else:
        den = {'omega2': 'denom2', 'omega3': 'denom3'}[branch]
        w = special_omega(cx, den)
        other = tuple(d for d in ('denom2', 'denom3') if d != den)
        dn = h[den]
        while dn.kind == 'phi':
            dn = dn.args[2]
        # a sample point of the similarity variable inside the range of integration of this branch (class defaults for
        # geometry and gamma): the bases of the real powers are oriented there
        smp = cx.sample()
        ev0 = cx.ev(omega=w, unclamp=other, zero_nodes=[dn])
        vals = {sp.Symbol(k.split(':')[1]): v for k, v in smp.items() if k.startswith('param:')}
        num = lambda a: ev0.R.ratval(h[a]).as_expr().subs(vals)
        v2n, vsn = num('v2'), num('vstar')
        vs = (num('v0') + v2n) / 2 if v2n < vsn else (v2n + num('vv')) / 2
        mk = lambda **kw: cx.ev(omega=w, unclamp=other, zero_nodes=[dn], sample={V: sp.nsimplify(vs)}, **kw)
        tag = '%s branch (omega = %s): ' % (branch, w)
    ev = mk()
    names = ['l_fun', 'dlamdv', 'f_fun', 'g_fun', 'h_fun']
    F = {}
    for i, nm in enumerate(names):
        x = std_leaf(ev.nf(b.mk('sub', args=[cx.funcs, b.const(i)])), nm)
        if not closed(x):
            raise AnalysisError('sedov_funcs_standard: %s is not a closed form' % nm)
        F[nm] = x
    lam, lamv_code, f, g, hh = (F[n] for n in names)
    E1 = std_leaf(ev.nf(cx.e1), 'efun01')
    E2 = std_leaf(ev.nf(cx.e2), 'efun02')
    r2, rho2, u2, p2, us = (ev.nf(h[a]) for a in ('r2', 'rho2', 'u2', 'p2', 'us'))
    if not all(closed(x) for x in (r2, rho2, u2, p2, us, E1, E2)):
        raise AnalysisError('Sedov shock scales / integrands are not closed forms')
    # the exponents a0..a5 have several multivariate denominators: decompose all of them over their lcm
    zero = Zero(ev, list(F.values()) + [E1, E2, r2, rho2, u2, p2, us])
    try:
        lam_v = ev.diff(lam, V)
    except DiffUnsupported as ex:
        raise AnalysisError('lambda(v) cannot be differentiated: %s' % ex)
    # (1)
    if 'misc' in parts:
        check(res, cx.f_std, tag + 'dlamdv == d(l_fun)/dv', zero(ev.add(lamv_code, lam_v, -1)),
              'sedov_funcs_standard: ' + tag + 'the hand-written derivative dlamdv is not the derivative of l_fun with respect to v: '
              'both energy integrals are taken with the wrong Jacobian')
    gamma = ev.atom('param:gamma')
    gm1 = ev.add(gamma, ev.num(1), -1)
    jexp = ev.S.syms['geometry']
    jm1 = ev.field_nf(jexp - 1)
    inv = lambda x: ev.power(x, ev.S.F(-1))
    # (2) Euler equations in parametric form
    eqs = [q for q in ('mass', 'momentum', 'energy') if q in parts]
    if eqs:
        try:
            d = ev.diff
            r = ev.mul(r2, lam)
            dr = lambda X: ev.mul(d(X, V), inv(ev.mul(r2, lam_v)))                            # d/dr at fixed t
            vt = ev.mul(ev.num(-1), ev.mul(ev.mul(d(r2, T), lam), inv(ev.mul(r2, lam_v))))    # dv/dt at fixed r
            dt = lambda X: ev.add(d(X, T), ev.mul(d(X, V), vt))                               # d/dt at fixed r
            rho, u, p = ev.mul(rho2, g), ev.mul(u2, f), ev.mul(p2, hh)
            div_u = lambda: ev.add(dr(u), ev.mul(ev.mul(jm1, u), inv(r)))
            resid = {}
            if 'mass' in eqs:
                resid['mass'] = ev.add(ev.add(dt(rho), ev.mul(u, dr(rho))), ev.mul(rho, div_u()))
            if 'momentum' in eqs:
                resid['momentum'] = ev.add(ev.add(dt(u), ev.mul(u, dr(u))), ev.mul(dr(p), inv(rho)))
            if 'energy' in eqs:
                e = ev.mul(p, inv(ev.mul(gm1, rho)))
                resid['energy'] = ev.add(ev.add(dt(e), ev.mul(u, dr(e))), ev.mul(ev.mul(p, inv(rho)), div_u()))
        except DiffUnsupported as ex:
            raise AnalysisError('Sedov similarity functions cannot be differentiated: %s' % ex)
        for label in eqs:
            check(res, cx.f_std, tag + 'similarity solution: %s equation' % label, zero(resid[label]),
                  'Sedov (%s): the parametric field (r2 lambda, rho2 g, u2 f, p2 h) does not satisfy the %s equation; mass and '
                  'energy behind the shock are then not conserved' % (tag.rstrip(': ') or 'standard / vacuum branch', label))
    if 'misc' not in parts:
        return
    # (3) time independence
    rj = ev.power(r2, jexp)
    for label, x in () if branch != 'standard' else (('r2^j rho2 u2^2', ev.mul(rj, ev.mul(rho2, ev.mul(u2, u2)))), ('r2^j p2', ev.mul(rj, p2))):
        try:
            ok = zero(ev.diff(x, T))
        except DiffUnsupported:
            ok = False
        check(res, cx.runm, '%s independent of t' % label, ok,
              'Sedov: %s depends on time: the energy behind the shock is not the same at every time' % label, at=origin(h['p2']))
    # (4) integrands
    xg2 = jexp + 2 - (ev.S.syms['omega'] if branch == 'standard' else w)
    scale = ev.mul(ev.mul(ev.atom('param:rho0'), ev.power(r2, xg2)), ev.power(ev.atom(T), ev.S.F(-2)))
    shell = ev.mul(ev.mul(rj, ev.power(lam, jexp - 1)), lam_v)
    kin = ev.mul(shell, ev.mul(ev.mul(rho2, ev.mul(u2, u2)), ev.mul(g, ev.mul(f, f))))
    inte = ev.mul(shell, ev.mul(p2, hh))
    check(res, cx.f_e1, tag + 'efun01 is the kinetic energy of a shell: r2^j lam^(j-1) lam_v rho2 u2^2 g f^2 == (rho0 r2^(j+2-w)/t^2) efun01',
          zero(ev.add(kin, ev.mul(scale, E1), -1)),
          'efun01: ' + tag + 'the integrand of the first energy integral is not the kinetic energy density rho u^2 of the similarity solution in '
          'the scaling alpha uses: alpha is then not the dimensionless energy of the returned profile and the energy behind the shock '
          'is not eblast')
    check(res, cx.f_e2, tag + 'efun02 is the internal energy of a shell: r2^j lam^(j-1) lam_v p2 h == (rho0 r2^(j+2-w)/t^2) efun02',
          zero(ev.add(inte, ev.mul(scale, E2), -1)),
          'efun02: ' + tag + 'the integrand of the second energy integral is not the pressure of the similarity solution in the scaling alpha '
          'uses: the energy behind the shock is then not eblast')
    # (5) shock radius
    if branch == 'standard':
        check(res, cx.runm, 'alpha rho0 r2^(j+2-omega) / t^2 == eblast',
              zero(ev.add(ev.mul(ev.atom('param:alpha'), scale), ev.atom('param:eblast'), -1)),
              'Sedov: the shock radius does not invert E = alpha rho0 r2^(j+2-omega)/t^2 = eblast', at=origin(h['r2']))
    # (7a) the shock is at the upper limit v2 with the post-shock state
    ev2 = mk(v_at=h['v2'])
    at_v2 = {nm: std_leaf(ev2.nf(b.mk('sub', args=[cx.funcs, b.const(i)])), nm) for i, nm in enumerate(names)}
    z2 = Zero(ev2, list(at_v2.values()))
    for i, nm in enumerate(names):
        if nm == 'dlamdv':
            continue
        x = at_v2[nm]
        check(res, cx.f_std, tag + '%s(v2) == 1' % nm, closed(x) and z2(ev2.add(x, ev2.num(1), -1)),
              'sedov_funcs_standard: ' + tag + '%s is not 1 at the upper limit v2 of the energy integrals: the shock front is not at '
              'lambda = 1 with the post-shock state, the integrals do not extend to the shock' % nm)
    # (7b) inner limits
    for lim, what in () if branch != 'standard' else (('v0', 'standard'), ('vv', 'vacuum')):
        ev3 = cx.ev(v_at=h[lim])
        z3 = Zero(ev3)
        hit = 0
        for n in cx.guards:
            a = Ctx.guard_arg(ev3, n)
            if a is None or not cx.mentions(a, cx.v):       # only the clamps of sedov_funcs_standard(v)
                continue
            if z3(ev3.nf(a)):
                hit += 1
        check(res, cx.init, 'lower limit %s (%s case): a clamped base of the similarity functions vanishes there' % (lim, what),
              hit >= 1,
              'Sedov.__init__: none of the quantities that sedov_funcs_standard clamps away from zero vanishes at %s, the lower limit '
              'of the energy integrals in the %s case: the integrals do not start at the inner boundary of the flow' % (lim, what),
              at=origin(h[lim]))


# ---------------------------------------------------------------------------------------------------------------
def limits(cx, res):
    """(7c): the two quadratures integrate efun01 / efun02 from v0 (standard) or vv (vacuum) to v2.  Which lower limit
    is taken depends on the parameters only through solution_type, so it is read off at one parameter point per regime
    (constant folding of the constructor; the point is found by scanning omega at the default geometry and gamma)."""
    b, h = cx.b, cx.h
    smp = cx.sample()
    j, g = Fraction(int(smp['param:geometry'])), Fraction(int(smp['param:gamma'].p), int(smp['param:gamma'].q))
    ev0 = cx.ev()
    v2f, vsf = ev0.R.ratval(h['v2']).as_expr(), ev0.R.ratval(h['vstar']).as_expr()
    points = {}
    for k in range(0, 16):
        w = j * Fraction(k, 16)
        d = (v2f - vsf).subs({sp.Symbol('geometry'): sp.Rational(j.numerator, j.denominator),
                              sp.Symbol('gamma'): sp.Rational(g.numerator, g.denominator),
                              sp.Symbol('omega'): sp.Rational(w.numerator, w.denominator)})
        if d < -sp.Rational(1, 100):
            points.setdefault('standard', w)
        elif d > sp.Rational(1, 100):
            points.setdefault('vacuum', w)
    if set(points) != {'standard', 'vacuum'}:
        raise AnalysisError('no parameter point found for the regimes %s' % sorted({'standard', 'vacuum'} - set(points)))
    for which, attr, fname in (('first', 'eval1', 'efun01'), ('second', 'eval2', 'efun02')):
        quads = []
        todo, seen = [h[attr]], set()
        while todo:
            n = todo.pop()
            if n.nid in seen:
                continue
            seen.add(n.nid)
            if n.kind == 'call' and str(n.val).endswith('integrate.quad'):
                quads.append(n)
                continue
            if n.kind in ('phi', 'sub'):
                todo.extend(a for a in n.args if hasattr(a, 'nid'))
        if len(quads) != 1 or len(quads[0].args) < 3:
            raise AnalysisError('%s is no longer one quad(f, a, b) call' % attr)
        q = quads[0]
        fn = q.args[0]
        fn_name = getattr(getattr(fn.val, 'func', None), 'name', None) if fn.kind == 'closure' else None
        check(res, cx.init, '%s energy integral integrates %s' % (which, fname), fn_name == fname,
              'Sedov.__init__: %s is not the integral of %s' % (attr, fname), at=origin(q))
        for regime, lim in (('standard', 'v0'), ('vacuum', 'vv')):
            ev = cx.ev(values={'geometry': j, 'gamma': g, 'omega': points[regime]})
            z = Zero(ev)
            lo, hi = feasible(ev.nf(q.args[1])), feasible(ev.nf(q.args[2]))
            ok = len(lo) == 1 and len(hi) == 1 and closed(lo[0][1]) and closed(hi[0][1]) and \
                z(ev.add(lo[0][1], ev.nf(h[lim]), -1)) and z(ev.add(hi[0][1], ev.nf(h['v2']), -1))
            check(res, cx.init, '%s energy integral, %s regime: from %s to v2' % (which, regime, lim), ok,
                  'Sedov.__init__: in the %s regime (geometry %s, gamma %s, omega %s) %s is not integrated from %s to v2: the integral '
                  'does not cover the region between the inner boundary of the flow and the shock'
                  % (regime, j, g, points[regime], attr, lim), at=origin(q))


# ---------------------------------------------------------------------------------------------------------------
def normalisation(cx, res):
    """(6): alpha = (S_j/2)(eval1 + 2 eval2/(gamma-1)) on every branch of the constructor, j = 1, 2, 3."""
    h = cx.h
    for j in (1, 2, 3):
        ev = cx.ev(j=j, alpha_opaque=False)
        z = Zero(ev)
        al, e1, e2 = (feasible(ev.nf(h[a])) for a in ('alpha', 'eval1', 'eval2'))
        half_S = {1: ev.num(Fraction(1, 2)), 2: ev.atom('pi'), 3: ev.mul(ev.num(2), ev.atom('pi'))}[j]
        gm1 = ev.add(ev.atom('param:gamma'), ev.num(1), -1)
        n = 0
        for conds, leaf in al:
            def pick(ls):
                for c2, l2 in ls:
                    if all(x in conds for x in c2):
                        return l2
                return None
            a1, a2 = pick(e1), pick(e2)
            if a1 is None or a2 is None or not closed(leaf):
                raise AnalysisError('alpha / eval1 / eval2 branches cannot be matched (geometry %d)' % j)
            want = ev.mul(half_S, ev.add(a1, ev.mul(ev.mul(ev.num(2), a2), ev.power(gm1, ev.S.F(-1)))))
            n += 1
            hand = all(pol for _, pol in conds) and bool(conds)
            check(res, cx.init, 'geometry %d, %s: alpha == (S_j/2)(eval1 + 2 eval2/(gamma-1)), S_j = %s'
                  % (j, 'hand-evaluated singular case' if hand else 'quadrature', {1: '1', 2: '2 pi', 3: '4 pi'}[j]),
                  z(ev.add(leaf, want, -1)),
                  'Sedov.__init__ (geometry %d): alpha is not the energy integral of the profile with the volume element of the '
                  'geometry, (S_j/2)(eval1 + 2 eval2/(gamma-1)) with S_j = 1, 2 pi, 4 pi: the energy behind the shock is not eblast'
                  % j, at=origin(h['alpha']))
        if n < 2:
            raise AnalysisError('alpha has %d branch(es) for geometry %d (confirmed: 2)' % (n, j))


# ---------------------------------------------------------------------------------------------------------------
def _atoms(ev, k, seen=None):
    seen = set() if seen is None else seen
    if k in seen:
        return seen
    seen.add(k)
    if k in ev.sums:
        for t in ev.sums[k].terms:
            for kk in t.f:
                _atoms(ev, kk, seen)
    return seen


def integrate(ev, x, key, upper):
    """int_0^upper of a sum of monomials c * key^e (no other dependence on key); None if x is not of that form."""
    terms = x.terms if isinstance(x, Sum) else [x]
    tot = None
    for t in terms:
        if not isinstance(t, Mono):
            return None
        e = t.f.get(key, ev.S.F(0))
        rest = Mono(t.coef, {k: w for k, w in t.f.items() if k != key})
        for k in rest.f:
            if key in _atoms(ev, k):
                return None
        term = ev.mul(ev.mul(rest, ev.power(upper, e + 1)), ev.field_nf(1 / (e + 1)))
        tot = term if tot is None else ev.add(tot, term)
    return tot


def singular(cx, res):
    """(8): the explicit singular profile, omega on the surface v2 == vstar taken from the code's own criterion."""
    b, h = cx.b, cx.h
    ev0 = cx.ev()
    crit = ev0.R.ratval(h['v2']) - ev0.R.ratval(h['vstar'])
    om, geo = sp.Symbol('omega'), sp.Symbol('geometry')
    num = sp.numer(sp.together(crit.as_expr()))
    sol = sp.solve(num, om)
    if len(sol) != 1:
        raise AnalysisError('the singular surface v2 == vstar is not one value of omega')
    for j in (2, 3):
        w_s = ev0.S.parse_F(str(sp.together(sol[0].subs(geo, j))))
        ev = cx.ev(j=j, omega=w_s, alpha_opaque=False, alpha_singular=True)
        r2, rho2, u2, p2 = (ev.nf(h[a]) for a in ('r2', 'rho2', 'u2', 'p2'))
        S = [ev.nf(b.mk('sub', args=[cx.sing, b.const(i)])) for i in range(5)]
        if not all(closed(x) for x in S + [r2, rho2, u2, p2]):
            raise AnalysisError('singular profile is not a closed form')
        lam, _, f, g, hh = S
        z = Zero(ev, S + [r2, rho2, u2, p2])
        rho, u, p = ev.mul(rho2, g), ev.mul(u2, f), ev.mul(p2, hh)
        gm1 = ev.add(ev.atom('param:gamma'), ev.num(1), -1)
        inv = lambda x: ev.power(x, ev.S.F(-1))
        rr = ev.atom(RR)
        try:
            d = ev.diff
            e = ev.mul(p, inv(ev.mul(gm1, rho)))
            div_u = ev.add(d(u, RR), ev.mul(ev.mul(ev.num(j - 1), u), inv(rr)))
            mass = ev.add(ev.add(d(rho, T), ev.mul(u, d(rho, RR))), ev.mul(rho, div_u))
            mom = ev.add(ev.add(d(u, T), ev.mul(u, d(u, RR))), ev.mul(d(p, RR), inv(rho)))
            en = ev.add(ev.add(d(e, T), ev.mul(u, d(e, RR))), ev.mul(ev.mul(p, inv(rho)), div_u))
        except DiffUnsupported as ex:
            raise AnalysisError('singular profile cannot be differentiated: %s' % ex)
        for label, x in (('mass', mass), ('momentum', mom), ('energy', en)):
            check(res, cx.f_sing, 'singular case, geometry %d: %s equation' % (j, label), z(x),
                  'sedov_funcs_singular (geometry %d, omega on the surface v2 = vstar): the explicit profile does not satisfy the %s '
                  'equation' % (j, label))
        Sj = ev.mul(ev.num(2 * (j - 1)), ev.atom('pi'))
        vol = ev.mul(Sj, ev.power(rr, ev.S.F(j - 1)))
        edens = ev.add(ev.mul(ev.num(Fraction(1, 2)), ev.mul(rho, ev.mul(u, u))), ev.mul(p, inv(gm1)))
        E = integrate(ev, ev.mul(vol, edens), RR, r2)
        check(res, cx.f_sing, 'singular case, geometry %d: energy integral over 0 < r < r2 == eblast' % j,
              E is not None and z(ev.add(E, ev.atom('param:eblast'), -1)),
              'sedov_funcs_singular (geometry %d): the energy of the explicit profile, integrated in closed form over the region '
              'behind the shock with the hand-evaluated alpha, is not eblast' % j)
        M = integrate(ev, ev.mul(vol, rho), RR, r2)
        rho_init = ev.mul(ev.atom('param:rho0'), ev.power(rr, -w_s))
        M0 = integrate(ev, ev.mul(vol, rho_init), RR, r2)
        check(res, cx.f_sing, 'singular case, geometry %d: mass behind the shock == initial mass inside r2' % j,
              M is not None and M0 is not None and z(ev.add(M, M0, -1)),
              'sedov_funcs_singular (geometry %d): the mass of the explicit profile behind the shock is not the mass the initial '
              'profile rho0 r^-omega held inside r2' % j)
    # geometry 1: the singular surface is omega = 1 = geometry, outside the admitted range
    res.extra['singular_surface'] = 'omega = %s (geometry 1: omega = %s, not < geometry)' % (sol[0], sp.simplify(sol[0].subs(geo, 1)))


# ---------------------------------------------------------------------------------------------------------------
def ahead(cx, res):
    """(9): the branch of `_run` for points outside the shock stores the undisturbed state."""
    b = cx.b
    found = None
    for st in ast.walk(cx.runm.node):
        if not isinstance(st, ast.If):
            continue
        test, neg = st.test, False
        while isinstance(test, ast.UnaryOp) and isinstance(test.op, ast.Not):
            test, neg = test.operand, not neg
        if not (isinstance(test, ast.Compare) and len(test.ops) == 1):
            continue
        l, r, op = test.left, test.comparators[0], test.ops[0]
        sides = [src_of(l).replace(' ', ''), src_of(r).replace(' ', '')]
        if 'self.r2' not in sides or not st.orelse:
            continue
        var = l if sides[1] == 'self.r2' else r
        if not isinstance(var, ast.Name):
            continue
        if not isinstance(op, (ast.LtE, ast.Lt, ast.GtE, ast.Gt)):
            continue
        inside_first = (isinstance(op, (ast.LtE, ast.Lt)) == (sides[1] == 'self.r2')) != neg
        found = (st, var.id, st.orelse if inside_first else st.body)
        break
    if found is None:
        raise AnalysisError('the inside/outside-the-shock branch vanished from Sedov._run')
    st, var, outside = found
    ev = cx.ev()
    z = Zero(ev)
    b.frame = Frame(cx.runm, cx.cls.module, {'self': cx.objn, var: cx.rr}, self_obj=cx.objn, cls=cx.cls)
    want = {'density': ev.mul(ev.atom('param:rho0'), ev.power(ev.atom(RR), -ev.S.syms['omega'])),
            'velocity': ev.num(0), 'pressure': ev.num(0)}
    got = {}
    for s2 in outside:
        if isinstance(s2, ast.Assign) and len(s2.targets) == 1:
            tg = s2.targets[0]
            nm = tg.value.id if isinstance(tg, ast.Subscript) and isinstance(tg.value, ast.Name) else \
                tg.id if isinstance(tg, ast.Name) else None
            if nm in want:
                got[nm] = ev.nf(b.eval(s2.value))
    ok = set(got) == set(want) and all(closed(got[k]) and z(ev.add(got[k], want[k], -1)) for k in want)
    check(res, cx.runm, 'ahead of the shock: rho0 r^-omega, u = 0, p = 0', ok,
          'Sedov._run: ahead of the shock the stored state is not the undisturbed initial state rho0 r^-omega, u = 0, p = 0', at=st)


def _timed(fn):
    def run_(cx, res):
        import time
        t0 = time.time()
        _LAST[0] = t0
        fn(cx, res)
        res.extra.setdefault('seconds', {})[fn.__name__] = round(time.time() - t0, 1)
    run_.__name__ = fn.__name__
    return run_


def _std_part(cx, parts, res):
    import time
    t0 = time.time()
    _LAST[0] = t0
    standard(cx, res, parts=parts)
    res.extra.setdefault('seconds', {})['standard:%s' % ','.join(parts)] = round(time.time() - t0, 1)


def interior_pde_tasks(model):
    """The Euler equations of the Sedov interior (all three branches of the similarity functions) as parallel tasks;
    shared with C01."""
    cx = Ctx(model)
    eq = ('mass', 'momentum', 'energy')
    return [(_std_part, (cx, (q,))) for q in eq] + [(lambda cx_, res: special(cx_, res, parts=eq), (cx,))]


def every_time(cx, res):
    """'At every time': the fields returned by a call depend on that call's time only -- no quantity computed for the
    time of an earlier call of the same solver object (a cached shock or vacuum-boundary radius) survives into a later
    call.  The C06 operation-sequence rule, re-run for the Sedov class."""
    from . import c06
    part = Result('C06')
    stats = {'fields': 0, 'shared_reads': 0, 'ops': 0, 'stale_reads': [], 'ctor_mutation_sites': 0}
    c06.check_class(cx.model, cx.cls, part, stats)
    if part.obligations < 10:
        raise AnalysisError('only %d returned fields analysed over the operation sequence (confirmed: 24)' % part.obligations)
    res.obligations += part.obligations
    res.discharged += part.discharged
    res.evaluations += part.obligations
    res.nontrivial += part.obligations
    for f in part.findings:
        f.prop = PROP
        f.rule = 'C11.every-time'
        res.add(f)


def _rest(cx, res):
    for part in (limits, normalisation, singular, ahead, every_time):
        _timed(part)(cx, res)


def run(model, tier):
    res = Result(PROP)
    res.explanation = (
        'Identities between the closed forms of the Sedov solver, for symbolic geometry, gamma, omega (module docstring of '
        'sa/rules/c11.py): dlamdv is the derivative of lambda(v); the parametric field (r2 lambda, rho2 g, u2 f, p2 h) satisfies the '
        'Euler equations in geometry j; r2^j rho2 u2^2 and r2^j p2 are independent of t; the integrands efun01 / efun02 are the '
        'kinetic and internal energy of a shell in the scaling alpha uses; alpha combines the two integrals with the volume element '
        'of the geometry on every constructor branch; the shock radius inverts alpha rho0 r2^(j+2-omega)/t^2 = eblast; the similarity '
        'functions are 1 at the upper limit v2 and a clamped base vanishes at each lower limit; the explicit singular profile '
        'satisfies the Euler equations and its closed-form energy and mass integrals are eblast and the initial mass; ahead of the '
        'shock the stored state is the initial state. With the jump conditions at the shock (C02) these imply that the energy behind '
        'the shock is eblast and the mass behind it is the initial mass inside r2, at every time, up to the accuracy of quad / '
        'fminbound / interp1d, which is not decided.')
    res.rule_text = 'instance = one identity between closed forms'
    res.trusted_base = ['CPython ast', 'sympy expand / factor_list / solve (linear)', 'value-graph builder',
                        'change of variables r = r2 lambda(v) in the energy integral; Reynolds transport theorem']
    import os, time
    _LAST[0] = time.time()
    cx = Ctx(model)
    only = os.environ.get('C11_ONLY')
    tasks = [('standard', _std_part, (cx, ('misc',))), ('standard', _std_part, (cx, ('mass',))),
             ('standard', _std_part, (cx, ('momentum',))), ('standard', _std_part, (cx, ('energy',))),
             ('special', _timed(special), (cx,)), ('limits', _rest, (cx,))]
    if tier == 'thorough':
        # the identities again with the bases of the real powers oriented at other points of the parameter domain (other
        # sign regions: a vacuum-type cylindrical case, a planar case with a steep density profile)
        for smp in ({'param:geometry': sp.Integer(2), 'param:gamma': sp.Rational(5, 3), 'param:omega': sp.Rational(17, 10),
                     V: sp.Rational(7, 10)},
                    {'param:geometry': sp.Integer(1), 'param:gamma': sp.Rational(6, 5), 'param:omega': sp.Rational(1, 2),
                     V: sp.Rational(7, 10)}):
            cxs = Ctx(model, sample_override=smp)
            v2n = cxs.ev().R.ratval(cxs.h['v2']).as_expr().subs({sp.Symbol(k.split(':')[1]): v for k, v in smp.items() if k.startswith('param:')})
            v0n = cxs.ev().R.ratval(cxs.h['v0']).as_expr().subs({sp.Symbol(k.split(':')[1]): v for k, v in smp.items() if k.startswith('param:')})
            vvn = cxs.ev().R.ratval(cxs.h['vv']).as_expr().subs({sp.Symbol(k.split(':')[1]): v for k, v in smp.items() if k.startswith('param:')})
            vsn = cxs.ev().R.ratval(cxs.h['vstar']).as_expr().subs({sp.Symbol(k.split(':')[1]): v for k, v in smp.items() if k.startswith('param:')})
            cxs.sample_override[V] = sp.nsimplify((v0n + v2n) / 2 if v2n < vsn else (v2n + vvn) / 2)
            for part in (('misc',), ('mass',), ('momentum',), ('energy',)):
                tasks.append(('standard', _std_part, (cxs, part)))
    if only:
        tasks = [t for t in tasks if t[0] in only.split(',')]
    run_parallel([(fn, args) for _, fn, args in tasks], res)
    res.analysed.append(CLS)
    if res.obligations < 50 and not only:
        raise AnalysisError('only %d identities analysed (confirmed: 58)' % res.obligations)
    return res
