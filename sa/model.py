"""E0 -- resolved program model of <repo>/exactpack (DESIGN 2.1).

Parses every module except tests/ and examples/, resolves imports, builds the
class table (C3 MRO), the function table and helpers for constant folding of
class-level `parameters` dictionaries.  Nothing is imported or executed.
"""
import ast
import os
from collections import OrderedDict


class AnalysisError(Exception):
    """The analysis itself cannot proceed (exit 2), never a verdict."""


EXCLUDE_DIRS = {'tests', 'examples', '__pycache__'}


class FuncInfo:
    def __init__(self, name, node, module, cls=None, parent=None):
        self.name = name
        self.node = node
        self.module = module
        self.cls = cls
        self.parent = parent

    @property
    def qualname(self):
        if self.cls is not None:
            return '%s.%s' % (self.cls.name, self.name)
        if self.parent is not None:
            return '%s.<locals>.%s' % (self.parent.qualname, self.name)
        return self.name

    @property
    def fullname(self):
        return '%s:%s' % (self.module.name, self.qualname)

    def __repr__(self):
        return '<Func %s>' % self.fullname


class ClassInfo:
    def __init__(self, name, node, module):
        self.name = name
        self.node = node
        self.module = module
        self.bases = []          # ClassInfo or str (external dotted name)
        self.mro = None
        self.methods = OrderedDict()
        self.attrs = OrderedDict()   # name -> list of value ast nodes, in order
        for st in node.body:
            if isinstance(st, (ast.FunctionDef,)):
                self.methods[st.name] = FuncInfo(st.name, st, module, cls=self)
            elif isinstance(st, ast.Assign):
                for tg in st.targets:
                    if isinstance(tg, ast.Name):
                        self.attrs.setdefault(tg.id, []).append(st.value)
                    elif isinstance(tg, ast.Tuple) and isinstance(st.value, ast.Tuple) \
                            and len(tg.elts) == len(st.value.elts):
                        for a, b in zip(tg.elts, st.value.elts):
                            if isinstance(a, ast.Name):
                                self.attrs.setdefault(a.id, []).append(b)
            elif isinstance(st, ast.AnnAssign) and st.value is not None \
                    and isinstance(st.target, ast.Name):
                self.attrs.setdefault(st.target.id, []).append(st.value)

    @property
    def fullname(self):
        return '%s:%s' % (self.module.name, self.name)

    def __repr__(self):
        return '<Class %s>' % self.fullname

    # -- lookups through the MRO ------------------------------------------
    def find_method(self, name, after=None):
        """First definition of `name` in the MRO (optionally strictly after
        class `after`, for super())."""
        mro = self.mro
        if after is not None:
            idx = mro.index(after)
            mro = mro[idx + 1:]
        for c in mro:
            if isinstance(c, ClassInfo) and name in c.methods:
                return c.methods[name]
        return None

    def find_attr(self, name):
        """(owner class, last value node) of the class-level attribute."""
        for c in self.mro:
            if isinstance(c, ClassInfo) and name in c.attrs:
                return c, c.attrs[name][-1]
        return None, None

    def is_subclass_of(self, fullname_or_name):
        for c in self.mro:
            if isinstance(c, ClassInfo):
                if c.fullname == fullname_or_name or c.name == fullname_or_name:
                    return True
            elif c == fullname_or_name:
                return True
        return False


class ModuleInfo:
    def __init__(self, name, path, relpath, src, tree, is_pkg):
        self.name = name
        self.path = path
        self.relpath = relpath
        self.src = src
        self.tree = tree
        self.is_pkg = is_pkg
        self.bindings = OrderedDict()   # name -> tuple
        self.star_imports = []
        self.functions = OrderedDict()
        self.classes = OrderedDict()
        self.global_assigns = OrderedDict()  # name -> list of value nodes

    @property
    def package(self):
        return self.name if self.is_pkg else self.name.rpartition('.')[0]

    def __repr__(self):
        return '<Module %s>' % self.name


def _abs_module(mod, level, target):
    """Absolute module name of a (possibly relative) import."""
    if level == 0:
        return target
    base = mod.package.split('.')
    if level > 1:
        base = base[:-(level - 1)]
    if target:
        base = base + target.split('.')
    return '.'.join(base)


class Model:
    def __init__(self, repo='/repo', package='exactpack'):
        self.repo = os.path.abspath(repo)
        self.package = package
        self.modules = OrderedDict()
        self.parse_errors = []
        self._load()
        for m in self.modules.values():
            self._bind(m)
        self._link_classes()

    # ------------------------------------------------------------------
    def _load(self):
        root = os.path.join(self.repo, self.package)
        if not os.path.isdir(root):
            raise AnalysisError('package directory not found: %s' % root)
        for dirpath, dirnames, filenames in os.walk(root):
            dirnames[:] = sorted(d for d in dirnames if d not in EXCLUDE_DIRS)
            for fn in sorted(filenames):
                if not fn.endswith('.py'):
                    continue
                path = os.path.join(dirpath, fn)
                rel = os.path.relpath(path, self.repo)
                parts = rel[:-3].split(os.sep)
                is_pkg = parts[-1] == '__init__'
                if is_pkg:
                    parts = parts[:-1]
                name = '.'.join(parts)
                with open(path, encoding='utf-8') as f:
                    src = f.read()
                try:
                    tree = ast.parse(src, filename=path)
                except SyntaxError as e:
                    self.parse_errors.append((rel, str(e)))
                    continue
                self.modules[name] = ModuleInfo(name, path, rel, src, tree, is_pkg)
        if self.parse_errors:
            raise AnalysisError('parse errors: %r' % self.parse_errors)

    # ------------------------------------------------------------------
    def _bind_import(self, m, st, into):
        if isinstance(st, ast.Import):
            for al in st.names:
                full = al.name
                # Python-2 style implicit sibling import used in radshocks
                sib = m.package + '.' + full
                if full not in self.modules and sib in self.modules:
                    full = sib
                if al.asname:
                    if full in self.modules:
                        into[al.asname] = ('module', full)
                    else:
                        into[al.asname] = ('ext', full)
                else:
                    top = al.name.split('.')[0]
                    if full in self.modules and '.' not in al.name:
                        into[top] = ('module', full)
                    elif top == self.package:
                        into[top] = ('module', top)
                    else:
                        into[top] = ('ext', top)
        elif isinstance(st, ast.ImportFrom):
            modname = _abs_module(m, st.level, st.module)
            for al in st.names:
                if al.name == '*':
                    if modname in self.modules:
                        m.star_imports.append(modname)
                    continue
                local = al.asname or al.name
                sub = modname + '.' + al.name
                if sub in self.modules:
                    into[local] = ('module', sub)
                elif modname in self.modules:
                    into[local] = ('ref', modname, al.name)
                else:
                    into[local] = ('ext', sub)

    def _bind(self, m):
        for st in m.tree.body:
            if isinstance(st, (ast.Import, ast.ImportFrom)):
                self._bind_import(m, st, m.bindings)
            elif isinstance(st, ast.FunctionDef):
                fi = FuncInfo(st.name, st, m)
                m.functions[st.name] = fi
                m.bindings[st.name] = ('func', fi)
            elif isinstance(st, ast.ClassDef):
                ci = ClassInfo(st.name, st, m)
                m.classes[st.name] = ci
                m.bindings[st.name] = ('class', ci)
            elif isinstance(st, ast.Assign):
                for tg in st.targets:
                    if isinstance(tg, ast.Name):
                        m.global_assigns.setdefault(tg.id, []).append(st.value)
                        m.bindings[tg.id] = ('var', m, tg.id)
                    elif isinstance(tg, ast.Tuple):
                        for e in tg.elts:
                            if isinstance(e, ast.Name):
                                m.global_assigns.setdefault(e.id, []).append(None)
                                m.bindings[e.id] = ('var', m, e.id)
            elif isinstance(st, (ast.If, ast.Try)):
                # conditional imports / definitions at module level
                for sub in ast.walk(st):
                    if isinstance(sub, (ast.Import, ast.ImportFrom)):
                        self._bind_import(m, sub, m.bindings)

    # ------------------------------------------------------------------
    def resolve(self, m, name, _depth=0):
        """Resolve a global name of module `m`.
        -> ('func', FuncInfo) | ('class', ClassInfo) | ('module', name)
           | ('ext', dotted) | ('var', ModuleInfo, name) | None"""
        if _depth > 20:
            return None
        b = m.bindings.get(name)
        if b is None:
            for sm in m.star_imports:
                r = self.resolve(self.modules[sm], name, _depth + 1)
                if r is not None:
                    return r
            return None
        if b[0] == 'ref':
            tm = self.modules.get(b[1])
            if tm is None:
                return ('ext', b[1] + '.' + b[2])
            r = self.resolve(tm, b[2], _depth + 1)
            if r is None:
                sub = b[1] + '.' + b[2]
                if sub in self.modules:
                    return ('module', sub)
            return r
        return b

    def resolve_dotted(self, m, node, local_imports=None):
        """Resolve Name / Attribute chains to a program entity or external
        dotted name.  Returns same tuples as resolve() or None."""
        if isinstance(node, ast.Name):
            if local_imports and node.id in local_imports:
                return local_imports[node.id]
            return self.resolve(m, node.id)
        if isinstance(node, ast.Attribute):
            base = self.resolve_dotted(m, node.value, local_imports)
            if base is None:
                return None
            if base[0] == 'ext':
                return ('ext', base[1] + '.' + node.attr)
            if base[0] == 'module':
                sub = base[1] + '.' + node.attr
                if sub in self.modules:
                    tm = self.modules[base[1]]
                    r = self.resolve(tm, node.attr)
                    if r is not None and r[0] != 'module':
                        return r
                    return ('module', sub)
                tm = self.modules.get(base[1])
                if tm is None:
                    return None
                return self.resolve(tm, node.attr)
            if base[0] == 'class':
                ci = base[1]
                f = ci.find_method(node.attr)
                if f is not None:
                    return ('func', f)
                owner, val = ci.find_attr(node.attr)
                if owner is not None:
                    return ('classattr', owner, node.attr)
            return None
        return None

    # ------------------------------------------------------------------
    def _link_classes(self):
        for m in self.modules.values():
            for ci in m.classes.values():
                for b in ci.node.bases:
                    r = self.resolve_dotted(m, b)
                    if r is not None and r[0] == 'class':
                        ci.bases.append(r[1])
                    elif r is not None and r[0] == 'ext':
                        ci.bases.append(r[1])
                    else:
                        try:
                            ci.bases.append(ast.unparse(b))
                        except Exception:
                            ci.bases.append('?')
        for m in self.modules.values():
            for ci in m.classes.values():
                self._mro(ci)

    def _mro(self, ci, _stack=()):
        if ci.mro is not None:
            return ci.mro
        if ci in _stack:
            raise AnalysisError('inheritance cycle at %s' % ci.fullname)
        seqs = []
        for b in ci.bases:
            if isinstance(b, ClassInfo):
                seqs.append(list(self._mro(b, _stack + (ci,))))
            else:
                seqs.append([b])
        seqs.append(list(ci.bases))
        res = [ci]
        seqs = [s for s in seqs if s]
        while seqs:
            for s in seqs:
                cand = s[0]
                if not any(cand in o[1:] for o in seqs):
                    break
            else:
                raise AnalysisError('inconsistent MRO for %s' % ci.fullname)
            res.append(cand)
            seqs = [[x for x in s if x is not cand and x != cand] for s in seqs]
            seqs = [s for s in seqs if s]
        ci.mro = res
        return res

    # ------------------------------------------------------------------
    def all_classes(self):
        for m in self.modules.values():
            for ci in m.classes.values():
                yield ci

    def all_functions(self):
        """Module-level functions, methods and nested defs."""
        for m in self.modules.values():
            for fi in m.functions.values():
                yield fi
            for ci in m.classes.values():
                for fi in ci.methods.values():
                    yield fi

    def solver_classes(self):
        out = []
        for ci in self.all_classes():
            if ci.name != 'ExactSolver' and ci.is_subclass_of('exactpack.base:ExactSolver'):
                out.append(ci)
        return out

    def get_class(self, fullname):
        modname, _, cname = fullname.partition(':')
        m = self.modules.get(modname)
        if m is None or cname not in m.classes:
            raise AnalysisError('anchor class vanished: %s' % fullname)
        return m.classes[cname]

    def get_func(self, fullname):
        modname, _, q = fullname.partition(':')
        m = self.modules.get(modname)
        if m is None:
            raise AnalysisError('anchor module vanished: %s' % modname)
        if '.' in q:
            cn, _, fn = q.partition('.')
            if cn in m.classes and fn in m.classes[cn].methods:
                return m.classes[cn].methods[fn]
        elif q in m.functions:
            return m.functions[q]
        raise AnalysisError('anchor function vanished: %s' % fullname)

    # ------------------------------------------------------------------
    def parameters_keys(self, ci):
        """Constant-fold the class-level `parameters` dict of `ci` (own or
        inherited) to an ordered list of keys; None if not foldable."""
        owner, val = ci.find_attr('parameters')
        if owner is None:
            return None
        keys = self._fold_dict_keys(owner, val)
        if keys is None:
            return None
        # class-body mutations: parameters.update({...}) / parameters[k] = ..
        for st in owner.node.body:
            if isinstance(st, ast.Expr) and isinstance(st.value, ast.Call):
                c = st.value
                if isinstance(c.func, ast.Attribute) and c.func.attr == 'update' \
                        and isinstance(c.func.value, ast.Name) and c.func.value.id == 'parameters':
                    if c.args:
                        more = self._fold_dict_keys(owner, c.args[0])
                        if more is None:
                            return None
                        keys += [k for k in more if k not in keys]
                    for kw in c.keywords:
                        if kw.arg and kw.arg not in keys:
                            keys.append(kw.arg)
        return keys

    def _fold_dict_keys(self, owner, val):
        m = owner.module
        if isinstance(val, ast.Dict):
            keys = []
            for k, v in zip(val.keys, val.values):
                if k is None:      # {**other}
                    sub = self._fold_dict_keys(owner, v)
                    if sub is None:
                        return None
                    keys += [x for x in sub if x not in keys]
                elif isinstance(k, ast.Constant) and isinstance(k.value, str):
                    if k.value not in keys:
                        keys.append(k.value)
                else:
                    return None
            return keys
        if isinstance(val, ast.Call):
            fn = val.func
            if isinstance(fn, ast.Name) and fn.id == 'dict':
                keys = []
                for a in val.args:
                    sub = self._fold_dict_keys(owner, a)
                    if sub is None:
                        return None
                    keys += [x for x in sub if x not in keys]
                for kw in val.keywords:
                    if kw.arg is None:
                        sub = self._fold_dict_keys(owner, kw.value)
                        if sub is None:
                            return None
                        keys += [x for x in sub if x not in keys]
                    elif kw.arg not in keys:
                        keys.append(kw.arg)
                return keys
            # dict(zip(names, helps))
            if isinstance(fn, ast.Name) and fn.id == 'zip' and val.args:
                a0 = val.args[0]
                if isinstance(a0, (ast.List, ast.Tuple)):
                    ks = []
                    for e in a0.elts:
                        if isinstance(e, ast.Constant) and isinstance(e.value, str):
                            ks.append(e.value)
                        else:
                            return None
                    return ks
                if isinstance(a0, ast.Name):
                    # a class-body or module-level list of names
                    src = None
                    if a0.id in owner.attrs:
                        src = owner.attrs[a0.id][-1]
                    elif a0.id in m.global_assigns:
                        src = m.global_assigns[a0.id][-1]
                    if isinstance(src, (ast.List, ast.Tuple)):
                        ks = []
                        for e in src.elts:
                            if isinstance(e, ast.Constant) and isinstance(e.value, str):
                                ks.append(e.value)
                            else:
                                return None
                        return ks
                return None
            # Base.parameters.copy()
            if isinstance(fn, ast.Attribute) and fn.attr == 'copy':
                return self._fold_dict_keys(owner, fn.value)
            return None
        if isinstance(val, ast.Attribute) and val.attr == 'parameters':
            r = self.resolve_dotted(m, val.value)
            if r is not None and r[0] == 'class':
                return list(self.parameters_keys(r[1]) or []) or None
            return None
        if isinstance(val, ast.Name):
            if val.id in owner.attrs and owner.attrs[val.id][-1] is not val:
                return self._fold_dict_keys(owner, owner.attrs[val.id][-1])
            if val.id in m.global_assigns and m.global_assigns[val.id][-1] is not None:
                return self._fold_dict_keys(owner, m.global_assigns[val.id][-1])
        if isinstance(val, ast.BinOp) and isinstance(val.op, ast.BitOr):
            a = self._fold_dict_keys(owner, val.left)
            b = self._fold_dict_keys(owner, val.right)
            if a is None or b is None:
                return None
            return a + [x for x in b if x not in a]
        return None


def src_of(node):
    try:
        return ast.unparse(node)
    except Exception:
        return '<%s>' % type(node).__name__


if __name__ == '__main__':
    import sys
    mdl = Model(sys.argv[1] if len(sys.argv) > 1 else '/repo')
    print(len(mdl.modules), 'modules')
    sc = mdl.solver_classes()
    print(len(sc), 'solver classes')
    for ci in sc:
        keys = mdl.parameters_keys(ci)
        print(ci.fullname, [c.name if isinstance(c, ClassInfo) else c for c in ci.mro][1:],
              keys, 'run' if '_run' in ci.methods else '')
