"""Command line: ./check <ID> quick|thorough [--repo DIR] [--replay FILE]."""
import importlib
import os
import sys
import time
import traceback

from .model import Model, AnalysisError
from . import report

MIN_MODULES = 90      # confirmed on the pinned tree: 95 modules parsed


def main(argv):
    sys.setrecursionlimit(50000)
    if not argv:
        print('usage: check <ID|all|selftest> quick|thorough [--repo DIR] [--replay FILE]')
        return 2
    prop = argv[0]
    tier = os.environ.get('VERIF_TIER') or 'quick'
    repo = '/repo'
    replay = None
    i = 1
    while i < len(argv):
        a = argv[i]
        if a in ('quick', 'thorough'):
            tier = a
        elif a == '--repo':
            i += 1
            repo = argv[i]
        elif a == '--replay':
            i += 1
            replay = argv[i]
        i += 1
    if prop == 'selftest':
        from .selftest import runner
        return runner.main(argv[1:])
    props = [prop]
    if prop == 'all':
        props = ['C01', 'C02', 'C03', 'C04', 'C05', 'C06', 'C07', 'C08', 'C09', 'C10', 'C11', 'C12', 'C13', 'C14', 'C15', 'C16',
                 'C17', 'C18', 'C19', 'C20']
    rc = 0
    for p in props:
        rc = max(rc, run_one(p, tier, repo, replay))
    return rc


def run_one(prop, tier, repo, replay=None):
    t0 = time.time()
    try:
        mod = importlib.import_module('.rules.%s' % prop.lower(), package='sa')
    except Exception as e:      # a broken checker is an analysis error, never a verdict
        traceback.print_exc()
        print('ANALYSIS-ERROR property=%s checker cannot be loaded: %s: %s' % (prop, type(e).__name__, e))
        return 2
    try:
        model = Model(repo)
        if len(model.modules) < MIN_MODULES:
            raise AnalysisError('only %d modules parsed under %s (expected >= %d)'
                                % (len(model.modules), repo, MIN_MODULES))
        result = mod.run(model, tier)
        if tier == 'thorough' and not os.environ.get('SA_NO_SELFTEST'):
            # deeper tier: also exercise the checker on its one-construct variants of the current tree
            # (scratch copies outside /repo and /verif, removed at once); advisory only
            try:
                from .selftest import runner
                os.environ['SA_NO_SELFTEST'] = '1'          # the variant runs use the quick tier anyway
                st = runner.for_property(prop, repo)
                result.extra['checker_selftest'] = st
                for x in st['not_as_expected']:
                    print('NOTE property=%s checker self-test variant not as expected: %s' % (prop, x))
            except Exception as e:
                result.extra['checker_selftest'] = {'error': '%s: %s' % (type(e).__name__, e)}
            finally:
                os.environ.pop('SA_NO_SELFTEST', None)
        if replay:
            print('replay of %s: the rule was re-run on the current tree; findings follow' % replay)
        return report.finish(result, tier, t0, level=getattr(mod, 'LEVEL', 'other'),
                             checker_cmd='./check %s %s' % (prop, tier))
    except AnalysisError as e:
        print('ANALYSIS-ERROR property=%s %s' % (prop, e))
        return 2
    except Exception as e:      # never let a traceback look like a violation
        traceback.print_exc()
        print('ANALYSIS-ERROR property=%s internal error %s: %s' % (prop, type(e).__name__, e))
        return 2


if __name__ == '__main__':
    sys.exit(main(sys.argv[1:]))
