"""Self-test of the checkers (DESIGN 6): one-construct mutants that must be reported and benign
variants that must stay silent, each applied to a scratch copy of <repo>/exactpack outside /repo and
/verif and removed immediately.  Advisory: never part of a property verdict.

  ./check selftest [--repo DIR] [--jobs N] [--only SUBSTR]
"""
import json
import os
import shutil
import subprocess
import sys
import tempfile
import time
from concurrent.futures import ThreadPoolExecutor

HERE = os.path.dirname(os.path.abspath(__file__))
VERIF = os.path.dirname(os.path.dirname(HERE))


def load_corpus():
    with open(os.path.join(HERE, 'corpus.json')) as f:
        entries = json.load(f)['entries']
    # seeded changes kept under /verif/seeded/<id>/patch.diff must be reported too
    sd = os.path.join(VERIF, 'seeded')
    if os.path.isdir(sd):
        for d in sorted(os.listdir(sd)):
            meta = os.path.join(sd, d, 'meta.json')
            patch = os.path.join(sd, d, 'patch.diff')
            if os.path.exists(meta) and os.path.exists(patch):
                m = json.load(open(meta))
                for prop in m.get('caught_by', []):
                    entries.append({'id': 'seed-%s-%s' % (d, prop), 'property': prop, 'patch': patch, 'expect': 'report',
                                    'note': 'seeded change %s' % d})
    return entries


def run_entry(e, repo):
    d = tempfile.mkdtemp(prefix='sa_selftest_')
    try:
        shutil.copytree(os.path.join(repo, 'exactpack'), os.path.join(d, 'exactpack'),
                        ignore=shutil.ignore_patterns('__pycache__', 'tests', 'examples'))
        if 'patch' in e:
            r = subprocess.run(['patch', '-p1', '-s', '-d', d, '-i', e['patch']], capture_output=True, text=True)
            if r.returncode != 0:
                return e, 'BROKEN', 'patch does not apply: ' + r.stdout[-200:] + r.stderr[-200:]
        else:
            p = os.path.join(d, e['file'])
            s = open(p).read()
            if s.count(e['old']) < 1:
                return e, 'BROKEN', 'pattern not found in %s' % e['file']
            s = s.replace(e['old'], e['new'], 1)
            try:
                compile(s, p, 'exec')
            except SyntaxError as ex:
                return e, 'BROKEN', 'variant does not compile: %s' % ex
            open(p, 'w').write(s)
        env = dict(os.environ, SA_EVIDENCE_DIR=os.path.join(d, 'ev'))
        r = subprocess.run([os.path.join(VERIF, 'check'), e['property'], 'quick', '--repo', d], capture_output=True,
                           text=True, env=env)
        new = [l for l in r.stdout.splitlines() if l.startswith('FINDING')]
        if r.returncode == 2:
            got = 'error'
        elif r.returncode == 1:
            got = 'report'
        else:
            got = 'silent'
        ok = got == e['expect'] or (e['expect'] == 'report' and got == 'error' and e.get('error_ok'))
        detail = (new[0][:200] if new else r.stdout.strip().splitlines()[-1][:200] if r.stdout.strip() else r.stderr[-200:])
        if ok and e['expect'] == 'report' and e.get('names') and not any(e['names'] in l for l in new):
            ok, detail = False, 'reported, but no finding names %r: %s' % (e['names'], detail)
        return e, 'ok' if ok else 'MISMATCH(%s)' % got, detail
    finally:
        shutil.rmtree(d, ignore_errors=True)


def for_property(prop, repo, jobs=16):
    """Thorough tier: how the checker of `prop` behaves on its one-construct variants of the CURRENT tree.
    Advisory (recorded in the evidence, printed as NOTE lines); never part of the verdict.  A variant whose
    pattern no longer exists on the tree is skipped."""
    entries = [e for e in load_corpus() if e['property'] == prop]
    with ThreadPoolExecutor(max_workers=jobs) as ex:
        results = list(ex.map(lambda e: run_entry(e, repo), entries))
    out = {'mutants': 0, 'mutants_reported': 0, 'benign': 0, 'benign_silent': 0, 'skipped': 0, 'not_as_expected': []}
    for e, status, detail in results:
        if status == 'BROKEN':
            out['skipped'] += 1
            continue
        kind = 'mutants' if e['expect'] == 'report' else 'benign'
        out[kind] += 1
        if status == 'ok':
            out['mutants_reported' if kind == 'mutants' else 'benign_silent'] += 1
        else:
            out['not_as_expected'].append('%s: %s' % (e['id'], status))
    return out


def main(argv):
    repo = '/repo'
    jobs = 16
    only = None
    i = 0
    while i < len(argv):
        if argv[i] == '--repo':
            i += 1
            repo = argv[i]
        elif argv[i] == '--jobs':
            i += 1
            jobs = int(argv[i])
        elif argv[i] == '--only':
            i += 1
            only = argv[i]
        i += 1
    entries = load_corpus()
    if only:
        entries = [e for e in entries if only in e['id'] or only == e['property']]
    t0 = time.time()
    with ThreadPoolExecutor(max_workers=jobs) as ex:
        results = list(ex.map(lambda e: run_entry(e, repo), entries))
    bad = 0
    tally = {}
    for e, status, detail in results:
        k = (e['property'], e['expect'])
        tally.setdefault(k, [0, 0])
        tally[k][1] += 1
        if status == 'ok':
            tally[k][0] += 1
        else:
            bad += 1
            print('%-38s %-8s expect=%-6s %s :: %s' % (e['id'], e['property'], e['expect'], status, detail))
    for (p, exp), (a, b) in sorted(tally.items()):
        print('%s %-7s %d/%d' % (p, 'mutants' if exp == 'report' else 'benign', a, b))
    print('selftest: %d variants, %d not as expected, %.0fs' % (len(results), bad, time.time() - t0))
    summary = {'%s_%s' % (p, 'mutants_reported' if exp == 'report' else 'benign_silent'): '%d/%d' % (a, b)
               for (p, exp), (a, b) in sorted(tally.items())}
    with open(os.path.join(VERIF, 'selftest_last.json'), 'w') as f:
        json.dump({'variants': len(results), 'not_as_expected': bad, 'summary': summary}, f, indent=1)
    return 0 if bad == 0 else 1


if __name__ == '__main__':
    sys.exit(main(sys.argv[1:]))
