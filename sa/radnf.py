"""Radical normal form: a zero test for expressions built from rational functions
and square (or other rational-exponent) roots of rational functions.

Used for the Rankine-Hugoniot identities (C02), where wave speeds are square roots
and the identities hold only after  sqrt(X)*sqrt(Y) = sqrt(XY)  style rewriting
that neither the monomial nor the rational normal form performs.

Method (exact, no heuristics, nothing is evaluated):
  1. every power  B**(p/q)  with q > 1 is rewritten bottom-up: B is brought to one
     fraction, numerator and denominator are factored into irreducible polynomials
     over Q (sympy.factor_list), each non-symbol irreducible factor f gets ONE
     generator  s_f  standing for  f**(1/q)  (sign-canonical: f has a positive
     leading coefficient; a negative content makes a different generator for -f);
  2. the expression is then a rational function of the original symbols and the
     generators; its numerator polynomial is reduced with  s_f**q -> f ;
  3. it is zero iff the reduced numerator expands to the zero polynomial.
Soundness: if the reduced numerator is the zero polynomial the expression is 0 for
every real assignment for which the radicals are defined (s_f is any q-th root).
Completeness holds when the radicands' irreducible factors are distinct (the
generators are then algebraically independent square roots), which is all that is
needed here; an undecided identity is reported as not proven, never as proven.
All symbols are taken to be positive reals (densities, pressures, gamma-1 > 0 is
expressed by the caller through a substitution gamma = 1 + gm1)."""
import sympy as sp


class Unsupported(Exception):
    pass


class RadNF:
    def __init__(self, units=(), positive=()):
        self.gens = {}        # (poly expr, q) -> generator symbol
        self.defs = {}        # generator -> (poly expr, q)
        # polynomials the caller knows to be positive on the domain (e.g. ps - p0 for a compression):
        # an irreducible factor that is the negative of one of them is re-oriented before roots are taken
        self.positive = {sp.srepr(sp.expand(x)) for x in positive}
        self.orient = None    # optional callable: polynomial factor -> -1 if negative on the domain
        for s in units:       # sign symbols: s**2 == 1
            self.defs[s] = (sp.Integer(1), 2)

    def gen(self, f, q):
        key = (sp.srepr(f), q)
        if key not in self.gens:
            s = sp.Symbol('s%d_%d' % (len(self.gens), q), positive=True)
            self.gens[key] = s
            self.defs[s] = (f, q)
        return self.gens[key]

    def _root(self, base, e):
        """base**e with e = p/q, q > 1, base free of fractional powers."""
        p, q = e.p, e.q
        base = sp.together(base)
        num, den = sp.fraction(base)
        content = sp.Integer(1)
        factors = []                     # (irreducible factor or symbol, signed multiplicity)
        for poly, sign in ((num, 1), (den, -1)):
            poly = sp.expand(poly)
            if poly == 1:
                continue
            if poly.is_number:
                content *= poly ** sign
                continue
            c, fl = sp.factor_list(poly)
            content *= c ** sign
            for f, m in fl:
                if not f.is_Symbol:
                    f = sp.expand(f)
                    if sp.srepr(sp.expand(-f)) in self.positive or (self.orient is not None and self.orient(f) < 0):
                        f = sp.expand(-f)
                        content *= (-1) ** m
                factors.append((f, sign * m))
        # the sign of the WHOLE radicand: factor_list orients every factor canonically and leaves the sign
        # in the content; only an overall negative sign has to be moved into a factor
        if content.is_number and content < 0 and self.orient is not None:
            raise Unsupported('root of a quantity that is negative on the declared domain')
        if content.is_number and content < 0:
            if q % 2 == 1:
                raise Unsupported('odd root of a negative content')
            for i, (f, m) in enumerate(factors):
                if m % 2 != 0 and not f.is_Symbol:
                    factors[i] = (sp.expand(-f), m)
                    content = -content
                    break
            else:
                raise Unsupported('root of a negative quantity')
        out = content ** e if content != 1 else sp.Integer(1)
        for f, m in factors:
            if f.is_Symbol:
                out *= f ** (m * e)
            else:
                out *= self.gen(f, q) ** (m * p)
        return out

    def rewrite(self, expr):
        def is_root(x):
            return x.is_Pow and x.exp.is_Rational and not x.exp.is_Integer

        def go(x):
            if not x.args:
                return x
            args = [go(a) for a in x.args]
            y = x.func(*args) if args != list(x.args) else x
            if is_root(y):
                return self._root(y.base, y.exp)
            return y
        return go(sp.sympify(expr))

    def reduce(self, poly_expr):
        """Reduce powers of the generators: s**q -> f (repeat until stable; defs may nest)."""
        cur = sp.expand(poly_expr)
        for _ in range(8):
            changed = False
            for s, (f, q) in list(self.defs.items()):
                if not cur.has(s):
                    continue
                P = sp.Poly(cur, s)
                if P.degree() < q:
                    continue
                new = sp.Integer(0)
                for (k,), c in P.terms():
                    new += c * f ** (k // q) * s ** (k % q)
                new = sp.expand(new)
                if new != cur:
                    cur = new
                    changed = True
            if not changed:
                break
        return cur

    def is_zero(self, expr):
        from .ratnf import refuted
        if not self.defs and refuted(expr):
            return False
        e = self.rewrite(expr)
        e = sp.together(e)
        num, den = sp.fraction(e)
        # negative powers of generators in the numerator (from s**(-k)) are moved by together()
        num = self.reduce(num)
        return sp.expand(num) == 0


def is_zero(expr):
    return RadNF().is_zero(expr)


if __name__ == '__main__':
    g, p, r, px, u = sp.symbols('g p r px u', positive=True)
    gm1 = sp.Symbol('gm1', positive=True)
    G = 1 + gm1
    A = 2 / (G + 1) / r
    B = (G - 1) / (G + 1) * p
    a = sp.sqrt(G * p / r)
    ux = u + (px - p) * sp.sqrt(A / (px + B))
    S = u + a * sp.sqrt((G + 1) * px / 2 / G / p + (G - 1) / 2 / G)
    rx = r * (p * (G - 1) + px * (G + 1)) / (px * (G - 1) + p * (G + 1))
    mass = rx * (ux - S) - r * (u - S)
    mom = px + rx * (ux - S) ** 2 - p - r * (u - S) ** 2
    ex, e0 = px / (G - 1) / rx, p / (G - 1) / r
    en = ex + px / rx + (ux - S) ** 2 / 2 - e0 - p / r - (u - S) ** 2 / 2
    print(is_zero(mass), is_zero(mom), is_zero(en))
    print(is_zero(mass + 1), is_zero(sp.sqrt(p + r) ** 2 - p - r), is_zero(sp.sqrt(p) * sp.sqrt(p + r) - sp.sqrt(p * p + p * r)))
