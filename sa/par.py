"""Run independent parts of one check in forked worker processes (the workers inherit the parent's program model
and value graphs; each returns a partial Result that is merged in task order, so the report is deterministic)."""
import multiprocessing
import os
import traceback

from .model import AnalysisError
from .report import Result

_TASKS = {}


def _run(i):
    fn, args = _TASKS[i]
    res = Result('part')
    try:
        fn(*args, res)
        return ('ok', res)
    except AnalysisError as e:
        return ('analysis', str(e))
    except Exception:
        return ('error', traceback.format_exc())


def run_parallel(tasks, res, jobs=None):
    """tasks: [(fn, args)] with fn(*args, partial_result).  Falls back to in-process execution for one job."""
    global _TASKS
    jobs = int(os.environ.get('SA_JOBS') or jobs or min(len(tasks), os.cpu_count() or 4))
    _TASKS = dict(enumerate(tasks))
    if jobs <= 1 or len(tasks) <= 1:
        outs = [_run(i) for i in range(len(tasks))]
    else:
        ctx = multiprocessing.get_context('fork')
        with ctx.Pool(min(len(tasks), jobs)) as pool:
            outs = pool.map(_run, range(len(tasks)), chunksize=1)
    for kind, val in outs:
        if kind == 'analysis':
            raise AnalysisError(val)
        if kind == 'error':
            raise RuntimeError('worker failed:\n' + val)
    for kind, part in outs:
        res.obligations += part.obligations
        res.discharged += part.discharged
        res.evaluations += part.evaluations
        res.nontrivial += part.nontrivial
        for f in part.findings:
            res.add(f)
        for s in part.samples:
            res.sample(s, limit=80)
        for k, v in part.extra.items():
            if isinstance(v, dict):
                res.extra.setdefault(k, {}).update(v)
            elif isinstance(v, list):
                res.extra.setdefault(k, []).extend(v)
            else:
                res.extra[k] = v
        res.notes.extend(part.notes)
