"""D_pw -- point-wise shape analysis (batch clause of C06; DESIGN 2.4, 3 C06(b)).

How does a returned array depend on the request?  Each value-graph node gets
one of
  C   independent of the points
  S   depends on the points only through their number / shape
  I   the loop index over the points (for i in range(len(r)), enumerate(r))
  P   a scalar that is a function of ONE point: the point of the current index
  E   an array aligned with the points whose element i depends only on point i
  G   an internal grid that contains the query points (append(.., points); sort)
      and arrays that are element-wise functions of that grid
  B   batch: depends on a reduction / ordering / endpoint / neighbour of the points
  T   unknown construct (no verdict; counted)
A returned non-position field must be C, E or "interp(points, G, G)" (exact at
grid nodes); B is a violation unless the solver is one of those the property
names as documented grid-dependent.
"""
from .model import AnalysisError
from .report import Finding
from .vg import Builder, walk
from .rules.c05 import phi_leaves, POS_RE

PROP = 'C06'
C, S, I, P, E, G, B, T = 'C', 'S', 'I', 'P', 'E', 'G', 'B', 'T'

ELEMENTWISE = {
    'numpy.where', 'numpy.sqrt', 'numpy.exp', 'numpy.log', 'numpy.log10', 'numpy.sin', 'numpy.cos', 'numpy.tan',
    'numpy.arcsin', 'numpy.arccos', 'numpy.arctan', 'numpy.arctan2', 'numpy.sinh', 'numpy.cosh', 'numpy.tanh',
    'numpy.abs', 'builtins.abs', 'numpy.sign', 'numpy.square', 'numpy.power', 'builtins.pow', 'math.sqrt', 'math.exp',
    'math.log', 'math.sin', 'math.cos', 'math.pow', 'numpy.maximum', 'numpy.minimum', 'numpy.greater', 'numpy.less',
    'numpy.greater_equal', 'numpy.less_equal', 'numpy.logical_and', 'numpy.logical_or', 'numpy.logical_not',
    'numpy.isnan', 'numpy.isfinite', 'numpy.isclose', 'numpy.float64', 'builtins.float', 'numpy.asarray', 'numpy.array',
    'numpy.copy', 'numpy.ones_like', 'numpy.zeros_like', 'numpy.empty_like', 'numpy.full_like', 'numpy.hypot',
    'scipy.special.i0', 'scipy.special.jn', 'scipy.special.yn', 'numpy.nan_to_num', 'numpy.real', 'numpy.clip',
    'builtins.max', 'builtins.min', 'math.hypot', 'numpy.heaviside', 'numpy.multiply', 'numpy.divide', 'numpy.add',
    'numpy.subtract', 'builtins.int', 'builtins.bool', 'builtins.round', 'numpy.round', 'math.acos', 'math.asin',
    'math.atan', 'math.atan2', 'numpy.arcsinh', 'math.erf', 'math.floor', 'numpy.floor', 'numpy.ceil',
    'numpy.atleast_1d', 'builtins.tuple', 'builtins.list', 'math.isnan', 'math.log10', 'builtins.complex',
    'builtins.isinstance', 'numpy.iscomplex', 'numpy.isreal', 'numpy.dot', 'numpy.linalg.norm',
}
# reductions / order-dependent operations over their first argument
REDUCTIONS = {
    'numpy.max', 'numpy.min', 'numpy.amax', 'numpy.amin', 'numpy.sum', 'numpy.mean', 'numpy.sort', 'numpy.cumsum',
    'numpy.argmin', 'numpy.argmax', 'numpy.argsort', 'numpy.diff', 'numpy.unique', 'numpy.flip', 'numpy.median',
    'builtins.sum', 'builtins.sorted', 'builtins.reversed', 'numpy.any', 'numpy.all', 'builtins.any', 'builtins.all',
    'numpy.cumprod', 'numpy.prod', 'numpy.gradient', 'numpy.trapz', 'numpy.nanmax', 'numpy.nanmin', 'numpy.ptp',
    'numpy.std', 'numpy.var', 'numpy.searchsorted', 'numpy.count_nonzero', 'numpy.nonzero', 'numpy.roll',
}
SHAPE_FUNCS = {'builtins.len', 'numpy.shape', 'numpy.size', 'numpy.ndim'}
ALLOC = {'numpy.zeros', 'numpy.ones', 'numpy.empty', 'numpy.full'}
INITIAL_GUESS = {'scipy.optimize.fsolve': 1, 'scipy.optimize.newton': 1}   # position of the starting point

ORDER = {C: 0, S: 1, I: 2, P: 3, E: 4, G: 5, B: 6, T: 7}


def join(*xs):
    xs = [x for x in xs if x is not None]
    if not xs:
        return C
    if T in xs:
        return T
    if B in xs:
        return B
    s = set(xs)
    if G in s:
        # grid arrays combine with constants / shapes only
        return G if s <= {G, C, S} else B
    if E in s and (P in s or I in s):
        return B          # mixing a whole-array value with a per-index scalar
    return max(s, key=lambda x: ORDER[x])


class PwEval:
    def __init__(self, root):
        self.root = root
        self.memo = {}
        self.why = {}          # nid -> reason for B
        self.top = {}
        self.guess_ignored = []
        self.row_layout = False     # (d, N) point layout (known C05 findings): points[j] is a coordinate row
        self.view_mutated = set()
        self.loop_vars = {}     # id(iter ast) -> index / element nodes of that loop

    def cls(self, n):
        if n is None:
            return C
        if n.nid in self.memo:
            return self.memo[n.nid]
        self.memo[n.nid] = C if n.kind != 'mu' else None
        r = self._cls(n)
        self.memo[n.nid] = r
        return r

    def batch(self, n, why):
        self.why[n.nid] = why
        return B

    def unknown(self, n, why):
        self.top[why] = self.top.get(why, 0) + 1
        return T

    def _cls(self, n):
        k = n.kind
        if n is self.root:
            return E
        if n.nid in self.view_mutated:
            return self.unknown(n, 'array mutated in place through a row/element view (aliasing not modelled)')
        if n.nid < self.root.nid:
            return C          # created before the request existed (constructor, class body): cannot depend on it
        if k in ('const', 'param', 'input', 'extfunc', 'closure', 'obj', 'module', 'class', 'undef', 'kwargs', 'hoarg'):
            return C
        if k == 'unknown':
            # a leaf: carries no dependence on the points unless it stands for a cut-off computation
            if str(n.val).startswith(('recursion/depth', 'expr ')):
                return self.unknown(n, 'unknown:' + str(n.val)[:30])
            return C
        if k in ('binop', 'unop', 'cmp', 'bool', 'tuple', 'list', 'arrayof', 'slice', 'starred'):
            return self.up(n, join(*[self.cls(a) for a in n.args]))
        if k == 'dict':
            return join(*[self.cls(a) for a in n.args])
        if k == 'phi':
            c = self.cls(n.args[0])
            arms = join(self.cls(n.args[1]), self.cls(n.args[2]))
            if c in (T, B):
                return self.up(n, join(c, arms))
            if c in (P, I) and arms in (E, P, C, S, I):
                return arms if arms in (E, P) else P     # a per-point test selects per-point values / stores
            return self.up(n, join(c, arms))
        if k == 'index':
            a = join(*[self.cls(x) for x in n.args]) if n.args else C
            return I if a in (S, E, I) or not n.args else (C if a == C else a)
        if k == 'elem':
            a = self.cls(n.args[0])
            if a == E:
                return P
            if a == G:
                return self.batch(n, 'iteration over the internal grid')
            return a
        if k == 'attr':
            a = self.cls(n.args[0])
            if n.val in ('shape', 'size', 'ndim', 'dtype'):
                return S if a in (E, G, S) else a
            return a
        if k == 'sub':
            return self.sub(n)
        if k == 'store':
            return self.store(n)
        if k == 'mu':
            return self.mu(n)
        if k == 'call':
            return self.call(n)
        if k == 'mcall':
            return self.mcall(n)
        if k in ('attrstore',):
            return C
        if k == 'callunk':
            a = join(*[self.cls(x) for x in n.args])
            return C if a == C else self.unknown(n, 'unresolved call')
        if k == 'super':
            return C
        return self.unknown(n, 'kind:' + k)

    def up(self, n, c):
        if c == B and n.nid not in self.why:
            for a in n.args:
                if a is not None and a.nid in self.why:
                    self.why[n.nid] = self.why[a.nid]
                    break
        return c

    def sub(self, n):
        base, idx = n.args
        a, i = self.cls(base), self.cls(idx)
        if a == T or i == T:
            return T
        if a in (C, S):
            if i in (C, S):
                return a
            if i == I:
                if idx.kind != 'index' and not (idx.kind == 'tuple' and idx.args and idx.args[0].kind == 'index'):
                    return self.batch(n, 'element at an index computed from the loop index (neighbour access)')
                return C if a == C and not self.depends_on_root(base) else a
            return self.up(n, join(a, i))
        if a == E:
            if i == I:
                if idx.kind == 'index':
                    return P
                return self.batch(n, 'element at an index computed from the loop index (neighbour access)')
            if idx.kind == 'slice' and all(x.kind == 'const' and x.val is None for x in idx.args):
                return E
            if idx.kind == 'tuple':
                # column of an (N, d) array of points: p[:, j]
                if idx.args and idx.args[0].kind == 'slice' and all(x.kind == 'const' and x.val is None for x in idx.args[0].args) \
                        and all(self.cls(x) == C for x in idx.args[1:]):
                    return E
                if idx.args and idx.args[0].kind == 'index' and self.cls(idx.args[0]) == I \
                        and all(self.cls(x) in (C,) for x in idx.args[1:]):
                    return P
            if i == E:
                return E if self.is_mask(idx) else self.batch(n, 'fancy indexing of the points')
            if i == C and base is self.root and self.is_row(n) and self.row_layout:
                return E       # row of a (d, N) layout (known C05 finding): still element-wise
            return self.batch(n, 'element %s of the points / of a point-aligned array (endpoint or neighbour access)' % idx.short(1))
        if a == P:
            return P if i in (C, S) else self.up(n, join(a, i))
        if a == G:
            return self.batch(n, 'element of the internal grid') if i not in (E,) else G
        if a == B:
            return self.up(n, B)
        return join(a, i)

    def is_row(self, n):
        idx = n.args[1]
        return idx.kind == 'const' and isinstance(idx.val, int) and 0 <= idx.val <= 2

    def is_mask(self, idx):
        return idx.kind in ('cmp', 'bool', 'call', 'binop', 'unop')

    def depends_on_root(self, node):
        return any(m is self.root for m in walk(node))

    def store(self, n):
        base, idx, val = n.args
        a, i, v = self.cls(base), self.cls(idx), self.cls(val)
        if T in (a, i, v):
            return T
        if B in (a, i, v):
            return self.up(n, B)
        bare = idx.kind == 'index' or (idx.kind == 'tuple' and idx.args and idx.args[0].kind == 'index')
        if (i == I or (idx.kind == 'tuple' and idx.args and self.cls(idx.args[0]) == I)) and not bare:
            return self.batch(n, 'store at an index computed from the loop index')
        if i == I or (idx.kind == 'tuple' and idx.args and self.cls(idx.args[0]) == I):
            # out[i] = f(point i)
            if v in (C, S, P, I):
                return E if a in (C, S, E) else join(a, v)
            return self.batch(n, 'a whole-array value is stored at one point index')
        if idx.kind == 'slice' or i in (C, S):
            whole = idx.kind == 'slice' and all(x.kind == 'const' and x.val is None for x in idx.args)
            if whole or n.val in ('append', 'extend'):
                if n.val == 'append' and v == P:
                    return E       # list built point by point
                return join(a if a != C else S, v) if v in (E, G) else join(a, v)
            if v == C and a in (C, S):
                return a
            if v in (P, I) and a in (C, S, P):
                return P           # component of a per-point temporary vector (ODE state, ...)
            return join(a, v)
        if i == E:
            # masked store out[mask] = values
            return join(a, v, E) if self.is_mask(idx) else self.batch(n, 'fancy-index store')
        return join(a, i, v)

    def mu(self, n):
        before = set(self.memo)
        r = self._mu(n)
        prov = self.memo.get(n.nid)
        if r != prov and r in (B, T):
            # classes memoised while this mu still held its provisional class (that of its initial value) were
            # computed from the wrong input: e.g. `out[i] = v` where v = phi(.., v_previous) stayed P although the
            # carried value turned out to be batch-dependent.  Forget them; they are recomputed on demand.
            for k in set(self.memo) - before:
                if k != n.nid:
                    del self.memo[k]
        return r

    def _mu(self, n):
        init = self.cls(n.args[0]) if n.args[0] is not None else C
        self.memo[n.nid] = init
        if n.args[1] is None or n.args[1] is n:
            return init
        nxt = self.cls(n.args[1])
        if nxt == T or init == T:
            return T
        if nxt == B or init == B:
            return self.up(n, B)
        if nxt in (E, G):
            # array filled / built inside the loop: re-evaluate once with the final class
            if init != nxt:
                self.memo[n.nid] = nxt
            return nxt
        if nxt in (P, I) and init in (C, S, P, I):
            if not self.point_loop(n):
                return P        # an inner loop (over modes, polygon corners, ...) inside the work for one point
            # a scalar computed from the current point survives into the next iteration
            if self.carried_use(n):
                return self.batch(n, 'loop-carried scalar: the value computed at one point is used at the next point')
            return init
        return join(init, nxt)

    def point_loop(self, mu):
        """The loop that carries `mu` iterates over the points (its index / element is I / P)."""
        import ast as _ast
        st = mu.origin[1] if mu.origin else None
        if not isinstance(st, _ast.For):
            return True          # while loops: conservative
        ns = self.loop_vars.get(id(st.iter), [])
        if not ns:
            return True
        return any(self.cls(x) in (I, P, E) for x in ns)

    def carried_use(self, mu):
        """Is the loop-carried value read (other than by its own update chain)?  A variable that is
        merely reassigned in every iteration before being read (a temporary) is not carried."""
        # the builder creates a mu for every name assigned in the loop body; if the body reads the
        # name before assigning it, some node other than mu.next-chain has mu as an argument
        return bool(getattr(mu, '_readers', 0))

    def call(self, n):
        name = n.val
        acls = [self.cls(a) for a in n.args]
        kcls = [self.cls(a) for a in n.kw.values()]
        if name in SHAPE_FUNCS:
            a = acls[0] if acls else C
            return S if a in (E, G, S) else (a if a in (C, T) else S)
        if name in ALLOC:
            return join(S if join(*acls, *kcls) in (S, E) else join(*acls, *kcls), C)
        if name == 'builtins.range':
            return I if join(*acls) in (S, E, I) else join(*acls)
        if name in ('builtins.enumerate', 'builtins.zip'):
            return join(*acls)
        if name == 'exactpack.base.ExactSolution':
            return C
        if name in INITIAL_GUESS and n.ho is not None:
            pos = INITIAL_GUESS[name]
            rest = [c for j, c in enumerate(acls) if j != pos]
            if pos < len(acls) and acls[pos] not in (C,):
                self.guess_ignored.append(n)
            body = self.cls(n.ho['result']) if n.ho.get('result') is not None else C
            return self.up(n, join(body, *rest, *kcls))
        if n.ho is not None:
            body = self.cls(n.ho['result']) if n.ho.get('result') is not None else C
            return self.up(n, join(body, *acls, *kcls))
        if name in ('numpy.interp',) and len(n.args) >= 3:
            q, xp, fp = acls[:3]
            if xp == G and fp == G and q == E and n.args[0] is self.root:
                return E          # exact at grid nodes: the query points are grid nodes
            if xp in (C,) and fp in (C,):
                return q
            if G in (xp, fp):
                return self.batch(n, 'interpolation from an internal grid that is not known to contain the query points')
            return self.up(n, join(q, xp, fp))
        if name == 'interp1d.__call__':
            return self.up(n, join(*acls))
        if name in ('scipy.interpolate.interp1d', 'scipy.interpolate.interpolate.interp1d'):
            return self.up(n, join(*acls[:2]))
        if name in ('numpy.append', 'numpy.concatenate', 'numpy.hstack', 'numpy.vstack'):
            if E in acls or G in acls:
                if any(a is self.root for a in n.args) or G in acls:
                    return G if B not in acls and T not in acls else join(*acls)
                return self.batch(n, 'concatenation with a point-aligned array')
            return join(*acls)
        if name in ('numpy.linspace', 'numpy.arange', 'numpy.logspace'):
            return self.up(n, join(*acls, *kcls))
        if name in REDUCTIONS:
            a = acls[0] if acls else C
            ax = n.kw.get('axis') or (n.args[1] if len(n.args) > 1 and name not in ('numpy.searchsorted', 'numpy.roll') else None)
            if a == E and ax is not None and ax.kind == 'const' and ax.val == 1 and name in (
                    'numpy.sum', 'numpy.prod', 'numpy.max', 'numpy.min', 'numpy.amax', 'numpy.amin', 'numpy.mean',
                    'numpy.any', 'numpy.all'):
                return self.up(n, E)       # along the second axis: over the coordinates of each point, not over the points
            if a in (E, P, G):
                if a == G and name in ('numpy.sort',):
                    return G
                return self.batch(n, '%s over the points' % name.split('.')[-1])
            return self.up(n, join(*acls, *kcls))
        if name in ELEMENTWISE:
            # builtins max/min with a single array argument are reductions
            if name in ('builtins.max', 'builtins.min') and len(n.args) == 1 and acls[0] in (E, G):
                return self.batch(n, '%s over the points' % name.split('.')[-1])
            return self.up(n, join(*acls, *kcls))
        if all(c == C for c in acls + kcls):
            return C
        if B in acls + kcls:
            return self.up(n, B)
        return self.unknown(n, 'call:' + name)

    def mcall(self, n):
        recv = self.cls(n.args[0])
        acls = [self.cls(a) for a in n.args[1:]]
        name = n.val
        if name in ('copy', 'astype', 'flatten', 'ravel', 'reshape', 'squeeze', 'transpose', 'tolist', 'item', 'view'):
            return recv
        if name in ('max', 'min', 'sum', 'mean', 'argmin', 'argmax', 'cumsum', 'any', 'all', 'argsort', 'std', 'prod'):
            ax = n.kw.get('axis') or (n.args[1] if len(n.args) > 1 else None)
            if recv == E and ax is not None and ax.kind == 'const' and ax.val == 1 and name in (
                    'max', 'min', 'sum', 'mean', 'any', 'all', 'prod'):
                return self.up(n, E)       # over the coordinates of each point
            if recv in (E, G, P):
                return self.batch(n, '%s() over the points' % name)
            return recv
        if name == 'sort':
            return recv
        if name in ('keys', 'values', 'items', 'get', 'format', 'join', 'index', 'count', 'lower', 'upper', 'startswith'):
            return join(recv, *acls)
        if name in ('contains_point', 'dot'):
            return join(recv, *acls)
        if recv == C and all(c == C for c in acls):
            return C
        if B in [recv] + acls:
            return self.up(n, B)
        if recv in (C, P) and all(c in (C, P, S, I) for c in acls):
            return P           # a method applied to per-point scalars
        return self.unknown(n, 'method:' + name)


# solvers the property names as documented grid-dependent, and structured-mesh solvers
ALLOWED = {
    'exactpack.solvers.mader.timmes:Mader': "documented: values are cell averages over dx = (x[-1]-x[0])/N",
    'exactpack.solvers.sedov.sedov:Sedov': "documented: internal table on linspace(0, max(r), npts), interpolated back",
    'exactpack.solvers.sdrz.sdrz:SteadyDetonationReactionZone': "documented: internal time table interpolated to the points",
    'exactpack.solvers.dsd.ratestick:RateStick': "documented input is a structured xnodes x ynodes mesh in fixed order (checked by ValueError guards): subsets / permutations are not admissible requests",
    'exactpack.solvers.dsd.explosivearc:ExplosiveArc': "documented input is a structured xnodes x ynodes mesh in fixed order (checked by ValueError guards)",
}


ROW_LAYOUT = {'exactpack.solvers.heat.hutchens2:Hutchens2', 'exactpack.solvers.heat.rectangle:Rectangle',
              'exactpack.solvers.heat.cylindrical_sandwich:CylindricalSandwich'}


def check(model, res, tier):
    classes = [ci for ci in model.solver_classes() if '_run' in ci.methods]
    summary = {}
    unresolved = []
    for ci in classes:
        b = Builder(model)
        objn, ret = b.run_solver(ci)
        root = [n for n in b.trace if n.kind == 'input' and n.val == 'r'][0]
        readers = {}
        for n in b.trace:
            for a in list(n.args) + list(n.kw.values()):
                if a is not None and a.kind == 'mu' and a is not n:
                    readers.setdefault(a.nid, []).append(n)
        pe = PwEval(root)
        pe.view_mutated = b.view_mutated
        pe.row_layout = ci.fullname in ROW_LAYOUT
        for n in b.trace:
            if n.kind in ('index', 'elem') and n.origin and n.origin[1] is not None:
                pe.loop_vars.setdefault(id(n.origin[1]), []).append(n)

        def carried_use(mu, readers=readers):
            # readers other than the direct back-edge value
            rs = [x for x in readers.get(mu.nid, []) if x is not mu.args[1] or True]
            return len(rs) > 0
        pe.carried_use = carried_use
        # Enter every loop cycle at its mu: a cycle first entered at an inner node (the phi a store reads) would see
        # that node's provisional class and the mu would never see its real next value.  Loop-carried values found
        # batch-dependent (or unresolved) are kept and everything else is re-evaluated until no further one appears.
        mus = [n for n in b.trace if n.kind == 'mu']
        sticky = {}
        for _ in range(len(mus) + 1):
            pe.memo = dict(sticky)
            pe.top, pe.guess_ignored = {}, []
            for n in mus:
                pe.cls(n)
            new = {n.nid: pe.memo[n.nid] for n in mus if pe.memo.get(n.nid) in (B, T) and n.nid not in sticky}
            if not new:
                break
            sticky.update(new)
        runm = ci.find_method('_run')
        per = {}
        for sol in phi_leaves(ret):
            if not (sol.kind == 'call' and sol.val == 'exactpack.base.ExactSolution'):
                continue
            data = sol.args[0] if sol.args else sol.kw.get('data')
            names = sol.args[1] if len(sol.args) > 1 else sol.kw.get('names')
            if data is None or names is None or data.kind not in ('list', 'tuple') or names.kind not in ('list', 'tuple'):
                continue
            for a, d in zip(names.args, data.args):
                nm = str(a.val)
                if POS_RE.match(nm) or nm in ('radius', 'x_position', 'y_position', 'angle_theta'):
                    continue
                c = pe.cls(d)
                per[nm] = c
                res.obligations += 1
                if c in (C, E, S, P):
                    res.discharged += 1
                elif c == T:
                    unresolved.append('%s.%s' % (ci.name, nm))
                    res.discharged += 1      # no verdict is not a violation; counted separately
                elif c in (B, G):
                    if ci.fullname in ALLOWED:
                        res.discharged += 1
                        continue
                    why = pe.why.get(d.nid)
                    if why is None:
                        for m in walk(d):
                            if m.nid in pe.why:
                                why = pe.why[m.nid]
                                wn = m
                                break
                    wn = next((m for m in walk(d) if m.nid in pe.why), d)
                    f2, q2, line = wn.where
                    res.add(Finding(PROP, 'C06.batch', f2 if f2 != '?' else runm.module.relpath,
                                    q2 if q2 != '?' else runm.qualname,
                                    "%s: field '%s' depends on the batch (%s)" % (ci.name, nm, (why or 'grid').split(' (')[0]),
                                    "%s: the value returned in field '%s' at a point depends on the other points of the "
                                    "request: %s" % (ci.name, nm, why or 'it is read from an internal grid'),
                                    line=line, construct=wn.src[:100]))
        summary[ci.fullname] = {'fields': per, 'unknown_constructs': dict(pe.top),
                                'initial_guess_carried': len(pe.guess_ignored)}
    res.extra['pointwise_classes'] = summary
    res.extra['pointwise_unresolved_fields'] = unresolved
    res.extra['documented_grid_dependent'] = ALLOWED
