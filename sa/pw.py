"""D_pw -- point-wise shape analysis (batch clause of C06); placeholder until built."""


def check(model, res, tier):
    res.notes.append('batch clause (D_pw) not yet built')
