"""E2 -- value-graph builder (DESIGN 2.3).

A forward, flow-sensitive abstract interpreter over the resolved program
model that produces an SSA-like *value graph*: every expression evaluated on
any path becomes a node (constants, parameters, inputs, operators, library
calls, phi nodes at joins, mu nodes at loop heads, stores).  Repository
functions are inlined (the repo has no recursion); external library functions
stay as `call` nodes that the abstract domains interpret through signature
tables.  Nothing is executed: `if` runs both arms and joins, loops run their
body once against mu nodes.  The domains (dim, nf, sym, ...) are folds over
this graph.
"""
import ast
from .model import AnalysisError, ClassInfo, FuncInfo, src_of

MAX_DEPTH = 14


class Node:
    __slots__ = ('kind', 'val', 'args', 'kw', 'origin', 'nid', 'ho', 'op', 'owner')
    _count = 0

    def __init__(self, kind, val=None, args=(), kw=None, origin=None):
        self.kind = kind
        self.val = val
        self.args = list(args)
        self.kw = kw or {}
        self.origin = origin
        self.ho = None
        self.op = 0
        self.owner = None
        Node._count += 1
        self.nid = Node._count

    def __repr__(self):
        return 'N%d:%s(%s)' % (self.nid, self.kind, self.short())

    def short(self, depth=2):
        if self.kind in ('const',):
            return repr(self.val)
        if self.kind in ('param', 'input', 'unknown', 'extfunc', 'module'):
            return str(self.val)
        if depth <= 0:
            return '..'
        inner = ','.join(a.short(depth - 1) if isinstance(a, Node) else '?' for a in self.args[:4])
        if self.val is not None and self.kind in ('binop', 'unop', 'cmp', 'call', 'mcall', 'attr', 'bool'):
            return '%s:%s' % (self.val, inner)
        return inner

    @property
    def src(self):
        if self.origin is not None and self.origin[1] is not None:
            return src_of(self.origin[1])
        return self.short()

    @property
    def where(self):
        if self.origin is None:
            return ('?', '?', 0)
        fn, node = self.origin
        mod = fn.module.relpath if fn is not None else '?'
        q = fn.qualname if fn is not None else '?'
        return (mod, q, getattr(node, 'lineno', 0))


class Obj:
    """An instance of a repository class (abstract heap object)."""
    _count = 0

    def __init__(self, cls, param_keys=None, symbolic=False):
        Obj._count += 1
        self.oid = Obj._count
        self.cls = cls
        self.param_keys = param_keys or []
        self.symbolic = symbolic     # attributes named in param_keys are Param nodes
        self.ctor_args = None


class Frame:
    def __init__(self, func, module, locals_, self_obj=None, parent=None, cls=None):
        self.func = func
        self.module = module
        self.locals = locals_
        self.self_obj = self_obj
        self.parent = parent      # lexically enclosing frame (closures)
        self.cls = cls            # class in which the function is defined (for super())
        self.globals_decl = set()
        self.returns = []         # (conds tuple, node)
        self.conds = []           # active (cond node, polarity)
        self.loops = []
        self.local_imports = {}


class Closure:
    def __init__(self, func, node, frame, self_node=None, cls=None, module=None):
        self.func = func          # FuncInfo or None (lambda)
        self.node = node          # ast.FunctionDef / ast.Lambda
        self.frame = frame        # defining frame (None for module-level functions)
        self.self_node = self_node
        self.cls = cls
        self.module = module


BUILTINS = {'abs', 'min', 'max', 'sum', 'float', 'int', 'len', 'range', 'enumerate', 'zip',
            'print', 'isinstance', 'str', 'round', 'pow', 'list', 'tuple', 'sorted', 'reversed',
            'any', 'all', 'hasattr', 'getattr', 'setattr', 'type', 'set', 'dict', 'map', 'bool',
            'ValueError', 'TypeError', 'RuntimeError', 'Exception', 'KeyError', 'IndexError',
            'NotImplementedError', 'ZeroDivisionError', 'AttributeError', 'Warning',
            'UserWarning', 'RuntimeWarning', 'DeprecationWarning', 'AssertionError',
            'super', 'eval', 'exec', 'open', 'iter', 'next', 'divmod', 'complex', 'id', 'repr',
            'callable', 'slice', 'object', 'filter', 'vars', 'dir', 'format', 'input', 'exit',
            'quit', 'frozenset', 'ArithmeticError', 'FloatingPointError', 'OverflowError',
            'StopIteration', 'SystemExit', 'OSError', 'IOError', 'ImportError', 'locals', 'globals'}

# higher-order library routines: canonical name -> (index of callable,
# description of the callable's positional parameters as a function of the call)
HIGHER_ORDER = {
    'scipy.optimize.bisect': 'root1',
    'scipy.optimize.brentq': 'root1',
    'scipy.optimize.fsolve': 'root1',
    'scipy.optimize.newton': 'root1',
    'scipy.optimize.fminbound': 'root1',
    'scipy.integrate.quad': 'root1',
    'scipy.integrate.solve_ivp': 'ode_ty',
    'scipy.integrate.odeint': 'ode_yt',
    'scipy.integrate.ode': 'ode_ty',
}

MUTATING_LIST_METHODS = {'append', 'extend', 'insert'}
INPLACE_METHODS = {'sort', 'fill', 'resize', 'put', 'itemset', 'partition', 'byteswap', 'setfield',
                   'reverse', 'append', 'extend', 'insert', 'pop', 'remove', 'clear', 'update',
                   'setdefault', 'popitem'}
INPLACE_FUNCTIONS = {'numpy.put', 'numpy.place', 'numpy.copyto', 'numpy.putmask', 'numpy.random.shuffle',
                     'numpy.fill_diagonal', 'numpy.ndarray.sort', 'numpy.put_along_axis', 'random.shuffle'}

BINOPS = {ast.Add: '+', ast.Sub: '-', ast.Mult: '*', ast.Div: '/', ast.Pow: '**',
          ast.FloorDiv: '//', ast.Mod: '%', ast.MatMult: '@', ast.BitAnd: '&',
          ast.BitOr: '|', ast.BitXor: '^', ast.LShift: '<<', ast.RShift: '>>'}
CMPOPS = {ast.Lt: '<', ast.LtE: '<=', ast.Gt: '>', ast.GtE: '>=', ast.Eq: '==',
          ast.NotEq: '!=', ast.In: 'in', ast.NotIn: 'not in', ast.Is: 'is', ast.IsNot: 'is not'}
UNOPS = {ast.USub: '-', ast.UAdd: '+', ast.Not: 'not', ast.Invert: '~'}


class _Return(Exception):
    pass


def assigned_names(stmts):
    """Names (plain locals) and self-attribute names assigned anywhere in a
    statement list (syntactic, for mu-node placement)."""
    names, attrs = set(), set()

    def tgt(t):
        if isinstance(t, ast.Name):
            names.add(t.id)
        elif isinstance(t, (ast.Tuple, ast.List)):
            for e in t.elts:
                tgt(e)
        elif isinstance(t, ast.Starred):
            tgt(t.value)
        elif isinstance(t, ast.Subscript):
            tgt_base(t.value)
        elif isinstance(t, ast.Attribute):
            if isinstance(t.value, ast.Name):
                attrs.add((t.value.id, t.attr))

    def tgt_base(b):
        if isinstance(b, ast.Name):
            names.add(b.id)
        elif isinstance(b, ast.Subscript):
            tgt_base(b.value)
        elif isinstance(b, ast.Attribute) and isinstance(b.value, ast.Name):
            attrs.add((b.value.id, b.attr))

    for st in stmts:
        for n in ast.walk(st):
            if isinstance(n, ast.Assign):
                for t in n.targets:
                    tgt(t)
            elif isinstance(n, (ast.AugAssign, ast.AnnAssign)):
                tgt(n.target)
            elif isinstance(n, (ast.For, ast.comprehension)):
                tgt(n.target)
            elif isinstance(n, ast.With):
                for it in n.items:
                    if it.optional_vars is not None:
                        tgt(it.optional_vars)
            elif isinstance(n, ast.Call) and isinstance(n.func, ast.Attribute) \
                    and n.func.attr in MUTATING_LIST_METHODS | {'sort', 'fill', 'reverse', 'update'}:
                tgt_base(n.func.value)
            elif isinstance(n, (ast.Import, ast.ImportFrom)):
                for al in n.names:
                    names.add((al.asname or al.name).split('.')[0])
            elif isinstance(n, ast.NamedExpr):
                tgt(n.target)
    return names, attrs


class Builder:
    def __init__(self, model, max_depth=MAX_DEPTH):
        self.model = model
        self.max_depth = max_depth
        self.heap = {}        # oid -> {attr: Node}
        self.objs = {}        # oid -> Obj
        self.gvars = {}       # (modname, name) -> Node    (dynamic writes + cache)
        self.trace = []       # every node, in creation order
        self.stack = []       # active FuncInfo / lambda nodes (recursion guard)
        self.frames = []      # dynamic stack of frames (for path conditions)
        self.frame = None
        self.unknown_calls = {}
        self.notes = []
        self.call_sites = 0
        self.inlined = set()
        self.cur_op = 0
        self.ops = [{'kind': 'static', 'instance': None}]
        self.shared_reads = []    # (location key, value Node, op, ast) reads of globals / shared objects
        self.default_cache = {}
        self.default_nodes = {}   # nid -> (FuncInfo, parameter name) of default-argument objects
        self.call_log = []          # (call ast, callee FuncInfo, argument Nodes, caller FuncInfo)
        self.view_mutated = set()   # nids of arrays mutated in place through a view (not modelled)
        self.mutations = []   # (kind, receiver Node, ast node, FuncInfo): in-place updates
        self.assign_log = []  # (FuncInfo, ast.Name target, Node) for every plain-name assignment
        self.memo_calls = []  # (FuncInfo, call ast) of calls to memoised functions
        self.param_nodes = {}   # (oid, parameter name) -> the one Param node of that instance parameter
        self.alias_updates = []   # (location, ast, FuncInfo): in-place updates seen through an alias
        self.opaque = {}      # function fullname -> symbol name (result is a named dimensionless constant)

    # -- node construction ---------------------------------------------
    def mk(self, kind, val=None, args=(), kw=None, at=None):
        fn = self.frame.func if self.frame is not None else None
        n = Node(kind, val, args, kw, origin=(fn, at))
        n.op = self.cur_op
        self.trace.append(n)
        return n

    # -- operations (C06): every node is tagged with the operation that created it;
    # operation 0 is "static" (import time: module/class-body initialisers, defaults)
    def begin_op(self, kind, instance=None):
        self.ops.append({'kind': kind, 'instance': instance})
        self.cur_op = len(self.ops) - 1
        return self.cur_op

    def static(self):
        b = self

        class _S:
            def __enter__(self_inner):
                self_inner.saved = b.cur_op
                b.cur_op = 0

            def __exit__(self_inner, *a):
                b.cur_op = self_inner.saved
        return _S()

    def const(self, v, at=None):
        return self.mk('const', v, at=at)

    def unknown(self, why, at=None):
        return self.mk('unknown', why, at=at)

    def undef(self):
        return self.mk('undef')

    # -- state snapshots -------------------------------------------------
    def snapshot(self):
        return (dict(self.frame.locals),
                {k: dict(v) for k, v in self.heap.items()},
                dict(self.gvars))

    def restore(self, snap):
        self.frame.locals = dict(snap[0])
        self.heap = {k: dict(v) for k, v in snap[1].items()}
        self.gvars = dict(snap[2])

    def merge(self, cond, s1, s2):
        """State := phi(cond, s1, s2)."""
        def phi(a, b):
            if a is b:
                return a
            if a is None or (a.kind == 'undef'):
                return b
            if b is None or (b.kind == 'undef'):
                return a
            return self.mk('phi', args=[cond, a, b], at=getattr(cond, 'origin', (None, None))[1])
        loc = {}
        for k in set(s1[0]) | set(s2[0]):
            loc[k] = phi(s1[0].get(k), s2[0].get(k))
        heap = {}
        for oid in set(s1[1]) | set(s2[1]):
            h1, h2 = s1[1].get(oid, {}), s2[1].get(oid, {})
            o = self.objs.get(oid)
            if o is not None and o.symbolic:
                # a parameter of a symbolic instance that only one branch has touched: on the other branch it is
                # still the (lazily materialised) parameter, not "whatever the first branch assigned"
                for k in (set(h1) ^ set(h2)) & set(o.param_keys):
                    n = self.param_nodes.get((oid, k))
                    if n is None:
                        n = self.mk('param', k)
                        n.owner = oid
                        n.op = getattr(o, 'created_op', n.op)
                        self.param_nodes[(oid, k)] = n
                    (h1 if k not in h1 else h2).setdefault(k, n)
            heap[oid] = {k: phi(h1.get(k), h2.get(k)) for k in set(h1) | set(h2)}
        gv = {}
        for k in set(s1[2]) | set(s2[2]):
            gv[k] = phi(s1[2].get(k), s2[2].get(k))
        self.frame.locals = loc
        self.heap = heap
        self.gvars = gv

    # -- objects ---------------------------------------------------------
    def new_obj(self, cls, symbolic=False):
        keys = self.model.parameters_keys(cls) if symbolic else None
        o = Obj(cls, keys or [], symbolic)
        o.created_op = self.cur_op
        self.objs[o.oid] = o
        self.heap[o.oid] = {}
        return self.mk('obj', o)

    def symbolic_obj(self, cls, param_keys, prefill=None):
        """An instance of `cls` that is NOT constructed: the listed attributes are
        symbolic parameters (or the given nodes); used to analyse one function of
        a helper class for all attribute values."""
        o = Obj(cls, list(param_keys), True)
        o.created_op = self.cur_op
        self.objs[o.oid] = o
        self.heap[o.oid] = dict(prefill or {})
        return self.mk('obj', o)

    def instantiate(self, cls, args=(), kw=None, symbolic=False, at=None):
        objn = self.new_obj(cls, symbolic)
        init = cls.find_method('__init__')
        if init is not None:
            clo = Closure(init, init.node, None, self_node=objn, cls=init.cls, module=init.module)
            self.call_closure(clo, list(args), kw or {}, at=at)
        return objn

    # -- name lookup -----------------------------------------------------
    # -- path conditions -------------------------------------------------
    def active_conds(self):
        out = []
        seen = set()
        for fr in list(self.frames) + ([self.frame] if self.frame is not None else []):
            if id(fr) in seen:
                continue
            seen.add(id(fr))
            out.extend(fr.conds)
        return out

    def select(self, n, depth=0):
        """phi(c, a, b) read on a path where c (or not c) is known: the
        correlated-configuration-guard idiom (write under `if cfg == X`, read
        under the same test)."""
        if n is None or n.kind != 'phi' or depth > 8:
            return n
        conds = self.active_conds()
        if not conds:
            return n
        c = n.args[0]
        for ac, pol in conds:
            r = implies(ac, pol, c)
            if r is True:
                return self.select(n.args[1], depth + 1)
            if r is False:
                return self.select(n.args[2], depth + 1)
        return n

    def lookup(self, name, at=None):
        return self.select(self._lookup(name, at))

    def _lookup(self, name, at=None):
        f = self.frame
        fr = f
        while fr is not None:
            if name in fr.globals_decl:
                break
            if name in fr.locals:
                return fr.locals[name]
            if name in fr.local_imports:
                return self.entity(fr.local_imports[name], at)
            fr = fr.parent
        return self.lookup_global(f.module, name, at)

    def lookup_global(self, module, name, at=None):
        key = (module.name, name)
        if key in self.gvars:
            self.shared_reads.append((key, self.gvars[key], self.cur_op, at))
            return self.gvars[key]
        r = self.model.resolve(module, name)
        if r is None:
            if name in BUILTINS:
                return self.mk('extfunc', 'builtins.' + name, at=at)
            if name in ('True', 'False', 'None'):
                return self.const({'True': True, 'False': False, 'None': None}[name], at)
            return self.unknown('unresolved name %s' % name, at)
        if r[0] == 'var':
            m2, nm = r[1], r[2]
            key2 = (m2.name, nm)
            if key2 in self.gvars:
                self.shared_reads.append((key2, self.gvars[key2], self.cur_op, at))
                return self.gvars[key2]
            vals = m2.global_assigns.get(nm) or []
            with self.static():
                if vals and vals[-1] is not None:
                    # evaluate the module-level initialiser in module scope
                    node = self.eval_in_module(m2, vals[-1])
                else:
                    node = self.mk('undef')
            self.gvars[key2] = node
            return node
        return self.entity(r, at)

    def entity(self, r, at=None):
        if r[0] == 'func':
            fi = r[1]
            return self.mk('closure', Closure(fi, fi.node, None, cls=fi.cls, module=fi.module), at=at)
        if r[0] == 'class':
            return self.mk('class', r[1], at=at)
        if r[0] == 'module':
            return self.mk('module', r[1], at=at)
        if r[0] == 'ext':
            return self.mk('extfunc', canonical_ext(r[1]), at=at)
        if r[0] == 'classattr':
            return self.class_attr(r[1], r[2], at)
        if r[0] == 'var':
            return self.lookup_global(r[1], r[2], at)
        return self.unknown('entity %r' % (r,), at)

    def eval_in_module(self, module, expr):
        saved = self.frame
        self.frame = Frame(None, module, {}, None)
        try:
            return self.eval(expr)
        finally:
            self.frame = saved

    def class_attr(self, cls, name, at=None):
        owner, val = cls.find_attr(name)
        if owner is None:
            m = cls.find_method(name)
            if m is not None:
                return self.mk('closure', Closure(m, m.node, None, cls=m.cls, module=m.module), at=at)
            return self.unknown('no class attribute %s.%s' % (cls.name, name), at)
        key = ('classattr', owner.fullname, name)
        if key in self.gvars:
            return self.gvars[key]
        saved = self.frame
        saved_op = self.cur_op
        self.cur_op = 0
        # class body scope: earlier class attributes are visible as names
        fr = Frame(None, owner.module, {}, None)
        self.frame = fr
        try:
            for st in owner.node.body:
                if isinstance(st, (ast.Assign, ast.AnnAssign, ast.AugAssign, ast.Expr)):
                    if isinstance(st, ast.Expr) and not isinstance(st.value, ast.Call):
                        continue
                    try:
                        self.exec_stmt(st)
                    except _Return:
                        pass
                elif isinstance(st, (ast.FunctionDef,)):
                    fi = owner.methods.get(st.name)
                    if fi is not None:
                        fr.locals[st.name] = self.mk('closure', Closure(fi, fi.node, None, cls=owner,
                                                                       module=owner.module))
            for k, v in fr.locals.items():
                self.gvars[('classattr', owner.fullname, k)] = v
        finally:
            self.frame = saved
            self.cur_op = saved_op
        return self.gvars.get(key) or self.unknown('class attribute %s' % name, at)

    # -- attribute access ------------------------------------------------
    def get_attr(self, base, name, at=None):
        k = base.kind
        if k == 'obj':
            o = base.val
            h = self.heap.setdefault(o.oid, {})
            if name in h:
                v = self.select(h[name])
                if base.op == 0:
                    self.shared_reads.append((('heap', o.oid, o.cls.name, name), v, self.cur_op, at))
                return v
            if o.symbolic and name in o.param_keys:
                # one node per (instance, parameter): a first read inside a branch must not make the merged
                # state hold phi(cond, param, param') of two nodes that denote the same value
                n = self.param_nodes.get((o.oid, name))
                if n is None:
                    n = self.mk('param', name, at=at)
                    n.owner = o.oid
                    n.op = base.op
                    self.param_nodes[(o.oid, name)] = n
                h[name] = n
                return n
            dyn = self.dynamic_class_attr(o.cls, name, at)
            if dyn is not None:
                return dyn
            m = o.cls.find_method(name)
            if m is not None:
                return self.mk('closure', Closure(m, m.node, None, self_node=base, cls=m.cls,
                                                  module=m.module), at=at)
            owner, val = o.cls.find_attr(name)
            if owner is not None:
                return self.class_attr(owner, name, at)
            if name == '__dict__':
                return self.mk('attr', name, [base], at=at)
            if name == 'parameters':
                return self.unknown('parameters', at)
            return self.unknown('no attribute %s on %s' % (name, o.cls.name), at)
        if k == 'super':
            objn, after = base.val
            o = objn.val
            m = o.cls.find_method(name, after=after) if after in o.cls.mro else None
            if m is not None:
                return self.mk('closure', Closure(m, m.node, None, self_node=objn, cls=m.cls,
                                                  module=m.module), at=at)
            return self.mk('extfunc', 'object.' + name, at=at)
        if k == 'module':
            m = self.model.modules.get(base.val)
            if m is not None:
                sub = base.val + '.' + name
                r = self.model.resolve(m, name)
                if r is not None:
                    if r[0] == 'var':
                        return self.lookup_global(r[1], r[2], at)
                    return self.entity(r, at)
                if sub in self.model.modules:
                    return self.mk('module', sub, at=at)
                if (m.name, name) in self.gvars:
                    return self.gvars[(m.name, name)]
            return self.unknown('module attr %s.%s' % (base.val, name), at)
        if k == 'class':
            ci = base.val
            dyn = self.dynamic_class_attr(ci, name, at)
            if dyn is not None:
                return dyn
            m = ci.find_method(name)
            if m is not None:
                return self.mk('closure', Closure(m, m.node, None, cls=m.cls, module=m.module), at=at)
            owner, val = ci.find_attr(name)
            if owner is not None:
                return self.class_attr(owner, name, at)
            return self.unknown('class attr %s.%s' % (ci.name, name), at)
        if k == 'extfunc':
            return self.mk('extfunc', canonical_ext(base.val + '.' + name), at=at)
        if k == 'phi':
            a = self.get_attr(base.args[1], name, at)
            b = self.get_attr(base.args[2], name, at)
            if a.kind == 'unknown' and b.kind != 'unknown':
                return b
            if b.kind == 'unknown' and a.kind != 'unknown':
                return a
            return self.mk('phi', args=[base.args[0], a, b], at=at)
        if k == 'closure' and name == 'terminal':
            return self.unknown('function attribute', at)
        return self.mk('attr', name, [base], at=at)

    def dynamic_class_attr(self, ci, name, at):
        """Class attribute assigned at run time (Cls.x = ..) -- shared by all instances."""
        for c in ci.mro:
            if isinstance(c, ClassInfo):
                key = ('classattr', c.fullname, name)
                v = self.gvars.get(key)
                if v is not None and v.op != 0:
                    v = self.select(v)
                    self.shared_reads.append((key, v, self.cur_op, at))
                    return v
        return None

    def set_attr(self, base, name, value, at=None):
        if base.kind == 'obj':
            self.heap.setdefault(base.val.oid, {})[name] = value
        elif base.kind == 'phi':
            self.set_attr(base.args[1], name, value, at)
            self.set_attr(base.args[2], name, value, at)
        elif base.kind == 'class':
            self.gvars[('classattr', base.val.fullname, name)] = value
        elif base.kind == 'module':
            self.gvars[(base.val, name)] = value
        else:
            self.mk('attrstore', name, [base, value], at=at)

    # -- expressions -----------------------------------------------------
    def eval(self, e):
        meth = getattr(self, 'e_' + type(e).__name__, None)
        if meth is None:
            return self.unknown('expr %s' % type(e).__name__, e)
        return meth(e)

    def e_Constant(self, e):
        return self.const(e.value, e)

    def e_Name(self, e):
        return self.lookup(e.id, e)

    def e_Attribute(self, e):
        base = self.eval(e.value)
        return self.get_attr(base, e.attr, e)

    def e_BinOp(self, e):
        l = self.eval(e.left)
        r = self.eval(e.right)
        op = BINOPS.get(type(e.op), '?')
        return self.binop(op, l, r, e)

    def binop(self, op, l, r, at):
        f = self.fold_consts(lambda a, b: _py_binop(op, a, b), [l, r], strings_only=True)
        if f is not None:
            return f
        return self.mk('binop', op, [l, r], at=at)

    def e_UnaryOp(self, e):
        x = self.eval(e.operand)
        op = UNOPS.get(type(e.op), '?')
        if op == 'not' and x.kind == 'const' and isinstance(x.val, bool):
            return self.const(not x.val, e)
        return self.mk('unop', op, [x], at=e)

    def e_BoolOp(self, e):
        # short-circuit evaluation: later operands are evaluated under the path
        # condition that the earlier ones were true (and) / false (or)
        op = 'and' if isinstance(e.op, ast.And) else 'or'
        vals = []
        pushed = 0
        f = self.frame
        try:
            for v in e.values:
                n = self.eval(v)
                vals.append(n)
                if n.kind == 'const' and isinstance(n.val, bool):
                    if (op == 'and' and n.val is False) or (op == 'or' and n.val is True):
                        break
                    continue
                f.conds.append((n, op == 'and'))
                pushed += 1
        finally:
            for _ in range(pushed):
                f.conds.pop()
        return self.boolop(op, vals, e)

    def e_Compare(self, e):
        left = self.eval(e.left)
        parts = []
        for op, c in zip(e.ops, e.comparators):
            right = self.eval(c)
            ops = CMPOPS.get(type(op), '?')
            if left.kind == 'const' and right.kind == 'const' and _is_num(left.val) and _is_num(right.val) \
                    and ops in ('<', '<=', '>', '>=', '==', '!='):
                parts.append(self.const(_py_cmp(ops, left.val, right.val), e))
                left = right
                continue
            f = self.fold_consts(lambda a, b, ops=ops: _py_cmp(ops, a, b), [left, right], strings_only=True)
            parts.append(f if f is not None else self.mk('cmp', ops, [left, right], at=e))
            left = right
        if len(parts) == 1:
            return parts[0]
        return self.boolop('and', parts, e)

    def boolop(self, op, vals, at):
        consts = [v for v in vals if v.kind == 'const' and isinstance(v.val, bool)]
        if op == 'and':
            if any(v.val is False for v in consts):
                return self.const(False, at)
            rest = [v for v in vals if v not in consts]
        else:
            if any(v.val is True for v in consts):
                return self.const(True, at)
            rest = [v for v in vals if v not in consts]
        if not rest:
            return self.const(op == 'and', at)
        if len(rest) == 1:
            return rest[0]
        if len(rest) == len(vals) and self._value_like(rest[-1]):
            # `a or b` / `a and b` used for its VALUE (`kwargs.get('k') or default`): a if a else b / b if a else a
            out = rest[-1]
            for v in reversed(rest[:-1]):
                out = self.mk('phi', None, [v, v, out] if op == 'or' else [v, out, v], at=at)
            return out
        return self.mk('bool', op, rest, at=at)

    @staticmethod
    def _value_like(n):
        """Certainly not a truth value: a number, a parameter, arithmetic."""
        if n.kind == 'const':
            return isinstance(n.val, (int, float)) and not isinstance(n.val, bool)
        return n.kind in ('param', 'binop')

    def e_IfExp(self, e):
        c = self.eval(e.test)
        if c.kind == 'const' and isinstance(c.val, bool):
            return self.eval(e.body if c.val else e.orelse)
        a = self.eval(e.body)
        b = self.eval(e.orelse)
        return self.mk('phi', args=[c, a, b], at=e)

    def e_Tuple(self, e):
        return self.mk('tuple', args=[self.eval(x) for x in e.elts], at=e)

    def e_List(self, e):
        return self.mk('list', args=[self.eval(x) for x in e.elts], at=e)

    def e_Set(self, e):
        return self.mk('list', args=[self.eval(x) for x in e.elts], at=e)

    def e_Dict(self, e):
        keys, vals = [], []
        for k, v in zip(e.keys, e.values):
            if k is None:
                return self.unknown('dict unpack', e)
            kn = self.eval(k)
            keys.append(kn.val if kn.kind == 'const' else kn)
            vals.append(self.eval(v))
        return self.mk('dict', keys, vals, at=e)

    def e_Starred(self, e):
        return self.mk('starred', args=[self.eval(e.value)], at=e)

    def e_JoinedStr(self, e):
        for v in e.values:
            if isinstance(v, ast.FormattedValue):
                self.eval(v.value)
        return self.unknown('f-string', e)

    def e_Lambda(self, e):
        return self.mk('closure', Closure(None, e, self.frame, cls=self.frame.cls,
                                          module=self.frame.module), at=e)

    def e_Slice(self, e):
        parts = [self.eval(x) if x is not None else self.const(None) for x in (e.lower, e.upper, e.step)]
        return self.mk('slice', args=parts, at=e)

    def e_Subscript(self, e):
        base = self.eval(e.value)
        idx = self.eval(e.slice)
        return self.subscript(base, idx, e)

    def subscript(self, base, idx, at):
        if base.kind in ('tuple', 'list') and idx.kind == 'const' and isinstance(idx.val, int) \
                and not isinstance(idx.val, bool):
            if -len(base.args) <= idx.val < len(base.args):
                return base.args[idx.val]
        if base.kind == 'dict' and idx.kind == 'const':
            for k, v in zip(base.val, base.args):
                if k == idx.val:
                    return v
        if base.kind == 'const' and idx.kind == 'const' and isinstance(base.val, (str, tuple, list)):
            try:
                return self.const(base.val[idx.val], at)
            except Exception:
                pass
        if base.kind == 'phi' and idx.kind == 'const':
            f = self.fold_consts(lambda b, i: b[i], [base, idx])
            if f is not None:
                return f
            a, b = base.args[1], base.args[2]
            if a.kind in ('tuple', 'list', 'dict', 'phi') and b.kind in ('tuple', 'list', 'dict', 'phi'):
                return self.mk('phi', args=[base.args[0], self.subscript(a, idx, at),
                                            self.subscript(b, idx, at)], at=at)
        return self.mk('sub', args=[base, idx], at=at)

    def e_ListComp(self, e):
        return self.comprehension(e, e.elt)

    def e_GeneratorExp(self, e):
        return self.comprehension(e, e.elt)

    def e_SetComp(self, e):
        return self.comprehension(e, e.elt)

    def e_DictComp(self, e):
        return self.comprehension(e, e.value)

    def comprehension(self, e, elt):
        saved = dict(self.frame.locals)
        try:
            for g in e.generators:
                it = self.eval(g.iter)
                self.bind_loop_target(g.target, it, g.iter)
                for c in g.ifs:
                    self.eval(c)
            v = self.eval(elt)
        finally:
            self.frame.locals = saved
        return self.mk('arrayof', args=[v], at=e)

    def e_NamedExpr(self, e):
        v = self.eval(e.value)
        self.assign(e.target, v)
        return v

    def e_Call(self, e):
        self.call_sites += 1
        fn = self.eval(e.func)
        args = []
        for a in e.args:
            if isinstance(a, ast.Starred):
                v = self.eval(a.value)
                if v.kind in ('tuple', 'list'):
                    args.extend(v.args)
                else:
                    args.append(self.mk('starred', args=[v], at=a))
            else:
                args.append(self.eval(a))
        kw = {}
        for k in e.keywords:
            if k.arg is None:
                v = self.eval(k.value)
                if v.kind == 'dict' and all(isinstance(x, str) for x in v.val):
                    for kk, vv in zip(v.val, v.args):
                        kw[kk] = vv
                else:
                    kw['**'] = v
            else:
                kw[k.arg] = self.eval(k.value)
        return self.call(fn, args, kw, e)

    # -- calls -------------------------------------------------------------
    def call(self, fn, args, kw, at):
        k = fn.kind
        if k == 'closure':
            return self.call_closure(fn.val, args, kw, at)
        if k == 'class':
            if fn.val.fullname == 'exactpack.base:ExactSolution':
                return self.mk('call', 'exactpack.base.ExactSolution', args, kw, at=at)
            return self.instantiate(fn.val, args, kw, at=at)
        if k == 'extfunc':
            return self.call_ext(fn.val, args, kw, at)
        if k == 'phi':
            a = self.call(fn.args[1], args, kw, at)
            b = self.call(fn.args[2], args, kw, at)
            return self.mk('phi', args=[fn.args[0], a, b], at=at)
        if k == 'attr':
            return self.call_method(fn.args[0], fn.val, args, kw, at)
        if k == 'call' and fn.val in ('scipy.interpolate.interp1d',
                                      'scipy.interpolate.interpolate.interp1d'):
            return self.mk('call', 'interp1d.__call__', [fn] + args, kw, at=at)
        self.unknown_calls[src_of(at.func) if at is not None else '?'] = fn.kind
        return self.mk('callunk', None, [fn] + args, kw, at=at)

    def call_method(self, recv, name, args, kw, at):
        # constant folding of string methods (eval-dispatch idiom)
        if name in ('split', 'strip', 'lower', 'upper', 'join', 'format', 'replace', 'startswith',
                    'endswith'):
            f = self.fold_consts(lambda s, *a: getattr(s, name)(*a), [recv] + args, strings_only=True)
            if f is not None:
                return f
        if name in ('keys', 'values', 'items') and recv.kind == 'dict':
            if name == 'keys':
                return self.mk('list', args=[self.const(k) if not isinstance(k, Node) else k
                                             for k in recv.val], at=at)
            if name == 'values':
                return self.mk('list', args=list(recv.args), at=at)
            return self.mk('list', args=[self.mk('tuple', args=[self.const(k) if not isinstance(k, Node) else k, v])
                                         for k, v in zip(recv.val, recv.args)], at=at)
        if name == 'copy' and recv.kind in ('dict', 'list', 'tuple'):
            return recv
        if name in INPLACE_METHODS:
            self.mutations.append(('in-place method %s()' % name, recv, at, self.frame.func))
        return self.mk('mcall', name, [recv] + args, kw, at=at)

    def call_ext(self, name, args, kw, at):
        if name == 'builtins.super':
            f = self.frame
            fr = f
            while fr is not None and fr.self_obj is None:
                fr = fr.parent
            if fr is None:
                return self.unknown('super outside method', at)
            after = fr.cls
            if args and args[0].kind == 'class':
                after = args[0].val
            return self.mk('super', (fr.self_obj, after), at=at)
        if name == 'builtins.eval' and args:
            s = args[0]
            return self.lift(lambda c: self.eval_string(c, at), s, at)
        if name == 'builtins.getattr' and len(args) >= 2 and args[1].kind == 'const':
            return self.get_attr(args[0], args[1].val, at)
        if name == 'builtins.setattr' and len(args) == 3 and args[1].kind == 'const':
            self.set_attr(args[0], args[1].val, args[2], at)
            return self.const(None)
        if name in ('builtins.float', 'builtins.int') and args and args[0].kind == 'const' \
                and isinstance(args[0].val, (int, float)) and not isinstance(args[0].val, bool):
            return args[0]
        if name in ('builtins.len',) and args and args[0].kind in ('tuple', 'list'):
            return self.const(len(args[0].args), at)
        if name in ('builtins.list', 'builtins.tuple') and len(args) == 1 and args[0].kind in ('tuple', 'list'):
            return self.mk(name.split('.')[1], args=list(args[0].args), at=at)
        if name == 'builtins.dict' and not args:
            return self.mk('dict', list(kw.keys()), list(kw.values()), at=at)
        if name == 'builtins.dict' and len(args) == 1 and args[0].kind == 'dict' and not kw:
            return self.mk('dict', list(args[0].val), list(args[0].args), at=at)
        n = self.mk('call', name, args, kw, at=at)
        if 'out' in kw:
            self.mutations.append(('out= argument of %s' % name, kw['out'], at, self.frame.func))
        if name in INPLACE_FUNCTIONS and args:
            self.mutations.append(('in-place function %s' % name, args[0], at, self.frame.func))
        mode = HIGHER_ORDER.get(name)
        if mode and args:
            self.apply_ho(n, mode, args, kw, at)
        return n

    def apply_ho(self, n, mode, args, kw, at):
        """Interpret the callable handed to a higher-order library routine once,
        against placeholder arguments; recorded in n.ho for the domains."""
        f = args[0]
        extra = kw.get('args')
        if extra is None and mode == 'root1' and n.val in ('scipy.optimize.fsolve',
                                                          'scipy.optimize.brentq',
                                                          'scipy.optimize.bisect') and False:
            extra = None
        # positional "args" of the scipy signatures actually used in the repo
        if extra is None:
            if n.val == 'scipy.optimize.fsolve' and len(args) >= 3:
                extra = args[2]
            elif n.val == 'scipy.integrate.odeint' and len(args) >= 4:
                extra = args[3]
        extras = []
        if extra is not None:
            if extra.kind in ('tuple', 'list'):
                extras = list(extra.args)
            else:
                extras = [extra]
        if mode == 'root1':
            ph = [self.mk('hoarg', 'x', at=at)]
        elif mode == 'ode_ty':
            ph = [self.mk('hoarg', 't', at=at), self.mk('hoarg', 'y', at=at)]
        else:
            ph = [self.mk('hoarg', 'y', at=at), self.mk('hoarg', 't', at=at)]
        res = self.call(f, ph + extras, {}, at) if f.kind in ('closure', 'phi') else None
        n.ho = {'mode': mode, 'placeholders': ph, 'result': res, 'extras': extras}
        # events=, Dfun=, jac= callbacks
        for key in ('events', 'Dfun', 'jac', 'fprime'):
            cb = kw.get(key)
            if cb is not None and cb.kind == 'closure':
                ph2 = [self.mk('hoarg', p.val, at=at) for p in ph]
                r2 = self.call(cb, ph2 + extras, {}, at)
                n.ho.setdefault('callbacks', []).append((key, ph2, r2))

    def eval_string(self, s, at):
        if not isinstance(s, str):
            return self.unknown('eval of non-string', at)
        try:
            tree = ast.parse(s, mode='eval')
        except SyntaxError:
            return self.unknown('eval syntax', at)
        for n in ast.walk(tree):
            if hasattr(n, 'lineno') and at is not None:
                n.lineno = at.lineno
        return self.eval(tree.body)

    def leaves(self, n, acc=None, limit=64):
        """Leaves of a phi tree; None if too many."""
        if acc is None:
            acc = []
        if n.kind == 'phi':
            self.leaves(n.args[1], acc, limit)
            self.leaves(n.args[2], acc, limit)
        else:
            acc.append(n)
        return acc

    def lift(self, fn, n, at):
        """Apply fn (python value -> Node) over the constant leaves of a phi tree."""
        if n.kind == 'const':
            return fn(n.val)
        if n.kind == 'phi':
            a = self.lift(fn, n.args[1], at)
            b = self.lift(fn, n.args[2], at)
            return self.mk('phi', args=[n.args[0], a, b], at=at)
        if n.kind == 'undef':
            return n
        return self.unknown('non-constant', at)

    def fold_consts(self, fn, args, strings_only=False):
        """Constant-fold fn over args; at most one arg may be a phi tree with
        constant leaves (distributes over it).  Only string/tuple/list/bool
        results are folded when strings_only (numeric arithmetic is kept
        symbolic so that exact rationals survive)."""
        phis = [i for i, a in enumerate(args) if a.kind == 'phi']
        if any(a.kind not in ('const', 'phi') for a in args):
            return None
        if len(phis) > 1:
            return None
        if strings_only:
            def has_str(a):
                if a.kind == 'const':
                    return isinstance(a.val, (str, tuple, list))
                return any(l.kind == 'const' and isinstance(l.val, (str, tuple, list))
                           for l in self.leaves(a))
            if not any(has_str(a) for a in args):
                return None
        if not phis:
            try:
                return self.const(fn(*[a.val for a in args]))
            except Exception:
                return None
        i = phis[0]
        lv = self.leaves(args[i])
        if not all(l.kind in ('const', 'undef', 'unknown') for l in lv) or not any(l.kind == 'const' for l in lv):
            return None

        def rec(n):
            if n.kind == 'phi':
                return self.mk('phi', args=[n.args[0], rec(n.args[1]), rec(n.args[2])],
                               at=n.origin[1] if n.origin else None)
            if n.kind in ('undef', 'unknown'):
                return n          # an alternative that already failed to fold stays unknown
            vals = [a.val for a in args]
            vals[i] = n.val
            try:
                return self.const(fn(*vals))
            except Exception:
                return self.unknown('fold error')
        return rec(args[i])

    def call_closure(self, clo, args, kw, at):
        node = clo.node
        key = clo.func or node
        if key in self.stack or len(self.stack) >= self.max_depth:
            return self.unknown('recursion/depth at %s' % getattr(node, 'name', 'lambda'), at)
        if clo.func is not None and clo.func.fullname in self.opaque:
            return self.mk('param', self.opaque[clo.func.fullname], at=at)
        if clo.func is not None:
            self.inlined.add(clo.func.fullname)
            self.call_log.append((at, clo.func, list(args), self.frame.func if self.frame is not None else None))
        a = node.args
        params = [p.arg for p in a.posonlyargs + a.args]
        locals_ = {}
        pos = list(args)
        if clo.self_node is not None and params:
            is_static = isinstance(node, ast.FunctionDef) and any(
                isinstance(d, ast.Name) and d.id == 'staticmethod' for d in node.decorator_list)
            if not is_static:
                pos = [clo.self_node] + pos
        # defaults are evaluated in the defining scope
        defaults = a.defaults
        ndef = len(defaults)
        module = clo.module or (clo.func.module if clo.func else self.frame.module)
        for i, p in enumerate(params):
            if i < len(pos):
                locals_[p] = pos[i]
            elif p in kw:
                locals_[p] = kw[p]
            else:
                j = i - (len(params) - ndef)
                if j >= 0:
                    ck = (id(node), j)
                    if ck in self.default_cache and clo.frame is None:
                        locals_[p] = self.default_cache[ck]
                    else:
                        saved = self.frame
                        self.frame = Frame(clo.func, module, {}, None, parent=clo.frame)
                        try:
                            if clo.frame is None:
                                with self.static():
                                    locals_[p] = self.eval(defaults[j])
                                self.default_cache[ck] = locals_[p]
                                self.default_nodes[locals_[p].nid] = (clo.func, p)
                            else:
                                locals_[p] = self.eval(defaults[j])
                        finally:
                            self.frame = saved
                else:
                    locals_[p] = self.unknown('missing argument %s' % p, at)
        if a.vararg is not None:
            locals_[a.vararg.arg] = self.mk('tuple', args=pos[len(params):], at=at)
        for p, d in zip(a.kwonlyargs, a.kw_defaults):
            if p.arg in kw:
                locals_[p.arg] = kw[p.arg]
            elif d is not None:
                saved = self.frame
                self.frame = Frame(clo.func, module, {}, None, parent=clo.frame)
                try:
                    locals_[p.arg] = self.eval(d)
                finally:
                    self.frame = saved
        if a.kwarg is not None:
            extra = {k: v for k, v in kw.items() if k not in params and k != '**'}
            if '**' not in kw:
                locals_[a.kwarg.arg] = self.mk('dict', list(extra.keys()), list(extra.values()), at=at)
            elif not extra and kw['**'].kind == 'kwargs':
                locals_[a.kwarg.arg] = kw['**']
            else:
                kn = self.mk('kwargs', args=[kw['**']] + list(extra.values()), at=at)
                kn.owner = getattr(kw['**'], 'owner', None)
                locals_[a.kwarg.arg] = kn
        self_obj = None
        if clo.self_node is not None:
            self_obj = clo.self_node
        elif clo.cls is not None and params and params[0] == 'self' and pos:
            self_obj = pos[0] if pos[0].kind == 'obj' else None
        fr = Frame(clo.func, module, locals_, self_obj, parent=clo.frame, cls=clo.cls)
        if clo.func is None and clo.frame is not None:
            fr.func = clo.frame.func
            if fr.self_obj is None:
                fr.self_obj = clo.frame.self_obj
        saved = self.frame
        self.frame = fr
        self.stack.append(key)
        self.frames.append(fr)
        memo = isinstance(node, ast.FunctionDef) and is_memoised(node)
        if memo:
            # functools.lru_cache / cache: on a cache hit the body does not run, so none of its
            # effects (writes to module globals, attributes) happen; the state after the call is
            # phi(miss?, state after the body, state before the call).
            saved_locals = saved.locals if saved is not None else None
            pre = (dict(saved_locals) if saved_locals is not None else {},
                   {k: dict(v) for k, v in self.heap.items()}, dict(self.gvars))
        try:
            if isinstance(node, ast.Lambda):
                return self.eval(node.body)
            out = self.exec_block(node.body)
            if out == 'fall':
                fr.returns.append((tuple(fr.conds), self.const(None)))
            ret = self.join_returns(fr, at)
            if memo:
                miss = self.mk('call', 'cache-miss', args=list(args), at=at)
                post = (pre[0], {k: dict(v) for k, v in self.heap.items()}, dict(self.gvars))
                keep = self.frame
                self.frame = fr          # merge() writes frame locals: use the dying frame
                try:
                    self.merge(miss, post, pre)
                finally:
                    self.frame = keep
                self.memo_calls.append((clo.func, at))
            return ret
        finally:
            self.stack.pop()
            self.frames.pop()
            self.frame = saved

    def join_returns(self, fr, at):
        rets = fr.returns
        if not rets:
            return self.unknown('no return (always raises)', at)
        # drop implicit None when explicit values exist
        vals = [r for r in rets if not (r[1].kind == 'const' and r[1].val is None)]
        if not vals:
            return rets[-1][1]
        res = vals[-1][1]
        for conds, v in reversed(vals[:-1]):
            if v is res:
                continue
            c = self.conj(conds)
            res = self.mk('phi', args=[c, v, res], at=at)
        return res

    def conj(self, conds):
        if not conds:
            return self.const(True)
        parts = []
        for c, pol in conds:
            parts.append(c if pol else self.mk('unop', 'not', [c]))
        if len(parts) == 1:
            return parts[0]
        return self.mk('bool', 'and', parts)

    # -- statements ------------------------------------------------------
    def exec_block(self, stmts):
        for st in stmts:
            out = self.exec_stmt(st)
            if out != 'fall':
                return out
        return 'fall'

    def exec_stmt(self, st):
        meth = getattr(self, 's_' + type(st).__name__, None)
        if meth is None:
            self.notes.append('unsupported statement %s' % type(st).__name__)
            return 'fall'
        return meth(st) or 'fall'

    def s_Expr(self, st):
        v = st.value
        if isinstance(v, ast.Call) and isinstance(v.func, ast.Attribute):
            name = v.func.attr
            if name in MUTATING_LIST_METHODS | {'fill', 'update'}:
                recv_ast = v.func.value
                recv = self.eval(recv_ast)
                if recv.kind not in ('obj', 'module', 'class', 'closure', 'extfunc', 'super'):
                    args = [self.eval(a) for a in v.args]
                    self.mutations.append(('in-place method %s()' % name, recv, v, self.frame.func))
                    if name == 'update' and recv.kind == 'dict' and len(args) == 1 \
                            and args[0].kind == 'dict':
                        keys = list(recv.val)
                        vals = list(recv.args)
                        for k2, v2 in zip(args[0].val, args[0].args):
                            if k2 in keys:
                                vals[keys.index(k2)] = v2
                            else:
                                keys.append(k2)
                                vals.append(v2)
                        new = self.mk('dict', keys, vals, at=st)
                    else:
                        idx = self.const(None)
                        val = args[-1] if args else self.const(None)
                        new = self.mk('store', name, [recv, idx, val], at=st)
                    self.assign(recv_ast, new, rebinding=True)
                    return 'fall'
        self.eval(v)
        return 'fall'

    def s_Assign(self, st):
        v = self.eval(st.value)
        for t in st.targets:
            self.assign(t, v)
        return 'fall'

    def s_AnnAssign(self, st):
        if st.value is not None:
            self.assign(st.target, self.eval(st.value))
        return 'fall'

    def s_AugAssign(self, st):
        cur = self.eval(_as_load(st.target))
        v = self.eval(st.value)
        op = BINOPS.get(type(st.op), '?')
        self.mutations.append(('augmented assignment', cur, st, self.frame.func))
        new = self.binop(op, cur, v, st)
        self.assign(st.target, new)
        if isinstance(st.target, ast.Name) and arrayish(cur):
            # `x += ..` on a numpy array updates the array object in place: every other name / attribute /
            # global that holds the SAME array value (an alias, e.g. `x = self.grid`) sees the update
            for oid, h in self.heap.items():
                for k, val in list(h.items()):
                    if val is cur:
                        h[k] = new
                        self.alias_updates.append((('heap', oid, k), st, self.frame.func))
            for k, val in list(self.gvars.items()):
                if val is cur:
                    self.gvars[k] = new
                    self.alias_updates.append((k, st, self.frame.func))
            fr = self.frame
            while fr is not None:
                for k, val in list(fr.locals.items()):
                    if val is cur:
                        fr.locals[k] = new
                fr = fr.parent
        return 'fall'

    def assign(self, t, v, rebinding=False):
        if isinstance(t, ast.Name):
            f = self.frame
            self.assign_log.append((f.func, t, v))
            if t.id in f.globals_decl:
                self.gvars[(f.module.name, t.id)] = v
            elif rebinding and t.id not in f.locals:
                # in-place update (x[k] = .., x.append(..)) of an object reached through an
                # enclosing scope or a module global: the shared object itself changes
                fr = f.parent
                while fr is not None:
                    if t.id in fr.locals:
                        fr.locals[t.id] = v
                        return
                    fr = fr.parent
                r = self.model.resolve(f.module, t.id)
                if r is not None and r[0] == 'var':
                    self.gvars[(r[1].name, r[2])] = v
                else:
                    f.locals[t.id] = v
            else:
                f.locals[t.id] = v
        elif isinstance(t, (ast.Tuple, ast.List)):
            n = len(t.elts)
            for i, e in enumerate(t.elts):
                if isinstance(e, ast.Starred):
                    self.assign(e.value, self.mk('sub', args=[v, self.unknown('star')], at=t))
                else:
                    self.assign(e, self.subscript(v, self.const(i), t))
        elif isinstance(t, ast.Attribute):
            base = self.eval(t.value)
            if rebinding and base.kind == 'obj' and t.attr not in self.heap.get(base.val.oid, {}):
                # in-place update (x.update(..), x.append(..), x[k] = ..) of an object that the
                # instance only INHERITS from its class: the class-level object itself changes,
                # for every instance
                owner, val = base.val.cls.find_attr(t.attr)
                if owner is not None:
                    self.gvars[('classattr', owner.fullname, t.attr)] = v
                    return
            self.set_attr(base, t.attr, v, t)
        elif isinstance(t, ast.Subscript):
            base = self.eval(t.value)
            idx = self.eval(t.slice)
            if base.kind == 'dict' and idx.kind == 'const':
                keys, vals = list(base.val), list(base.args)
                if idx.val in keys:
                    vals[keys.index(idx.val)] = v
                else:
                    keys.append(idx.val)
                    vals.append(v)
                new = self.mk('dict', keys, vals, at=t)
                self.mutations.append(('subscript store', base, t, self.frame.func))
            else:
                new = self.mk('store', None, [base, idx, v], at=t)
                self.mutations.append(('subscript store', base, t, self.frame.func))
                # a store through a row / element view also changes the array the view was taken
                # from; the builder does not model that aliasing: remember the underlying array
                vb = base
                through_iteration = False
                while vb.kind in ('elem', 'sub') and vb.args:
                    through_iteration = through_iteration or vb.kind == 'elem'
                    vb = vb.args[0]
                    if through_iteration:
                        self.view_mutated.add(vb.nid)
            if base.kind in ('obj', 'module', 'class'):
                return
            self.assign(t.value, new, rebinding=True)
        elif isinstance(t, ast.Starred):
            self.assign(t.value, v)

    def s_Return(self, st):
        v = self.eval(st.value) if st.value is not None else self.const(None)
        self.frame.returns.append((tuple(self.frame.conds), v))
        return 'return'

    def s_Raise(self, st):
        if st.exc is not None:
            self.eval(st.exc)
        return 'raise'

    def s_Pass(self, st):
        return 'fall'

    def s_Break(self, st):
        if self.frame.loops:
            self.frame.loops[-1]['breaks'].append((self.snapshot(), self._loop_conds()))
        return 'break'

    def s_Continue(self, st):
        if self.frame.loops:
            self.frame.loops[-1]['continues'].append((self.snapshot(), self._loop_conds()))
        return 'continue'

    def _loop_conds(self):
        """The condition (since the loop body was entered) under which control reaches this break / continue."""
        lp = self.frame.loops[-1]
        conds = list(self.frame.conds[lp.get('depth', 0):])
        return self.conj(conds) if conds else None

    def s_Global(self, st):
        self.frame.globals_decl.update(st.names)
        return 'fall'

    def s_Nonlocal(self, st):
        self.notes.append('nonlocal ignored')
        return 'fall'

    def s_Delete(self, st):
        return 'fall'

    def s_Assert(self, st):
        self.eval(st.test)
        return 'fall'

    def s_Import(self, st):
        self.model._bind_import(self.frame.module, st, self.frame.local_imports)
        self._globalise_imports(st)
        return 'fall'

    def s_ImportFrom(self, st):
        self.model._bind_import(self.frame.module, st, self.frame.local_imports)
        self._globalise_imports(st)
        return 'fall'

    def _globalise_imports(self, st):
        f = self.frame
        for al in st.names:
            local = (al.asname or al.name).split('.')[0]
            if local in f.globals_decl and local in f.local_imports:
                self.gvars[(f.module.name, local)] = self.entity(f.local_imports.pop(local), st)

    def s_FunctionDef(self, st):
        fi = FuncInfo(st.name, st, self.frame.module, parent=self.frame.func)
        self.frame.locals[st.name] = self.mk('closure', Closure(fi, st, self.frame, cls=self.frame.cls,
                                                               module=self.frame.module), at=st)
        return 'fall'

    def s_ClassDef(self, st):
        self.notes.append('local class ignored')
        return 'fall'

    def s_With(self, st):
        for it in st.items:
            v = self.eval(it.context_expr)
            if it.optional_vars is not None:
                self.assign(it.optional_vars, v)
        return self.exec_block(st.body)

    def s_If(self, st):
        c = self.eval(st.test)
        if c.kind == 'const' and isinstance(c.val, (bool, int)) and not isinstance(c.val, str):
            return self.exec_block(st.body if c.val else st.orelse)
        f = self.frame
        s0 = self.snapshot()
        f.conds.append((c, True))
        o1 = self.exec_block(st.body)
        f.conds.pop()
        s1 = self.snapshot()
        self.restore(s0)
        f.conds.append((c, False))
        o2 = self.exec_block(st.orelse)
        f.conds.pop()
        s2 = self.snapshot()
        live1 = o1 == 'fall'
        live2 = o2 == 'fall'
        if live1 and live2:
            self.merge(c, s1, s2)
            return 'fall'
        if live1:
            self.restore(s1)
            return 'fall'
        if live2:
            self.restore(s2)
            return 'fall'
        # both arms terminated
        if o1 == o2:
            return o1
        if 'return' in (o1, o2):
            return 'return' if 'raise' in (o1, o2) else o1
        return o1

    def s_Try(self, st):
        s0 = self.snapshot()
        o = self.exec_block(st.body)
        if o == 'fall':
            o = self.exec_block(st.orelse)
        s_body = self.snapshot()
        outs = [(o, s_body)]
        for h in st.handlers:
            self.restore(s0)
            # the body may have run partially: join with its final state
            if h.name:
                self.frame.locals[h.name] = self.unknown('exception')
            if h.type is not None:
                self.eval(h.type)
            oh = self.exec_block(h.body)
            outs.append((oh, self.snapshot()))
        live = [s for (oo, s) in outs if oo == 'fall']
        if not live:
            res = outs[0][0]
        else:
            self.restore(live[0])
            for s in live[1:]:
                cur = self.snapshot()
                self.merge(self.unknown('exception raised'), cur, s)
            # partially executed body: every name the body assigns may also
            # keep its handler-path value -- already joined above
            res = 'fall'
        if st.finalbody:
            of = self.exec_block(st.finalbody)
            if of != 'fall':
                return of
        return res

    # loops ------------------------------------------------------------------
    def bind_loop_target(self, target, it, iter_ast):
        v = self.loop_element(it, iter_ast)
        self.assign(target, v)

    def loop_element(self, it, at):
        if it.kind == 'call':
            nm = it.val
            if nm == 'builtins.range':
                return self.mk('index', args=list(it.args), at=at)
            if nm == 'builtins.enumerate' and it.args:
                return self.mk('tuple', args=[self.mk('index', at=at), self.loop_element(it.args[0], at)], at=at)
            if nm == 'builtins.zip':
                return self.mk('tuple', args=[self.loop_element(a, at) for a in it.args], at=at)
            if nm in ('builtins.reversed', 'builtins.sorted', 'builtins.list', 'builtins.tuple') and it.args:
                return self.loop_element(it.args[0], at)
        if it.kind in ('tuple', 'list') and it.args:
            # heterogeneous literal: join of the elements
            res = it.args[0]
            for a in it.args[1:]:
                if a is not res:
                    res = self.mk('phi', args=[self.unknown('loop element'), res, a], at=at)
            return res
        if it.kind == 'mcall' and it.val in ('items',) and it.args and it.args[0].kind == 'dict':
            d = it.args[0]
            return self.loop_element(self.mk('list', args=[
                self.mk('tuple', args=[k if isinstance(k, Node) else self.const(k), v])
                for k, v in zip(d.val, d.args)]), at)
        return self.mk('elem', args=[it], at=at)

    def run_loop(self, st, is_for):
        f = self.frame
        body_and_else = st.body
        names, attrs = assigned_names(body_and_else)
        if is_for:
            n2, a2 = assigned_names([ast.Assign(targets=[st.target], value=ast.Constant(0))])
            tnames = n2
        else:
            tnames = set()
        mus = []
        # locals
        for nm in sorted(names - tnames):
            if nm in f.globals_decl:
                key = (f.module.name, nm)
                cur = self.gvars.get(key)
                mu = self.mk('mu', args=[cur if cur is not None else self.undef(), None], at=st)
                self.gvars[key] = mu
                mus.append(('g', key, mu))
            else:
                cur = f.locals.get(nm)
                if cur is None:
                    continue      # first assigned inside the loop: no loop-carried value needed
                mu = self.mk('mu', args=[cur, None], at=st)
                f.locals[nm] = mu
                mus.append(('l', nm, mu))
        # object attributes (self.x[i] = .., self.x += ..)
        for (base, attr) in sorted(attrs):
            b = None
            fr = f
            while fr is not None and b is None:
                b = fr.locals.get(base)
                fr = fr.parent
            if b is not None and b.kind == 'obj':
                h = self.heap.setdefault(b.val.oid, {})
                cur = h.get(attr)
                if cur is None:
                    continue
                mu = self.mk('mu', args=[cur, None], at=st)
                h[attr] = mu
                mus.append(('h', (b.val.oid, attr), mu))
        if is_for:
            it = self.eval(st.iter)
            self.bind_loop_target(st.target, it, st.iter)
        else:
            c = self.eval(st.test)
            f.conds.append((c, True))
        loop = {'breaks': [], 'continues': [], 'depth': len(f.conds)}
        f.loops.append(loop)
        out = self.exec_block(st.body)
        f.loops.pop()
        if not is_for:
            f.conds.pop()
        if out not in ('fall', 'continue'):
            # body always leaves (return/raise/break): state after loop = state before body or break
            pass
        end = self.snapshot()
        # join continue states into the back edge
        for s, c in loop['continues']:
            cur = self.snapshot()
            if c is not None:
                self.merge(c, s, cur)            # the state at the `continue` is the one reached when its condition held
            else:
                self.merge(self.unknown('continue'), cur, s)
        for kind, key, mu in mus:
            if kind == 'l':
                nxt = self.frame.locals.get(key)
            elif kind == 'g':
                nxt = self.gvars.get(key)
            else:
                nxt = self.heap.get(key[0], {}).get(key[1])
            mu.args[1] = nxt if (nxt is not None and nxt is not mu) else mu.args[0]
        # after the loop: exit from the head sees the mu values; names first
        # assigned inside the loop keep their body value (zero-trip case ignored,
        # as Python would raise NameError there)
        for kind, key, mu in mus:
            if kind == 'l':
                self.frame.locals[key] = mu
            elif kind == 'g':
                self.gvars[key] = mu
            else:
                self.heap.setdefault(key[0], {})[key[1]] = mu
        for s, c in loop['breaks']:
            cur = self.snapshot()
            if c is not None:
                self.merge(c, s, cur)
            else:
                self.merge(self.unknown('break'), cur, s)
        if st.orelse:
            return self.exec_block(st.orelse)
        return 'fall'

    def s_For(self, st):
        # loops over a literal list/tuple of string constants are unrolled (dict
        # construction idiom: `for var in varnames: d[var] = ...`)
        if not st.orelse and not any(isinstance(n, (ast.Break, ast.Continue)) for b in st.body
                                     for n in ast.walk(b)):
            saved_trace_len = len(self.trace)
            it = self.eval(st.iter)
            if it.kind in ('list', 'tuple') and 0 < len(it.args) <= 24 and \
                    all(a.kind == 'const' and isinstance(a.val, str) for a in it.args):
                for a in it.args:
                    self.assign(st.target, a)
                    out = self.exec_block(st.body)
                    if out != 'fall':
                        return out
                return 'fall'
        return self.run_loop(st, True)

    def s_While(self, st):
        return self.run_loop(st, False)

    # -- entry points ------------------------------------------------------
    def run_function(self, fi, args, self_node=None):
        """Interpret function `fi` with the given argument nodes."""
        self.frame = Frame(None, fi.module, {}, None)
        clo = Closure(fi, fi.node, None, self_node=self_node, cls=fi.cls, module=fi.module)
        return self.call_closure(clo, list(args), {}, fi.node)

    def make_input(self, name):
        self.frame = self.frame or None
        n = Node('input', name)
        self.trace.append(n)
        return n

    def op_construct(self, cls, ctor_args=None, label=''):
        """Operation: construct a symbolic instance of cls.  ctor_args: dict of
        explicit constructor arguments (Nodes)."""
        self.frame = Frame(None, cls.module, {}, None)
        op = self.begin_op('construct %s%s' % (cls.name, label))
        kwn = self.mk('kwargs')
        kw = {'**': kwn}
        # explicit constructor parameters without a default (e.g. the EOS object of the black-box
        # Noh solvers): symbolic values that belong to the instance about to be created
        owned = [kwn]
        init = cls.find_method('__init__')
        if init is not None:
            a = init.node.args
            pos = a.posonlyargs + a.args
            nodef = len(pos) - len(a.defaults)
            for i, prm in enumerate(pos[1:], start=1):
                if i < nodef and prm.arg not in (ctor_args or {}):
                    pn = self.mk('param', 'ctor:' + prm.arg)
                    kw[prm.arg] = pn
                    owned.append(pn)
        kw.update(ctor_args or {})
        Obj._count += 1
        for n in owned:
            n.owner = Obj._count        # they belong to the instance about to be created
        Obj._count -= 1
        objn = self.instantiate(cls, symbolic=True, kw=kw)
        for n in owned:
            n.owner = objn.val.oid
        self.ops[op]['instance'] = objn.val.oid
        return objn, op

    def op_run(self, objn, label=''):
        cls = objn.val.cls
        runm = cls.find_method('_run')
        if runm is None:
            raise AnalysisError('no _run on %s' % cls.fullname)
        op = self.begin_op('call %s%s' % (cls.name, label), objn.val.oid)
        r = self.mk('input', 'r' + label)
        t = self.mk('input', 't' + label)
        self.frame = Frame(None, cls.module, {}, None)
        clo = Closure(runm, runm.node, None, self_node=objn, cls=runm.cls, module=runm.module)
        res = self.call_closure(clo, [r, t], {}, runm.node)
        return res, op, (r, t)

    def op_method(self, objn, mname, label=''):
        """Operation: call a public method of an instance with fresh symbolic arguments (a setter)."""
        cls = objn.val.cls
        m = cls.find_method(mname)
        if m is None:
            raise AnalysisError('no %s on %s' % (mname, cls.fullname))
        op = self.begin_op('%s.%s%s' % (cls.name, mname, label), objn.val.oid)
        names = [a.arg for a in m.node.args.args][1:]
        args = [self.mk('input', '%s%s' % (nm, label)) for nm in names]
        self.frame = Frame(None, cls.module, {}, None)
        clo = Closure(m, m.node, None, self_node=objn, cls=m.cls, module=m.module)
        res = self.call_closure(clo, args, {}, m.node)
        return res, op, tuple(args)

    def run_solver(self, cls, run=True, point_name='r', time_name='t'):
        """Symbolic instance of solver class `cls` (every key of `parameters`
        is a Param node), constructor chain, then _run(points, t)."""
        self.frame = Frame(None, cls.module, {}, None)
        objn = self.instantiate(cls, symbolic=True, kw={'**': self.mk('kwargs')})
        res = None
        if run:
            runm = cls.find_method('_run')
            if runm is None:
                raise AnalysisError('no _run on %s' % cls.fullname)
            r = self.make_input(point_name)
            t = self.make_input(time_name)
            self.frame = Frame(None, cls.module, {}, None)
            clo = Closure(runm, runm.node, None, self_node=objn, cls=runm.cls, module=runm.module)
            res = self.call_closure(clo, [r, t], {}, runm.node)
        return objn, res


ARRAY_MAKERS = {
    'numpy.array', 'numpy.asarray', 'numpy.flip', 'numpy.linspace', 'numpy.zeros', 'numpy.ones', 'numpy.empty',
    'numpy.arange', 'numpy.copy', 'numpy.concatenate', 'numpy.append', 'numpy.sort', 'numpy.full', 'numpy.zeros_like',
    'numpy.ones_like', 'numpy.empty_like', 'numpy.full_like', 'numpy.logspace', 'numpy.meshgrid', 'numpy.reshape',
    'numpy.ravel', 'numpy.hstack', 'numpy.vstack', 'numpy.cumsum', 'numpy.diff', 'numpy.interp', 'numpy.atleast_1d',
    'numpy.flipud', 'numpy.fliplr', 'numpy.roll', 'numpy.tile', 'numpy.repeat',
}


def arrayish(n, depth=0):
    """Conservatively: is this value certainly a numpy array (so that `+=` acts in place)?"""
    if n is None or depth > 12:
        return False
    k = n.kind
    if k == 'call':
        return n.val in ARRAY_MAKERS
    if k in ('store', 'arrayof'):
        return True
    if k == 'input':
        return str(n.val).startswith('r')
    if k in ('binop', 'unop'):
        return any(arrayish(a, depth + 1) for a in n.args if isinstance(a, Node))
    if k == 'sub':
        return n.args[1].kind == 'slice' and arrayish(n.args[0], depth + 1)
    if k == 'mcall':
        return n.val in ('copy', 'astype', 'flatten', 'ravel', 'reshape') and arrayish(n.args[0], depth + 1)
    if k == 'phi':
        return arrayish(n.args[1], depth + 1) and arrayish(n.args[2], depth + 1)
    if k == 'mu':
        return arrayish(n.args[0], depth + 1)
    return False


def is_memoised(fdef):
    """Decorated with functools.lru_cache / functools.cache (with or without arguments)."""
    for d in fdef.decorator_list:
        f = d.func if isinstance(d, ast.Call) else d
        name = f.attr if isinstance(f, ast.Attribute) else (f.id if isinstance(f, ast.Name) else '')
        if name in ('lru_cache', 'cache', 'cached_property', 'memoize', 'memoized', 'memoise'):
            return True
    return False


def same_cond(a, b, depth=0):
    """Structural equality of two condition nodes (identity shortcut)."""
    if a is b:
        return True
    if depth > 10 or a.kind != b.kind:
        return False
    if a.kind == 'const':
        return type(a.val) is type(b.val) and a.val == b.val
    if a.kind in ('cmp', 'bool', 'unop', 'binop', 'phi', 'sub', 'attr', 'call', 'mcall', 'tuple', 'list'):
        if a.val != b.val or len(a.args) != len(b.args):
            return False
        return all(same_cond(x, y, depth + 1) for x, y in zip(a.args, b.args))
    return False


def implies(known, pol, c, depth=0):
    """Does the known fact (known == pol) decide condition c?  True / False / None."""
    if depth > 6:
        return None
    if same_cond(known, c):
        return pol
    # known: not X
    if known.kind == 'unop' and known.val == 'not':
        return implies(known.args[0], not pol, c, depth + 1)
    if c.kind == 'unop' and c.val == 'not':
        r = implies(known, pol, c.args[0], depth + 1)
        return None if r is None else (not r)
    # known conjunction true / disjunction false decides its members
    if known.kind == 'bool' and ((known.val == 'and' and pol) or (known.val == 'or' and not pol)):
        for x in known.args:
            r = implies(x, pol, c, depth + 1)
            if r is not None:
                return r
    # c conjunction: false if a member is known false; c disjunction: true if a member known true
    if c.kind == 'bool':
        rs = [implies(known, pol, x, depth + 1) for x in c.args]
        if c.val == 'and':
            if any(r is False for r in rs):
                return False
            if all(r is True for r in rs):
                return True
        else:
            if any(r is True for r in rs):
                return True
            if all(r is False for r in rs):
                return False
    # lifted comparisons on a configuration constant: phi trees with constant bool leaves
    if known.kind == 'phi' and c.kind == 'phi':
        return None
    return None


def _as_load(t):
    import copy
    t2 = copy.copy(t)
    t2.ctx = ast.Load()
    return t2


def _py_binop(op, a, b):
    if op == '+':
        return a + b
    if op == '*':
        return a * b
    if op == '%':
        return a % b
    raise ValueError(op)


def _is_num(v):
    return isinstance(v, (int, float)) and not isinstance(v, bool)


def _py_cmp(op, a, b):
    if op == '<':
        return a < b
    if op == '<=':
        return a <= b
    if op == '>':
        return a > b
    if op == '>=':
        return a >= b
    if op == '==':
        return a == b
    if op == '!=':
        return a != b
    if op == 'in':
        return a in b
    if op == 'not in':
        return a not in b
    raise ValueError(op)


_EXT_ALIASES = {
    'numpy.core.records.fromarrays': 'numpy.rec.fromarrays',
    'scipy.optimize.zeros.bisect': 'scipy.optimize.bisect',
    'numpy.math': 'math',
    'numpy.lib.scimath.sqrt': 'numpy.sqrt',
    'numpy.power': 'builtins.pow',
    'numpy.absolute': 'numpy.abs',
    'numpy.fabs': 'numpy.abs',
    'scipy.special.i0': 'scipy.special.i0',
}


def canonical_ext(name):
    return _EXT_ALIASES.get(name, name)


def walk(node, seen=None):
    """All nodes reachable from `node` (args, kw, ho results)."""
    if seen is None:
        seen = set()
    stack = [node]
    while stack:
        n = stack.pop()
        if n is None or not isinstance(n, Node) or n.nid in seen:
            continue
        seen.add(n.nid)
        yield n
        stack.extend(a for a in n.args if isinstance(a, Node))
        stack.extend(a for a in n.kw.values() if isinstance(a, Node))
        if n.kind == 'dict':
            stack.extend(k for k in n.val if isinstance(k, Node))
        if n.ho:
            if n.ho.get('result') is not None:
                stack.append(n.ho['result'])
