"""Shared driver: value graph of one solver class -> dimension system -> findings."""
import json
import os

from .model import AnalysisError
from .vg import Builder, walk
from .dim import DimSystem, DimEval, Lin, POLY, BASE_UNITS
from .report import Finding, VERIF


def load_spec(name):
    with open(os.path.join(VERIF, 'spec', name)) as f:
        return json.load(f)


def leaves_of(node, limit=4000):
    names = set()
    cnt = 0
    for n in walk(node):
        cnt += 1
        if cnt > limit:
            break
        if n.kind in ('param', 'input'):
            names.add(str(n.val))
    return sorted(names)


def residual_text(S, inc):
    d = inc.residual
    neg = S.scale(d, -S.one)
    a, b = S.show(d), S.show(neg)
    return min(a, b)


def analyse_class(model, cls, input_dims_spec=None, output_spec=None, units=BASE_UNITS,
                  param_dims_spec=None, extra_symbols=(), point_name='r', time_name='t',
                  run=True, const_dims_spec=None):
    """Build the value graph of `cls` (constructor chain + _run) and run the
    dimension fold over every node.  Returns (builder, system, evaluator)."""
    b = Builder(model)
    obj, res = b.run_solver(cls, run=run, point_name=point_name, time_name=time_name)
    keys = model.parameters_keys(cls) or []
    S = DimSystem(list(keys) + list(extra_symbols), units=units)
    outd = {}
    for k, v in (output_spec or {}).items():
        if not k.startswith('_'):
            outd[k] = S.from_spec(v)
    ind = {k: S.from_spec(v) for k, v in (input_dims_spec or {}).items()}
    pd = {k: S.from_spec(v) for k, v in (param_dims_spec or {}).items()}
    ev = DimEval(S, input_dims=ind, output_dims=outd, param_dims=pd)
    ev.run(b.trace)
    return b, S, ev


def findings_from(S, ev, prop, rule, result, scope_files=None):
    for inc in (S.blame() if S.inconsistencies else []):
        n = inc.node
        if n is None:
            continue
        file, qual, line = n.where
        res = residual_text(S, inc)
        S_show = S.show
        leaves = leaves_of(n)
        detail = '%s; residual %s; over %s' % (inc.what, res, ','.join(leaves))
        msg = ('dimension mismatch in %s: %s vs %s (quantities involved: %s)'
               % (inc.what, S.show(inc.lhs), S.show(inc.rhs), ', '.join(leaves)))
        result.add(Finding(prop, rule, file, qual, detail, msg, line=line, construct=n.src))
