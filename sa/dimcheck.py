"""Shared driver: value graph of one solver class -> dimension system -> findings."""
import json
import os

from .model import AnalysisError
from .vg import Builder, walk
from .dim import DimSystem, DimEval, Lin, POLY, BASE_UNITS
from .report import Finding, VERIF


def load_spec(name):
    with open(os.path.join(VERIF, 'spec', name)) as f:
        return json.load(f)


def leaves_of(node, limit=4000):
    """Parameters / inputs the value of `node` is computed from (data dependence
    only: conditions of phi nodes are not followed, so that the set does not
    depend on how the surrounding control flow is written)."""
    names = set()
    seen = set()
    stack = [node]
    cnt = 0
    while stack and cnt < limit:
        n = stack.pop()
        if n is None or n.nid in seen:
            continue
        seen.add(n.nid)
        cnt += 1
        if n.kind in ('param', 'input'):
            names.add(str(n.val))
        args = n.args[1:] if n.kind == 'phi' else n.args
        stack.extend(a for a in args if a is not None)
        stack.extend(a for a in n.kw.values() if a is not None)
        if n.ho and n.ho.get('result') is not None:
            stack.append(n.ho['result'])
    return sorted(names)


def residual_text(S, inc):
    d = inc.residual
    neg = S.scale(d, -S.one)
    a, b = S.show(d), S.show(neg)
    return min(a, b)


def seed_nodes(builder, seeds):
    """seeds: {'module:function': {'var': spec}} -> [(node, spec)] for the value
    expression of every plain assignment `var = ...` in that function."""
    import ast
    out = []
    if not seeds:
        return out
    want = {}
    for fname, vars_ in seeds.items():
        fi = builder.model.get_func(fname)
        found = set()
        for st in ast.walk(fi.node):
            if isinstance(st, ast.Assign) and len(st.targets) == 1 and isinstance(st.targets[0], ast.Name) \
                    and st.targets[0].id in vars_:
                want[id(st.value)] = vars_[st.targets[0].id]
                found.add(st.targets[0].id)
            elif isinstance(st, ast.Assign) and len(st.targets) == 1 and isinstance(st.targets[0], ast.Attribute) \
                    and ast.unparse(st.targets[0]) in vars_:
                want[id(st.value)] = vars_[ast.unparse(st.targets[0])]      # `self.c = <literal>`
                found.add(ast.unparse(st.targets[0]))
        missing = set(vars_) - found
        if missing:
            raise AnalysisError('seed variable(s) %s vanished from %s' % (sorted(missing), fname))
    for n in builder.trace:
        if n.origin is not None and n.origin[1] is not None and id(n.origin[1]) in want:
            out.append((n, want[id(n.origin[1])]))
    return out


def analyse_class(model, cls, input_dims_spec=None, output_spec=None, units=BASE_UNITS,
                  param_dims_spec=None, extra_symbols=(), point_name='r', time_name='t',
                  run=True, const_dims_spec=None, opaque=None, seeds=None, all_params=None):
    """Build the value graph of `cls` (constructor chain + _run) and run the
    dimension fold over every node.  Returns (builder, system, evaluator)."""
    b = Builder(model)
    for fname in (opaque or {}):
        model.get_func(fname)        # anchor must exist
    b.opaque = dict(opaque or {})
    obj, res = b.run_solver(cls, run=run, point_name=point_name, time_name=time_name)
    keys = model.parameters_keys(cls) or []
    extra_symbols = list(extra_symbols) + list((opaque or {}).values())
    S = DimSystem(list(keys) + list(extra_symbols), units=units)
    if all_params is not None:
        param_dims_spec = dict({k: all_params for k in list(keys) + list((opaque or {}).values())},
                               **(param_dims_spec or {}))
    else:
        param_dims_spec = dict({k: '1' for k in (opaque or {}).values()}, **(param_dims_spec or {}))
    outd = {}
    for k, v in (output_spec or {}).items():
        if not k.startswith('_'):
            outd[k] = S.from_spec(v)
    ind = {k: S.from_spec(v) for k, v in (input_dims_spec or {}).items()}
    pd = {k: S.from_spec(v) for k, v in (param_dims_spec or {}).items()}
    ev = DimEval(S, input_dims=ind, output_dims=outd, param_dims=pd)
    for node, spec in seed_nodes(b, seeds):
        ev.memo[node.nid] = S.from_spec(spec)
        ev.seeded = getattr(ev, 'seeded', 0) + 1
    ev.run(b.trace)
    return b, S, ev


def analyse_function(model, fname, arg_dims_spec, units=BASE_UNITS, seeds=None, opaque=None, symbols=(),
                     self_cls=None, self_params=(), param_dims_spec=None):
    """Dimension fold over ONE function interpreted for symbolic arguments.
    arg_dims_spec: {argument name: spec or None (unknown)}."""
    fi = model.get_func(fname)
    b = Builder(model)
    for f in (opaque or {}):
        model.get_func(f)
    b.opaque = dict(opaque or {})
    from .vg import Frame
    b.frame = Frame(None, fi.module, {}, None)
    args = []
    names = [a.arg for a in fi.node.args.args]
    self_node = None
    for nm in names:
        if nm == 'self' and self_cls is not None:
            self_node = b.symbolic_obj(self_cls, list(self_params))
            continue
        args.append(b.mk('input', nm))
    ret = b.run_function(fi, args, self_node=self_node)
    S = DimSystem(list(symbols) + list(self_params) + list((opaque or {}).values()), units=units)
    ind = {}
    for nm, spec in (arg_dims_spec or {}).items():
        if nm not in names:
            raise AnalysisError('argument %s vanished from %s' % (nm, fname))
        if spec is not None:
            ind[nm] = S.from_spec(spec)
    pd = {k: S.from_spec(v) for k, v in (param_dims_spec or {}).items()}
    for k in (opaque or {}).values():
        pd.setdefault(k, S.dimless())
    ev = DimEval(S, input_dims=ind, param_dims=pd)
    for node, spec in seed_nodes(b, seeds):
        ev.memo[node.nid] = S.from_spec(spec)
        S.note_prescribed(ev.memo[node.nid])
        ev.seeded = getattr(ev, 'seeded', 0) + 1
    ev.run(b.trace)
    return b, S, ev, ret


def findings_from(S, ev, prop, rule, result, scope_files=None):
    if not S.inconsistencies:
        return
    nocarrier, drop = S.no_carrier()
    hints = {}
    if drop:
        # probable cause: where anchored propagation first meets the unit
        units = {S.units.index(u) for _, _, u, _, _ in nocarrier}
        for inc in S.blame():
            for ui in units:
                if inc.residual.c[ui] != S.zero and ui not in hints and inc.node is not None:
                    hints[ui] = '%s:%d `%s`' % (inc.node.where[0], inc.node.where[2], inc.node.src[:80].replace('\n', ' '))
    for what, n, unit, have, want in nocarrier:
        file, qual, line = n.where if n is not None else ('?', '?', 0)
        detail = '%s; no input can carry unit %s' % (what, unit)
        msg = ('%s: the field needs %s^%s but every expression it is built from has %s^%s whatever '
               'dimensions the parameters are given: no input carries this unit, so the field cannot follow '
               'a change of it' % (what, unit, want.as_expr(), unit, have.as_expr()))
        if S.units.index(unit) in hints:
            msg += '; anchored propagation first meets the conflict at ' + hints[S.units.index(unit)]
        result.add(Finding(prop, rule.split('.')[0] + '.no-scale-carrier', file, qual, detail, msg, line=line,
                           construct=n.src if n is not None else ''))
    for inc in S.blame(drop):
        n = inc.node
        if n is None:
            continue
        file, qual, line = n.where
        res = residual_text(S, inc)
        leaves = leaves_of(n)
        detail = '%s; residual %s; over %s' % (inc.what, res, ','.join(leaves))
        msg = ('dimension mismatch in %s: %s vs %s (quantities involved: %s)'
               % (inc.what, S.show(inc.lhs), S.show(inc.rhs), ', '.join(leaves)))
        result.add(Finding(prop, rule, file, qual, detail, msg, line=line, construct=n.src))
