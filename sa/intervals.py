"""Finite unions of real intervals with open/closed endpoints (C20 guard algebra).

A set is a sorted list of disjoint pieces (lo, lo_closed, hi, hi_closed);
points are degenerate closed intervals.  Exact on the finitely many endpoints
that occur: inclusion is decided by complement/intersection, no solver.
"""
import math

INF = math.inf


class ISet:
    def __init__(self, pieces=()):
        self.p = self._norm(list(pieces))

    # -- constructors ------------------------------------------------------
    @staticmethod
    def all():
        return ISet([(-INF, False, INF, False)])

    @staticmethod
    def empty():
        return ISet([])

    @staticmethod
    def point(c):
        return ISet([(c, True, c, True)])

    @staticmethod
    def points(cs):
        return ISet([(c, True, c, True) for c in cs])

    @staticmethod
    def cmp(op, c):
        """{x : x op c}"""
        if op == '<':
            return ISet([(-INF, False, c, False)])
        if op == '<=':
            return ISet([(-INF, False, c, True)])
        if op == '>':
            return ISet([(c, False, INF, False)])
        if op == '>=':
            return ISet([(c, True, INF, False)])
        if op == '==':
            return ISet.point(c)
        if op == '!=':
            return ISet.point(c).complement()
        raise ValueError(op)

    @staticmethod
    def parse(text):
        """'(0,inf)', '[0,1)', '{1,2,3}', '!=0', unions with 'U'."""
        text = text.strip()
        if ' U ' in text:
            out = ISet.empty()
            for part in text.split(' U '):
                out = out.union(ISet.parse(part))
            return out
        if text.startswith('!='):
            return ISet.point(_num(text[2:])).complement()
        if text.startswith('{'):
            return ISet.points([_num(x) for x in text.strip('{}').split(',') if x.strip()])
        lo_c = text[0] == '['
        hi_c = text[-1] == ']'
        a, b = text[1:-1].split(',')
        return ISet([(_num(a), lo_c, _num(b), hi_c)])

    # -- algebra -------------------------------------------------------------
    @staticmethod
    def _norm(pieces):
        ps = []
        for lo, lc, hi, hc in pieces:
            if lo > hi or (lo == hi and not (lc and hc)):
                continue
            if lo == -INF:
                lc = False
            if hi == INF:
                hc = False
            ps.append((lo, lc, hi, hc))
        ps.sort(key=lambda q: (q[0], not q[1]))
        out = []
        for q in ps:
            if out:
                lo, lc, hi, hc = out[-1]
                # overlap or touch?
                if q[0] < hi or (q[0] == hi and (hc or q[1])):
                    if q[2] > hi or (q[2] == hi and q[3] and not hc):
                        out[-1] = (lo, lc, q[2], q[3])
                    continue
            out.append(q)
        return out

    def union(self, other):
        return ISet(self.p + other.p)

    def complement(self):
        out = []
        cur, cur_c = -INF, False      # start of the next gap; cur_c: gap includes cur
        for lo, lc, hi, hc in self.p:
            out.append((cur, cur_c, lo, not lc))
            cur, cur_c = hi, not hc
        out.append((cur, cur_c, INF, False))
        return ISet(out)

    def intersect(self, other):
        return self.complement().union(other.complement()).complement()

    def minus(self, other):
        return self.intersect(other.complement())

    def negate(self):
        """{-x : x in self}"""
        return ISet([(-hi, hc, -lo, lc) for lo, lc, hi, hc in self.p])

    def is_empty(self):
        return not self.p

    def subset_of(self, other):
        return self.minus(other).is_empty()

    def contains(self, x):
        for lo, lc, hi, hc in self.p:
            if (lo < x or (lo == x and lc)) and (x < hi or (x == hi and hc)):
                return True
        return False

    def __eq__(self, other):
        return self.p == other.p

    def __repr__(self):
        if not self.p:
            return '{}'
        parts = []
        for lo, lc, hi, hc in self.p:
            if lo == hi:
                parts.append('{%s}' % _fmt(lo))
            else:
                parts.append('%s%s,%s%s' % ('[' if lc else '(', _fmt(lo), _fmt(hi), ']' if hc else ')'))
        return ' U '.join(parts)


def _fmt(x):
    if x == INF:
        return 'inf'
    if x == -INF:
        return '-inf'
    if float(x).is_integer():
        return str(int(x))
    return repr(x)


def _num(s):
    s = s.strip()
    if s in ('inf', '+inf'):
        return INF
    if s == '-inf':
        return -INF
    if 'pi' in s:
        return float(eval(s, {'__builtins__': {}}, {'pi': math.pi}))
    return float(s)


if __name__ == '__main__':
    a = ISet.parse('(0,inf)')
    assert repr(a.complement()) == '(-inf,0]'
    assert ISet.cmp('<', 0).subset_of(a.complement())
    assert not a.complement().subset_of(ISet.cmp('<', 0))
    g = ISet.points([1, 2, 3]).complement()
    assert g.contains(0) and not g.contains(2) and g.contains(2.5)
    assert ISet.parse('[0,1)').complement() == ISet.cmp('<', 0).union(ISet.cmp('>=', 1))
    assert ISet.parse('!=0').complement() == ISet.point(0)
    assert ISet.parse('(0,inf)').negate() == ISet.parse('(-inf,0)')
    assert ISet.parse('[1,2)').negate() == ISet.parse('(-2,-1]')
    print('ok')
