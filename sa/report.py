"""Findings, known-findings matching, evidence files, exit codes (DESIGN 5)."""
import json
import os
import sys
import time

VERIF = os.path.dirname(os.path.dirname(os.path.abspath(__file__)))
KNOWN_FILE = os.path.join(VERIF, 'known_findings.json')
# self-test / mutant runs redirect their evidence so that committed evidence always comes from /repo itself
EVIDENCE_DIR = os.environ.get('SA_EVIDENCE_DIR') or os.path.join(VERIF, 'evidence')
REPLAY_DIR = os.path.join(EVIDENCE_DIR, 'replay')


class Finding:
    def __init__(self, prop, rule, file, function, detail, message, line=0, construct=''):
        self.prop = prop
        self.rule = rule
        self.file = file
        self.function = function
        self.detail = detail          # stable, line-free discriminator
        self.message = message
        self.line = line              # for humans only
        self.construct = construct    # source of the smallest offending node (humans)

    @property
    def key(self):
        return (self.prop, self.rule, self.file, self.function, self.detail)

    def to_json(self):
        return {'property': self.prop, 'rule': self.rule, 'file': self.file,
                'function': self.function, 'detail': self.detail, 'line': self.line,
                'construct': self.construct, 'message': self.message}

    def __str__(self):
        return '%s:%d: [%s] %s :: %s -- %s' % (self.file, self.line, self.rule, self.function,
                                              self.construct[:140].replace('\n', ' '), self.message)


class Result:
    def __init__(self, prop):
        self.prop = prop
        self.findings = []
        self.obligations = 0
        self.discharged = 0
        self.evaluations = 0
        self.nontrivial = 0
        self.samples = []
        self.analysed = []
        self.notes = []
        self.extra = {}
        self.rule_text = ''
        self.explanation = ''
        self.trusted_base = []
        self.assumptions = []
        self._keys = set()

    def add(self, finding):
        if finding.key in self._keys:
            return
        self._keys.add(finding.key)
        self.findings.append(finding)

    def sample(self, s, limit=16):
        if len(self.samples) < limit:
            self.samples.append(s)


def load_known():
    if not os.path.exists(KNOWN_FILE):
        return {'open': [], 'fixed': []}
    with open(KNOWN_FILE) as f:
        return json.load(f)


def known_key(e):
    return (e['property'], e['rule'], e['file'], e['function'], e['detail'])


def finish(result, tier, t0, level='other', checker_cmd=''):
    """Print report, write evidence + replay, return exit code."""
    prop = result.prop
    known = load_known()
    open_keys = {known_key(e): e for e in known.get('open', []) if e.get('property') == prop}
    new, old = [], []
    for f in result.findings:
        (old if f.key in open_keys else new).append(f)
    for f in old:
        e = open_keys[f.key]
        print('KNOWN-FINDING: property=%s %s' % (prop, e.get('what') or str(f)))
    os.makedirs(REPLAY_DIR, exist_ok=True)
    replay = os.path.join(REPLAY_DIR, '%s.json' % prop)
    if new:
        with open(replay, 'w') as fh:
            json.dump({'property': prop, 'tier': tier, 'findings': [f.to_json() for f in new]}, fh, indent=1)
        for f in new:
            print('FINDING %s' % f)
    elif os.path.exists(replay):
        os.remove(replay)
    wall = time.time() - t0
    cov = {
        'explanation': result.explanation,
        'rule': result.rule_text,
        'obligations': result.obligations,
        'discharged': result.discharged,
        'evaluations': max(result.evaluations, 0),
        'distinct_nontrivial': result.nontrivial,
        'samples': result.samples or ['(none)'],
        'analysed': result.analysed,
        'checker_cmd': checker_cmd,
        'trusted_base': result.trusted_base,
        'known_findings_matched': [f.to_json() for f in old],
        'new_findings': [f.to_json() for f in new],
        'notes': result.notes,
    }
    cov.update(result.extra)
    ev = {
        'property_id': prop,
        'tier': tier,
        'seed': int(os.environ.get('VERIF_SEED', '0') or 0),
        'level': level,
        'coverage': cov,
        'assumptions': result.assumptions,
        'wall_s': round(wall, 3),
        'violations': len(new),
    }
    os.makedirs(EVIDENCE_DIR, exist_ok=True)
    with open(os.path.join(EVIDENCE_DIR, '%s.json' % prop), 'w') as fh:
        json.dump(ev, fh, indent=1, default=str)
    print('%s %s: %d obligations, %d discharged, %d rule instances (%d non-trivial), '
          '%d known finding(s), %d new finding(s), %.1fs'
          % (prop, tier, result.obligations, result.discharged, result.evaluations,
             result.nontrivial, len(old), len(new), wall))
    if new:
        print('VIOLATION property=%s replay=%s' % (prop, replay))
        return 1
    return 0
