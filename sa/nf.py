"""D_nf -- monomial normal forms over the value graph (DESIGN 2.4).

A value is normalised to a sum of monomials  coef * prod(atom ** exponent)
with rational coefficients and exponents in Q(parameters); like terms are
merged, multi-term sums inside products become atoms (no distribution),
`where`/phi become piecewise values whose arithmetic distributes over the
pieces when the conditions are structurally identical.  Local definitions,
helper functions and temporaries have already been expanded by the value-graph
builder, so two expressions have the same normal form iff they are the same
rational-power expression up to commutativity, associativity, cancellation of
equal factors and merging of like terms -- which is every form the "derived
from the other fields" idiom takes in this repository.
"""
from fractions import Fraction

from .dim import DimSystem, DimEval
from .vg import Node


class DiffUnsupported(Exception):
    pass


def _mentions(atom_key, var_key):
    """Does the (composite) atom key mention the variable atom? (token match: param:x is not in param:xd0)"""
    import re
    return re.search(r'(?<![\w])' + re.escape(var_key) + r'(?![\w])', atom_key) is not None


class NaNForm:
    def key(self):
        return 'NAN'


NAN = NaNForm()


class Mono:
    __slots__ = ('coef', 'f')

    def __init__(self, coef, f=None):
        self.coef = coef                  # Fraction
        self.f = f or {}                  # atom key (str) -> exponent (field element)

    def key(self):
        if self.coef == 0:
            return '0'
        fs = '*'.join('%s^(%s)' % (a, e) for a, e in sorted(self.f.items(), key=lambda x: x[0]))
        return '%s*%s' % (self.coef, fs) if fs else str(self.coef)

    def fkey(self):
        return '*'.join('%s^(%s)' % (a, e) for a, e in sorted(self.f.items(), key=lambda x: x[0]))


class Sum:
    __slots__ = ('terms',)

    def __init__(self, terms):
        self.terms = terms                # list of Mono, merged and sorted

    def key(self):
        return '(' + ' + '.join(t.key() for t in self.terms) + ')'


class PW:
    __slots__ = ('ckey', 'a', 'b', 'cnode')

    def __init__(self, ckey, a, b, cnode=None):
        self.ckey = ckey
        self.a = a
        self.b = b
        self.cnode = cnode

    def key(self):
        return 'pw[%s ? %s : %s]' % (self.ckey, self.a.key(), self.b.key())


class Struct:
    """tuple / list of normal forms"""
    __slots__ = ('items',)

    def __init__(self, items):
        self.items = items

    def key(self):
        return '[' + ', '.join(i.key() for i in self.items) + ']'


class NFEval:
    def __init__(self, symbols):
        self.S = DimSystem(list(symbols))
        self.R = DimEval(self.S)
        self.memo = {}
        self.inprogress = set()
        self.one = self.S.one
        self.zero = self.S.zero
        self.opaque_count = 0
        self.sums = {}            # atom key -> Sum (for flattening c*(a+b) inside sums)
        self.funcs = {}           # atom key -> (function name, argument normal form) for atoms that can be differentiated
        self.derivs = {}          # atom key -> {variable key: normal form}: declared derivatives of function symbols (ODE right-hand sides)
        self.split_exp = False         # opt-in: exp of a sum is the product of the exps of its (distributed) monomials
        self.interior_clamps = False   # opt-in: numpy.clip(x, lo, hi) is read as x (identities claimed on the open set where no bound is active)
        self.factor_symbolic = False   # opt-in: sum atoms are made with the symbolic powers of their first term factored out
        self.sample = None        # optional {atom key: number}: a point of the domain, used to orient sum atoms

    # -- constructors ----------------------------------------------------
    def num(self, q):
        return Mono(Fraction(q))

    def atom(self, key):
        return Mono(Fraction(1), {key: self.one})

    # -- algebra (distributing over piecewise values) ----------------------
    def lift2(self, fn, a, b):
        if a is NAN or b is NAN:
            return NAN
        if isinstance(a, PW) and isinstance(b, PW) and a.ckey == b.ckey:
            return self.pw(a.ckey, self.lift2(fn, a.a, b.a), self.lift2(fn, a.b, b.b), a.cnode)
        if isinstance(a, PW):
            return self.pw(a.ckey, self.lift2(fn, a.a, self.restrict(b, a.ckey, True)),
                           self.lift2(fn, a.b, self.restrict(b, a.ckey, False)), a.cnode)
        if isinstance(b, PW):
            return self.pw(b.ckey, self.lift2(fn, self.restrict(a, b.ckey, True), b.a),
                           self.lift2(fn, self.restrict(a, b.ckey, False), b.b), b.cnode)
        if isinstance(a, Struct) or isinstance(b, Struct):
            if isinstance(a, Struct) and isinstance(b, Struct) and len(a.items) == len(b.items):
                return Struct([self.lift2(fn, x, y) for x, y in zip(a.items, b.items)])
            if isinstance(a, Struct):
                return Struct([self.lift2(fn, x, b) for x in a.items])
            return Struct([self.lift2(fn, a, y) for y in b.items])
        return fn(a, b)

    def restrict(self, x, ckey, pol):
        """x on the piece where condition `ckey` has truth value `pol`."""
        if isinstance(x, PW):
            if x.ckey == ckey:
                return self.restrict(x.a if pol else x.b, ckey, pol)
            a = self.restrict(x.a, ckey, pol)
            b = self.restrict(x.b, ckey, pol)
            if a is x.a and b is x.b:
                return x
            return self.pw(x.ckey, a, b, x.cnode)
        if isinstance(x, Struct):
            return Struct([self.restrict(i, ckey, pol) for i in x.items])
        return x

    def pw(self, ckey, a, b, cnode=None):
        if a is not NAN and b is not NAN and a.key() == b.key():
            return a
        return PW(ckey, a, b, cnode)

    def as_mono(self, x):
        if isinstance(x, Mono):
            return x
        if isinstance(x, Sum):
            if len(x.terms) == 1:
                return x.terms[0]
            if self.factor_symbolic:
                # x = m0 * (x / m0) with m0 the parameter-dependent powers of the first term: the terms of a
                # derivative or a residual differ from each other by integer powers only, so the remaining sum
                # has ground exponents and the (expensive) symbolic powers appear once, outside the atom
                m0 = {k: e for k, e in x.terms[0].f.items() if not self._ground_exp(e)}
                if m0:
                    inv0 = Mono(Fraction(1), {k: -e for k, e in m0.items()})
                    rest = None
                    for t in x.terms:
                        q = self.mul(t, inv0)
                        rest = q if rest is None else self.add(rest, q)
                    if isinstance(rest, Sum) and not any(k in t.f and not self._ground_exp(t.f[k])
                                                         for t in rest.terms[:1] for k in m0):
                        self.factor_symbolic = False
                        try:
                            inner = self.as_mono(rest)
                        finally:
                            self.factor_symbolic = True
                        return self.mul(Mono(Fraction(1), m0), inner)
                    if isinstance(rest, Mono):
                        return self.mul(Mono(Fraction(1), m0), rest)
            # factor out the rational content (coefficient of the first term in canonical
            # order) so that (2a+2b), (a+b) and (a/2+b/2) share one atom
            c = abs(x.terms[0].coef)      # positive content only: no sign is pulled out of a root
            if self.sample is not None:
                # a declared sample point of the domain: orient the sum so that the ATOM is positive there
                # (its sign then travels in the rational coefficient, where products cancel it exactly)
                v = self.numeric(x)
                if v is not None and v < 0:
                    c = -c
            if c != 1:
                x = Sum([Mono(t.coef / c, t.f) for t in x.terms])
            k = x.key()
            self.sums[k] = x
            return Mono(c, {k: self.one})
        raise TypeError(x)

    @staticmethod
    def _ground_exp(e):
        try:
            return bool(e.numer.is_ground and e.denom.is_ground)
        except Exception:
            return True

    def numeric(self, x, depth=0):
        """Value of a normal form at the declared sample point (floats; for signs only). Opaque atoms count as
        positive quantities; None if it cannot be evaluated."""
        if depth > 30 or x is NAN or isinstance(x, (PW, Struct)):
            return None
        try:
            if isinstance(x, Sum):
                tot = 0.0
                for t in x.terms:
                    v = self.numeric(t, depth + 1)
                    if v is None:
                        return None
                    tot += v
                return tot
            val = float(x.coef)
            for k, e in x.f.items():
                if k in self.sums:
                    base = self.numeric(self.sums[k], depth + 1)
                elif k in self.sample:
                    base = float(self.sample[k])
                elif k in self.funcs and self.funcs[k][0] == 'exp':
                    import math as _m
                    av = self.numeric(self.funcs[k][1], depth + 1)
                    base = _m.exp(av) if av is not None and abs(av) < 500 else 1.0
                else:
                    base = 1.0
                if base is None:
                    return None
                ex = self._num_exp(e)
                if ex is None:
                    return None
                if base < 0 and ex != int(ex):
                    return None
                if base == 0 and ex < 0:
                    return None
                val *= base ** ex
            return val
        except Exception:
            return None

    def _num_exp(self, e):
        def poly(p):
            tot = 0.0
            for monom, coeff in p.terms():
                t = float(Fraction(int(coeff.numerator), int(coeff.denominator)))
                for g, k in zip(p.ring.gens, monom):
                    if k:
                        v = self.sample.get('param:%s' % g)
                        if v is None:
                            return None
                        t *= float(v) ** k
                tot += t
            return tot
        n, d = poly(e.numer), poly(e.denom)
        if n is None or d is None or d == 0:
            return None
        return n / d

    def mul(self, a, b):
        def f(x, y):
            x, y = self.as_mono(x), self.as_mono(y)
            if x.coef == 0 or y.coef == 0:
                return Mono(Fraction(0))
            fs = dict(x.f)
            for k, e in y.f.items():
                ne = fs.get(k, self.zero) + e
                if ne == self.zero:
                    fs.pop(k, None)
                else:
                    fs[k] = ne
            return Mono(x.coef * y.coef, fs)
        return self.lift2(f, a, b)

    def add(self, a, b, sign=1):
        def f(x, y):
            tx = self.flat_terms(x)
            ty = self.flat_terms(y)
            acc = {}
            order = []
            for t, s in [(t, 1) for t in tx] + [(t, sign) for t in ty]:
                k = t.fkey()
                if k not in acc:
                    acc[k] = Mono(Fraction(0), t.f)
                    order.append(k)
                acc[k] = Mono(acc[k].coef + s * t.coef, t.f)
            terms = [acc[k] for k in sorted(order) if acc[k].coef != 0]
            if not terms:
                return Mono(Fraction(0))
            if len(terms) == 1:
                return terms[0]
            return Sum(terms)
        return self.lift2(f, a, b)

    def flat_terms(self, x):
        """Terms of x with every `c * (sum)^1` term expanded into the sum."""
        out = []
        for t in (x.terms if isinstance(x, Sum) else [x]):
            if isinstance(t, Mono) and len(t.f) == 1:
                (k, e), = t.f.items()
                if e == self.one and k in self.sums:
                    for u in self.sums[k].terms:
                        out.extend(self.flat_terms(Mono(t.coef * u.coef, u.f)))
                    continue
            out.append(t)
        return out

    def power(self, a, e):
        """a ** e with e a field element."""
        def f(x, _):
            x = self.as_mono(x)
            if e == self.zero:
                return Mono(Fraction(1))
            if x.coef == 0:
                return Mono(Fraction(0))
            fs = {k: v * e for k, v in x.f.items()}
            coef = x.coef
            # rational coefficient: exact integer powers only, else keep it as an atom
            q = None
            try:
                if e.numer.is_ground and e.denom.is_ground:
                    q = Fraction(int(e.numer.LC), int(e.denom.LC))
            except Exception:
                q = None
            if coef == 1:
                c2 = Fraction(1)
            elif q is not None and q.denominator == 1 and abs(q.numerator) <= 12:
                c2 = coef ** int(q.numerator)
            else:
                k = 'num(%s)' % coef
                fs[k] = fs.get(k, self.zero) + e
                if fs[k] == self.zero:
                    fs.pop(k)
                c2 = Fraction(1)
            return Mono(c2, fs)
        return self.lift2(f, a, Mono(Fraction(1)))

    def distribute(self, x, depth=0):
        """Products distributed over sum atoms that occur with exponent exactly 1 (recursively): a Sum of monomials."""
        if depth > 12 or x is NAN or isinstance(x, (PW, Struct)):
            return x
        if isinstance(x, Sum):
            out = None
            for t_ in x.terms:
                d = self.distribute(t_, depth + 1)
                out = d if out is None else self.add(out, d)
            return out
        for k, e in x.f.items():
            if k in self.sums and e == self.one:
                rest = Mono(x.coef, {kk: ee for kk, ee in x.f.items() if kk != k})
                out = None
                for t_ in self.sums[k].terms:
                    d = self.distribute(self.mul(rest, t_), depth + 1)
                    out = d if out is None else self.add(out, d)
                return out
        return x

    def exp_atom(self, x):
        """exp(x) as an atom whose argument is remembered (for differentiation)."""
        if self.split_exp:
            # exp(sum_i c_i m_i) = prod_i exp(m_i) ** c_i over the monomials of the fully distributed argument: the
            # map argument -> atoms is additive, so exp(a) exp(b) and exp(a + b) have one normal form
            xs = self.distribute(x)
            terms = xs.terms if isinstance(xs, Sum) else [xs]
            if len(terms) > 1 or (isinstance(xs, Mono) and xs.coef != 1 and xs.f):
                out = self.num(1)
                for t_ in terms:
                    if not t_.f:
                        k0 = 'numpy.exp(%s)' % self.num(1).key()
                        self.funcs[k0] = ('exp', self.num(1))
                        out = self.mul(out, Mono(Fraction(1), {k0: self.S.F(t_.coef)}))
                        continue
                    base = Mono(Fraction(1), t_.f)
                    k0 = 'numpy.exp(%s)' % base.key()
                    self.funcs[k0] = ('exp', base)
                    out = self.mul(out, Mono(Fraction(1), {k0: self.S.F(t_.coef)}))
                return out
        # exp(c * X) = exp(X) ** c with c the rational content (and sign) of the argument, so that exp(X),
        # exp(-2 X) and exp(X / 2) share one atom
        m = self.as_mono(x)
        c = m.coef
        if c != 1 and c != 0 and m.f:
            x = Mono(Fraction(1), m.f)
            key = 'numpy.exp(%s)' % x.key()
            self.funcs[key] = ('exp', x)
            return Mono(Fraction(1), {key: self.S.F(c)})
        key = 'numpy.exp(%s)' % x.key()
        self.funcs[key] = ('exp', x)
        return self.atom(key)

    def is_zero(self, x):
        return isinstance(x, Mono) and x.coef == 0

    # -- syntax-directed differentiation of a normal form ----------------------
    def field_nf(self, e):
        """A parameter-field element (an exponent) as a normal form over the atoms param:<name>."""
        def poly(p):
            out = self.num(0)
            for monom, coeff in p.terms():
                t = self.num(Fraction(int(coeff.numerator), int(coeff.denominator)))
                for g, k in zip(p.ring.gens, monom):
                    if k:
                        t = self.mul(t, self.power(self.atom('param:%s' % g), self.S.F(int(k))))
                out = self.add(out, t)
            return out
        n, d = poly(e.numer), poly(e.denom)
        if isinstance(d, Mono) and not d.f and d.coef == 1:
            return n
        return self.mul(n, self.power(d, self.S.F(-1)))

    def diff(self, x, key, depth=0):
        """d x / d atom(key) for a normal form built from powers, products and sums.  An opaque atom
        (a library call, a subscript ...) whose key mentions the variable makes the derivative undefined
        here: DiffUnsupported is raised instead of treating it as a constant."""
        if depth > 40:
            raise DiffUnsupported('nesting too deep')
        if x is NAN:
            return NAN
        if isinstance(x, PW):
            return self.pw(x.ckey, self.diff(x.a, key, depth + 1), self.diff(x.b, key, depth + 1), x.cnode)
        if isinstance(x, Struct):
            raise DiffUnsupported('structured value')
        if isinstance(x, Sum):
            out = self.num(0)
            for t in x.terms:
                out = self.add(out, self.diff(t, key, depth + 1))
            return out
        # Mono: product rule over the factors
        out = self.num(0)
        for k, e in x.f.items():
            if k == key:
                dk = self.num(1)
            elif k in self.derivs and key in self.derivs[k]:
                dk = self.derivs[k][key]
                if self.is_zero(dk):
                    continue
            elif k in self.sums:
                dk = self.diff(self.sums[k], key, depth + 1)
                if self.is_zero(dk):
                    continue
            elif k in self.funcs and self.funcs[k][0] == 'exp':
                darg = self.diff(self.funcs[k][1], key, depth + 1)
                if self.is_zero(darg):
                    continue
                dk = self.mul(self.atom(k), darg)        # d exp(a) = exp(a) da
            elif k in self.funcs and self.funcs[k][0] in ELEMENTARY:
                fname, arg, lib = self.funcs[k]
                darg = self.diff(arg, key, depth + 1)
                if self.is_zero(darg):
                    continue
                one = self.num(1)
                sq = self.mul(arg, arg)
                if fname == 'log':
                    fac = self.power(arg, self.S.F(-1))
                elif fname in ('sin', 'cos', 'sinh', 'cosh'):
                    other = {'sin': 'cos', 'cos': 'sin', 'sinh': 'cosh', 'cosh': 'sinh'}[fname]
                    okey = '%s.%s(%s)' % (lib, other, arg.key())
                    self.funcs[okey] = (other, arg, lib)
                    fac = self.atom(okey)
                    if fname == 'cos':
                        fac = self.mul(self.num(-1), fac)
                elif fname in ('arccos', 'acos'):
                    fac = self.mul(self.num(-1), self.power(self.add(one, sq, -1), self.S.F(Fraction(-1, 2))))
                elif fname in ('arcsin', 'asin'):
                    fac = self.power(self.add(one, sq, -1), self.S.F(Fraction(-1, 2)))
                else:                                     # arctan
                    fac = self.power(self.add(one, sq), self.S.F(-1))
                dk = self.mul(fac, darg)
            elif _mentions(k, key):
                raise DiffUnsupported('opaque factor %s depends on %s' % (k[:60], key))
            else:
                continue
            rest = Mono(x.coef, {kk: ee for kk, ee in x.f.items() if kk != k})
            # e * atom**(e-1) * d(atom)
            term = self.mul(self.mul(rest, self.field_nf(e)), Mono(Fraction(1), {k: e - self.one}) if e != self.one
                            else Mono(Fraction(1)))
            out = self.add(out, self.mul(term, dk))
        return out

    def equal(self, a, b):
        """a == b as normal forms: their difference normalises to 0 on every piece (so that
        -(x - y), y - x and (-1)*(x - y) are the same value)."""
        if a is NAN or b is NAN:
            return a is b
        if isinstance(a, Struct) or isinstance(b, Struct):
            return a.key() == b.key()
        if a.key() == b.key():
            return True
        d = self.add(a, b, -1)
        for conds, leaf in leaves(d):
            if leaf is NAN:
                continue
            if isinstance(leaf, Struct) or not self.is_zero(leaf):
                return False
        return True

    # -- condition keys ------------------------------------------------------
    def ckey(self, n, depth=0):
        if n is None:
            return '?'
        k = n.kind
        if k == 'cmp':
            return '(%s %s %s)' % (self.nf(n.args[0]).key(), n.val, self.nf(n.args[1]).key())
        if k == 'bool':
            return '(' + (' %s ' % n.val).join(self.ckey(a, depth + 1) for a in n.args) + ')'
        if k == 'unop' and n.val == 'not':
            return 'not ' + self.ckey(n.args[0], depth + 1)
        if k == 'const':
            return repr(n.val)
        if k == 'phi':
            return 'phi[%s?%s:%s]' % (self.ckey(n.args[0], depth + 1), self.ckey(n.args[1], depth + 1),
                                      self.ckey(n.args[2], depth + 1))
        return self.nf(n).key()

    # -- fold ---------------------------------------------------------------
    def nf(self, n):
        if n.nid in self.memo:
            return self.memo[n.nid]
        if n.nid in self.inprogress:
            return self.atom('self#%d' % n.nid)
        self.inprogress.add(n.nid)
        try:
            r = self._nf(n)
        finally:
            self.inprogress.discard(n.nid)
        self.memo[n.nid] = r
        return r

    def _index_struct(self, base, idx):
        """Constant index / constant slice of a tuple value, through piecewise values; None if not applicable."""
        if isinstance(base, PW):
            a, b = self._index_struct(base.a, idx), self._index_struct(base.b, idx)
            if a is None or b is None:
                return None
            return self.pw(base.ckey, a, b, base.cnode)
        if not isinstance(base, Struct):
            return None
        if idx.kind == 'const' and isinstance(idx.val, int) and not isinstance(idx.val, bool):
            if -len(base.items) <= idx.val < len(base.items):
                return base.items[idx.val]
            return None
        if idx.kind == 'slice':
            bounds = []
            for a in idx.args[:3]:
                if a is None or (a.kind == 'const' and a.val is None):
                    bounds.append(None)
                elif a.kind == 'const' and isinstance(a.val, int) and not isinstance(a.val, bool):
                    bounds.append(a.val)
                else:
                    return None
            while len(bounds) < 3:
                bounds.append(None)
            return Struct(base.items[slice(*bounds)])
        return None

    def opaque(self, n, tag=None):
        self.opaque_count += 1
        return self.atom(tag or ('%s#%d' % (n.kind, n.nid)))

    def _nf(self, n):
        k = n.kind
        if k == 'const':
            v = n.val
            if isinstance(v, bool):
                return self.num(int(v))
            if isinstance(v, int):
                return self.num(v)
            if isinstance(v, float):
                if v != v:
                    return NAN
                if v in (float('inf'), float('-inf')):
                    return self.atom('inf')
                return self.num(Fraction(repr(v)))
            return self.atom('const:%r' % (v,))
        if k == 'param':
            return self.atom('param:%s' % n.val)
        if k == 'input':
            return self.atom('input:%s' % n.val)
        if k == 'extfunc':
            if n.val in ('numpy.nan', 'numpy.NaN', 'math.nan', 'numpy.NAN'):
                return NAN
            if n.val in ('numpy.pi', 'math.pi'):
                return self.atom('pi')
            return self.atom('ext:%s' % n.val)
        if k == 'binop':
            a, b = self.nf(n.args[0]), self.nf(n.args[1])
            op = n.val
            if op == '+':
                return self.add(a, b)
            if op == '-':
                return self.add(a, b, -1)
            if op in ('*', '@'):
                return self.mul(a, b)
            if op == '/':
                return self.mul(a, self.power_node(b, None, -1))
            if op == '**':
                return self.power_node(a, n.args[1])
            return self.opaque(n, 'binop%s(%s,%s)' % (op, a.key() if a is not NAN else 'NAN',
                                                      b.key() if b is not NAN else 'NAN'))
        if k == 'unop':
            a = self.nf(n.args[0])
            if n.val == '-':
                return self.mul(self.num(-1), a)
            if n.val == '+':
                return a
            return self.opaque(n)
        if k == 'phi':
            c = n.args[0]
            return self.pw(self.ckey(c), self.nf(n.args[1]), self.nf(n.args[2]), c)
        if k in ('tuple', 'list'):
            return Struct([self.nf(a) for a in n.args])
        if k == 'sub':
            idx = n.args[1]
            bn = n.args[0]
            # read-over-write with constant indices: sub(store(b, i, v), j) = v if i == j else sub(b, j)
            while bn.kind == 'store' and idx.kind == 'const' and isinstance(idx.val, int) and not isinstance(idx.val, bool) \
                    and bn.args[1].kind == 'const' and isinstance(bn.args[1].val, int) \
                    and not isinstance(bn.args[1].val, bool) and (idx.val >= 0) == (bn.args[1].val >= 0):
                if bn.args[1].val == idx.val:
                    return self.nf(bn.args[2])
                bn = bn.args[0]
            # memo-table read: `if k not in T: T[k] = v` ... `T[k]` yields v (an entry stored earlier under
            # the same key holds the same function of the key; C06 decides that the key determines the value)
            if bn.kind == 'phi' and bn.args[0].kind == 'cmp' and bn.args[0].val in ('in', 'not in') \
                    and idx.kind != 'const' and self.ikey(bn.args[0].args[0]) == self.ikey(idx):
                arm = bn.args[1] if bn.args[0].val == 'not in' else bn.args[2]
                x = arm
                while x.kind == 'store':
                    if self.ikey(x.args[1]) == self.ikey(idx):
                        return self.nf(x.args[2])
                    x = x.args[0]
            base = self.nf(bn)
            picked = self._index_struct(base, idx)
            if picked is not None:
                return picked
            if isinstance(base, Struct) and idx.kind == 'const' and isinstance(idx.val, int) \
                    and -len(base.items) <= idx.val < len(base.items):
                return base.items[idx.val]
            if isinstance(base, Struct):
                return self.opaque(n)
            # element / slice of an array value: element-wise view of the same value
            if idx.kind in ('index', 'slice') or (idx.kind == 'tuple' and all(a.kind in ('index', 'slice') for a in idx.args)):
                return base
            if base is NAN:
                return NAN
            return self.atom('sub(%s,%s)' % (base.key(), self.ikey(idx)))
        if k == 'store':
            base_n, idx, val = n.args
            v = self.nf(val)
            b = self.nf(base_n)
            # element-wise map idiom: out = zeros(..); out[i] = f(point i)
            if self.is_poly_init(base_n) or (isinstance(b, Mono) and any(a.startswith('self#') for a in b.f)):
                return v
            if isinstance(b, Mono) and b.coef == 0:
                return v
            if b is not NAN and v is not NAN and b.key() == v.key():
                return v
            if idx.kind == 'slice' and all(a.kind == 'const' and a.val is None for a in idx.args):
                return v      # whole-array assignment
            return self.opaque(n)
        if k == 'mu':
            if n.args[1] is None or n.args[1] is n:
                return self.nf(n.args[0])
            nxt = self.nf(n.args[1])
            return nxt
        if k in ('elem',):
            return self.nf(n.args[0])
        if k == 'arrayof':
            return self.nf(n.args[0])
        if k == 'attr':
            if n.val in ('T', 'real', 'flat'):
                return self.nf(n.args[0])
            b = self.nf(n.args[0])
            return self.atom('attr(%s,%s)' % (n.val, b.key() if b is not NAN else 'NAN'))
        if k == 'call':
            if self.interior_clamps and n.val == 'numpy.clip' and len(n.args) == 3:
                return self.nf(n.args[0])
            if self.interior_clamps and n.val in ('builtins.max', 'builtins.min', 'numpy.maximum', 'numpy.minimum') \
                    and len(n.args) == 2:
                # max(-1, x) / min(1, x): the clamp of a cosine, read as x on the open set
                lits = [a for a in n.args if a.kind == 'const' and a.val in (1, -1)
                        or a.kind == 'unop' and a.val == '-' and a.args and a.args[0].kind == 'const' and a.args[0].val == 1]
                if len(lits) == 1:
                    return self.nf([a for a in n.args if a is not lits[0]][0])
            return self.nf_call(n)
        if k == 'mcall':
            recv = self.nf(n.args[0])
            if n.val in ('copy', 'flatten', 'ravel', 'astype', 'squeeze', 'tolist', 'item'):
                return recv
            args = [self.nf(a) for a in n.args[1:]]
            return self.atom('m:%s(%s)' % (n.val, ','.join([recv.key() if recv is not NAN else 'NAN'] +
                                                              [a.key() if a is not NAN else 'NAN' for a in args])))
        if k == 'index':
            return self.atom('index#%d' % n.nid)
        return self.opaque(n)

    def ikey(self, idx):
        if idx.kind == 'const':
            return repr(idx.val)
        if idx.kind == 'tuple':
            return '(' + ','.join(self.ikey(a) for a in idx.args) + ')'
        if idx.kind == 'slice':
            return ':'.join(self.ikey(a) for a in idx.args)
        x = self.nf(idx)
        return x.key() if x is not NAN else 'NAN'

    def is_poly_init(self, n):
        return (n.kind == 'call' and n.val in ('numpy.zeros', 'numpy.empty', 'numpy.empty_like', 'numpy.zeros_like')) \
            or (n.kind in ('list',) and not n.args)

    def power_node(self, a, exp_node, const_exp=None):
        if const_exp is not None:
            return self.power(a, self.S.F(const_exp))
        e = self.R.ratval(exp_node)
        if e is None:
            ek = self.nf(exp_node)
            if a is NAN or ek is NAN:
                return NAN
            if isinstance(a, Mono) and not a.f and abs(float(a.coef) - 2.718281828459045) < 1e-15 \
                    and not isinstance(ek, (PW, Struct)):
                return self.exp_atom(ek)               # pow(e, X) is exp(X)
            return self.atom('pow(%s,%s)' % (a.key(), ek.key()))
        return self.power(a, e)

    def nf_call(self, n):
        name = n.val
        args = n.args
        if name in ('numpy.where',) and len(args) == 3:
            c = args[0]
            return self.pw(self.ckey(c), self.nf(args[1]), self.nf(args[2]), c)
        if name in ('numpy.ones', 'numpy.ones_like'):
            return self.num(1)
        if name in ('numpy.zeros', 'numpy.zeros_like'):
            return self.num(0)
        if name in ('numpy.sqrt', 'math.sqrt') and args:
            return self.power(self.nf(args[0]), self.S.F(Fraction(1, 2)))
        if name in ('numpy.square',) and args:
            return self.power(self.nf(args[0]), self.S.F(2))
        if name in ('builtins.pow', 'math.pow', 'numpy.float_power') and len(args) >= 2:
            return self.power_node(self.nf(args[0]), args[1])
        if name in ('builtins.float', 'numpy.float64', 'numpy.array', 'numpy.asarray', 'numpy.copy', 'numpy.float',
                    'numpy.atleast_1d', 'numpy.ravel', 'numpy.squeeze') and args:
            return self.nf(args[0])
        if name in ('numpy.multiply',) and len(args) == 2:
            return self.mul(self.nf(args[0]), self.nf(args[1]))
        if name in ('numpy.divide', 'numpy.true_divide') and len(args) == 2:
            return self.mul(self.nf(args[0]), self.power(self.nf(args[1]), self.S.F(-1)))
        if name in ('numpy.add',) and len(args) == 2:
            return self.add(self.nf(args[0]), self.nf(args[1]))
        if name in ('numpy.subtract',) and len(args) == 2:
            return self.add(self.nf(args[0]), self.nf(args[1]), -1)
        if name in ('numpy.full', 'numpy.full_like') and len(args) >= 2:
            return self.nf(args[1])
        if name in ('builtins.abs', 'numpy.abs', 'numpy.absolute', 'numpy.fabs', 'math.fabs') and len(args) == 1:
            x = self.nf(args[0])
            # atoms are positive quantities (the convention of every normal form here; a parameter
            # documented as negative is entered as -1 * positive atom by the caller)
            if isinstance(x, Mono) and not any(k.startswith('numpy.sign(') for k in x.f):
                return Mono(abs(x.coef), x.f)
        if name in ('numpy.log', 'math.log', 'numpy.log10') and len(args) == 1:
            x = self.nf(args[0])
            if isinstance(x, Mono) and x.coef == 1 and not x.f:
                return self.num(0)
        if name in ('numpy.sin', 'math.sin', 'numpy.sinh', 'math.sinh', 'numpy.tan', 'math.tan', 'numpy.arctan', 'math.atan',
                    'numpy.arcsin', 'math.asin') and len(args) == 1:
            x = self.nf(args[0])
            if isinstance(x, Mono) and x.coef == 0:
                return self.num(0)
        if name in ('numpy.cos', 'math.cos', 'numpy.cosh', 'math.cosh') and len(args) == 1:
            x = self.nf(args[0])
            if isinstance(x, Mono) and x.coef == 0:
                return self.num(1)
        if name in ('numpy.exp', 'math.exp') and len(args) == 1:
            x = self.nf(args[0])
            if isinstance(x, Mono) and x.coef == 0:
                return self.num(1)
            if x is not NAN and not isinstance(x, (PW, Struct)):
                return self.exp_atom(x)
        ks = []
        for a in args:
            x = self.nf(a)
            ks.append(x.key() if x is not NAN else 'NAN')
        for kk in sorted(n.kw):
            if kk in ('shape', 'dtype'):
                continue
            x = self.nf(n.kw[kk])
            ks.append('%s=%s' % (kk, x.key() if x is not NAN else 'NAN'))
        if n.ho is not None:
            # result of a numerical solve: identified by the call node itself
            return self.atom('solve#%d' % n.nid)
        key = '%s(%s)' % (name, ','.join(ks))
        short = name.split('.')[-1]
        if short in ELEMENTARY and len(args) == 1 and not n.kw and name.split('.')[0] in ('numpy', 'math'):
            x = self.nf(args[0])
            if x is not NAN and not isinstance(x, (PW, Struct)):
                self.funcs[key] = (short, x, name.split('.')[0])      # differentiable through its argument
        return self.atom(key)


ELEMENTARY = {'log', 'sin', 'cos', 'arccos', 'arcsin', 'arctan', 'acos', 'asin', 'atan', 'sinh', 'cosh'}


def leaves(x, conds=()):
    """Piecewise leaves of a normal form: [(conditions, form)]"""
    if isinstance(x, PW):
        return leaves(x.a, conds + ((x.ckey, True, x.cnode),)) + leaves(x.b, conds + ((x.ckey, False, x.cnode),))
    return [(conds, x)]
